"""C19 — Streaming content decoding equals one-shot decoding for every split.

Streams (model `Wpull.Decomp` vs the real code of the checkout under test):
  hdr      is_zlib_header over all 65 536 two-byte prefixes; also against what
           a real `zlib.decompressobj()` does with those two bytes
  coding   Stream._setup_decompressor's choice for a Content-Encoding value
  wrapper  GzipDecompressor / DeflateDecompressor driven directly
           (decompress* then flush; zlib.error is not converted here)
  body     Stream._setup_decompressor + _decompress_data per piece +
           _flush_decompressor  (the stream-level functions of the property)
  e2e      Stream.read_response + read_body over an in-memory connection for
           the framings close / Content-Length / chunked / unparseable
           Content-Length (fallback to close) / ignore_length, each with the
           body kept (file=BytesIO), discarded (file=None, as
           Session.download(file=None) does) and raw=True (no decoding, for
           contrast); the pieces are whatever the real reads returned
  seq      ONE Stream object, 2-3 responses in a row at the stream-function
           level: every ordered pair of {gzip, zlib-deflate, raw-deflate,
           no Content-Encoding, 'identity', unknown coding} x splits; each body
           must decode as through a fresh Stream (decoder state is per response)
  e2e-seq  the same through read_response + read_body over ONE connection
           (Content-Length / chunked framing, lock-step delivery)
  web      the layer above the Stream, as the crawler fetches: real
           WebClient.session(request) -> start() -> download(file=...,
           duration_timeout=...) over an in-memory connection pool, with the
           timeout taken from --session-timeout through the real argument
           parser and FetchRule (None, 0.5, 5, 30 s) x codings x framings x
           file kept / None x truncated / corrupt; same oracle
  history  several decoder objects in ONE process (Stream objects and wrapper
           objects): decoders abandoned after 0 / 1 / 2 bytes, mid-stream, after
           an error, without flush; two or more alive at once and fed
           alternately; then a fresh decoder on a valid body.  Each object is
           replayed alone by the model over its own calls and zlib log (frame
           property); oracle: an object run to its flush yields the one-shot
           decoding of what IT was fed
  headers  the rest of the header block as a dimension (Content-Type incl.
           application/gzip and x-gzip, Content-Disposition, URL endings .gz /
           .tgz / .html) at the function level, through read_body and through
           the web client: the result must be the one with Content-Encoding alone
  framing  which body reader ran (inferred from the raw read() calls on the
           connection's StreamReader) vs the model's effectiveFraming, with
           ignore_length as a dimension over all three framings
  overrun  (family of e2e) Content-Length framing with a server that sends
           1..700 bytes more than declared, body sizes around and above the
           4096 read size, random cut sets; the raw reads of the connection's
           asyncio.StreamReader are logged, the model's `lengthPieces` must
           produce the pieces the decoder got; oracle: the bytes handed on =
           one-shot decoding of exactly the first Content-Length bytes
  bomb     (family of body/e2e) 150 kB - 1 MB of zeros / repetitive text /
           repeated random words, cut so that a NON-final piece of 100 / 1460 /
           4096 bytes inflates to far more than 64 KiB
The body / e2e / seq streams are lock-step co-simulations: `zlib.decompressobj` inside
wpull.decompression is wrapped so that every call on the underlying zlib
object and its result is logged; the model replays the wrapper logic over
that log and must make the same calls in the same order, produce the same
per-piece outputs, the same exception class, and consume the whole log.

Direct oracle (independent of the model), on the real code:
  * result(pieces) == result([whole body])           (split invariance)
  * result == one-shot zlib decode of the whole body with the
    zlib-then-raw-deflate fallback; a one-shot failure (corrupt / truncated
    data) must surface as ProtocolError at the stream level, never as content
    -- whether or not the caller keeps the body (file=None gives the same verdict).
Hypothesis monitor: the real zlib objects' logged behaviour over the pieces
they were fed is compared with a fresh object fed the concatenation at once
(chunking invariance of the trusted runtime = the hypothesis of the theorems).
"""
import asyncio
import contextlib
import glob
import gzip
import io
import json
import os
import zlib

import compat  # noqa: F401
import fakenet
from runner import enc, Infra, unjson

RULE = ('payloads (empty / tiny / text / random / runs, 0..70 kB) x compression settings (level 0-9, strategies, '
        'window bits, gzip header extras, trailing garbage, multi-member) x coding (gzip, zlib, raw deflate, identity, '
        'and mismatched header/body) x splits (whole, every 2-piece split, 1-byte first piece + every second cut, '
        'all single bytes, random) plus truncation at every cut position and byte corruption / insertion / deletion; '
        'e2e: framing (close, length, chunked, bad length, ignore_length) x body kept / discarded (file=None) / raw; '
        'seq: all 36 ordered pairs of codings (x3) + random triples through one Stream object, function level and over one connection; '
        'web: WebClient/WebSession fetch x session timeout (None, 0.5, 5, 30) x codings x framings x file kept/None; '
        'ignore_length x {length, chunked, close}; chunk layouts: random, all 1-byte chunks, boundaries inside the coding header (1, 2, 8, 10) and trailer (8, 4+4, 1, 2); '
        'history: 2-4 decoder objects x plans (full, abandon after 0/1/2 bytes, mid, no flush, broken) x sequential/interleaved; '
        'headers: 11 Content-Type values x Content-Disposition x URL endings; '
        'overrun: Content-Length framing x 1..700 surplus bytes x body sizes 1..20000 (around 4096 / 8192) x cut sets; '
        'bomb: highly compressible 150 kB-1 MB payloads where a non-final piece inflates past 64 KiB; '
        'non-trivial = a decoder object is selected and the body is not empty; distinct by (coding, body, pieces, level)')
TRUSTED = ['zlib (zlib.decompressobj): opaque streaming inflater; its chunking invariance (same total output, eof flag and '
           'error/no-error for every split of one input) is the hypothesis of the theorems and is monitored on every logged run',
           'harness/fakenet.py in-memory transports (e2e stream only)']
ASSUMPTIONS = ['pieces handed to the decoder are non-empty (true of all three body readers: an empty read ends the loop)',
               'an empty body with Content-Encoding gzip/deflate is an empty entity, not a truncated stream',
               '"corrupt" means: the one-shot zlib decode of the whole body fails (raw deflate has no checksum, so a '
               'changed literal byte that still decodes is not detectable by anyone)',
               'transport-level truncation (connection closed before Content-Length / last chunk) is NetworkError and belongs to C08']
UNPROVED = []

MODES = {16 + zlib.MAX_WBITS: 'g', zlib.MAX_WBITS: 'z', -zlib.MAX_WBITS: 'r'}


# ------------------------------------------------------------------ logging zlib
class LoggedObj:
    """A zlib decompress object whose every call is logged."""

    def __init__(self, owner, wbits):
        self._o = zlib.decompressobj(wbits)
        self._owner = owner
        self.mode = MODES.get(wbits, '?%d' % wbits)
        owner.nobj += 1
        self.idx = owner.nobj

    def decompress(self, value, *args):
        if args:
            self._owner.odd.append('decompress with max_length')
        try:
            out = self._o.decompress(value, *args)
        except zlib.error:
            self._owner.log.append((self.idx, self.mode, 'd', bytes(value), None, self._o.eof))
            raise
        self._owner.log.append((self.idx, self.mode, 'd', bytes(value), out, self._o.eof))
        return out

    def flush(self, *args):
        try:
            out = self._o.flush(*args)
        except zlib.error:
            self._owner.log.append((self.idx, self.mode, 'f', b'', None, self._o.eof))
            raise
        self._owner.log.append((self.idx, self.mode, 'f', b'', out, self._o.eof))
        return out

    @property
    def eof(self):
        return self._o.eof

    @property
    def unused_data(self):
        return self._o.unused_data

    @property
    def unconsumed_tail(self):
        return self._o.unconsumed_tail


class LoggingZlib:
    """Stands in for the name `zlib` in wpull.decompression's namespace."""

    def __init__(self):
        self.log = []
        self.nobj = 0
        self.odd = []
        self.current = None       # histories: the decoder object on whose behalf zlib is being called
        self.owner_of = {}

    def decompressobj(self, wbits=zlib.MAX_WBITS, *args, **kw):
        if args or kw:
            self.odd.append('decompressobj with zdict')
        obj = LoggedObj(self, wbits)
        self.owner_of[obj.idx] = self.current
        return obj

    def __getattr__(self, name):
        return getattr(zlib, name)


@contextlib.contextmanager
def logged_zlib():
    import wpull.decompression as wd
    proxy = LoggingZlib()
    orig = wd.zlib
    wd.zlib = proxy
    try:
        yield proxy
    finally:
        wd.zlib = orig


def enc_log(log):
    if not log:
        return '~'
    return ';'.join('%s%s%s:%s:%s' % (m, op, 'T' if eof else 'F', enc(arg), '!' if res is None else '=' + enc(res))
                    for (_i, m, op, arg, res, eof) in log)


def enc_pieces(ps):
    return '~' if not ps else '/'.join(enc(p) for p in ps)


def classify_exc(e):
    import wpull.errors as we
    if isinstance(e, we.ProtocolError):
        return 'ProtocolError'
    if isinstance(e, we.NetworkError):
        return 'NetworkError'
    if isinstance(e, zlib.error):
        return 'ZlibError'
    return type(e).__name__


# ------------------------------------------------------------------ real runs
HEADER_OF = {'g': 'gzip', 'd': 'deflate', 'i': ''}


def real_body(coding, pieces, header=None):
    """The stream-level functions of the real code.  -> (res, outs, log, odd)"""
    from wpull.protocol.http.stream import Stream
    from wpull.protocol.http.request import Response
    with logged_zlib() as z:
        st = Stream(None)
        resp = Response(200, 'OK')
        value = HEADER_OF[coding] if header is None else header
        if value is not None and value != '':
            resp.fields['Content-Encoding'] = value
        outs = []
        try:
            st._setup_decompressor(resp)
            for p in pieces:
                outs.append(bytes(st._decompress_data(p)))
            outs.append(bytes(st._flush_decompressor()))
            res = ('ok', b''.join(outs))
        except Exception as e:  # noqa
            res = ('exc', classify_exc(e))
    return res, outs, z.log, z.odd


def real_wrapper(kind, pieces):
    import wpull.decompression as wd
    with logged_zlib() as z:
        try:
            d = wd.GzipDecompressor() if kind == 'g' else wd.DeflateDecompressor()
            out = b''
            for p in pieces:
                out += d.decompress(p)
            out += d.flush()
            res = ('ok', out)
        except Exception as e:  # noqa
            res = ('exc', classify_exc(e))
    return res, z.log, z.odd


def fmt_res(res):
    return ('ok ' + enc(res[1])) if res[0] == 'ok' else ('exc ' + res[1])


# ------------------------------------------------------------------ reference (independent of wpull and of the model)
def inflate_once(wbits, body):
    """One-shot decode; None when zlib raises or the stream does not end inside `body`."""
    o = zlib.decompressobj(wbits)
    try:
        out = o.decompress(body) + o.flush()
    except zlib.error:
        return None
    return out if o.eof else None


def reference(coding, body):
    """('ok', content) or ('err',) for the whole body decoded at once."""
    if coding == 'i' or not body:
        return ('ok', body)
    if coding == 'g':
        if body[:1] != b'\x1f':
            return ('ok', body)       # documented behaviour of GzipDecompressor: no magic, bytes unchanged
        out = inflate_once(16 + zlib.MAX_WBITS, body)
        return ('ok', out) if out is not None else ('err',)
    out = inflate_once(zlib.MAX_WBITS, body)
    if out is not None:
        return ('ok', out)
    out = inflate_once(-zlib.MAX_WBITS, body)
    if out is None:
        return ('err',)
    if len(body) >= 2 and rfc1950_header(body[0], body[1]):
        # A raw deflate stream that starts with a stored block whose ignored padding bits and length byte
        # happen to spell a valid zlib header (no compressor emits this; only the crafted generator does).
        # Which reading is "right" cannot be decided from a bounded prefix, so the property's sentence
        # (pieces = whole body at once) is all that is demanded: refusing it is acceptable.
        return ('ambiguous', out)
    return ('ok', out)


def rfc1950_header(cmf, flg):
    """RFC 1950 section 2.2, written from the RFC: CM=8, CINFO<=7, FCHECK, no FDICT."""
    return cmf % 16 == 8 and cmf // 16 <= 7 and (cmf << 8 | flg) % 31 == 0 and not (flg >> 5) & 1


def monitor_zlib(ctx, log, case):
    """Chunking invariance of the real zlib objects seen in this run (the theorems' hypothesis)."""
    by_obj = {}
    for (i, m, op, arg, res, eof) in log:
        by_obj.setdefault((i, m), []).append((op, arg, res, eof))
    for (i, m), calls in by_obj.items():
        wbits = {v: k for k, v in MODES.items()}.get(m)
        if wbits is None:
            ctx.disagree('zlib-mode', case, 'gzip|zlib|raw', m)
            continue
        data = b''.join(a for (op, a, r, e) in calls if op == 'd')
        failed = any(r is None for (op, a, r, e) in calls)
        flushed = any(op == 'f' for (op, a, r, e) in calls)
        o = zlib.decompressobj(wbits)
        try:
            out = o.decompress(data)
            if flushed:
                out += o.flush()
            one = ('ok', out, o.eof)
        except zlib.error:
            one = ('err',)
        if failed:
            seen = ('err',)
        else:
            seen = ('ok', b''.join(r for (op, a, r, e) in calls), calls[-1][3])
        ctx.tag('zlib-monitor:' + seen[0])
        if seen != one:
            ctx.disagree('zlib-chunking-invariance', dict(case, mode=m), repr(one)[:300], repr(seen)[:300])


# ------------------------------------------------------------------ generators
def gen_payload(rng, size=None):
    n = size if size is not None else rng.choice([0, 1, 2, 3, 5, 8, 13, 21, 40, 64, 100, 300])
    k = rng.random()
    if k < 0.3:
        return bytes(rng.randrange(256) for _ in range(n))
    if k < 0.6:
        words = [b'the ', b'quick ', b'<html>', b'</p>', b'wpull ', b'\n', b'0123456789', b'\x1f\x8b', b'\x78\x9c']
        out = b''
        while len(out) < n:
            out += rng.choice(words)
        return out[:n]
    if k < 0.8:
        return bytes([rng.randrange(256)]) * n
    return bytes(rng.choice(b'ab') for _ in range(n))


def compress(rng, fmt, payload):
    """fmt: 'gzip' | 'zlib' | 'raw'.  Returns (body, description)."""
    level = rng.choice([0, 1, 6, 9, -1])
    strategy = rng.choice([zlib.Z_DEFAULT_STRATEGY] * 3 + [zlib.Z_FIXED, zlib.Z_HUFFMAN_ONLY, zlib.Z_RLE, zlib.Z_FILTERED])
    wb = rng.choice([15, 15, 15, 9, 12])
    if fmt == 'gzip' and rng.random() < 0.3:
        buf = io.BytesIO()
        with gzip.GzipFile(filename=rng.choice(['', 'a.txt', 'x' * 40]), mode='wb', fileobj=buf,
                           compresslevel=rng.choice([1, 6, 9]), mtime=rng.randrange(2 ** 31)) as g:
            g.write(payload)
        return buf.getvalue(), 'gzipfile'
    if fmt == 'raw' and rng.random() < 0.25:
        # hand-assembled stored blocks; the 5 padding bits after the block type are ignored by inflate,
        # so the first byte (and with the length byte the first two) can be made to look like anything
        body = b''
        chunks, i = [], 0
        while i < len(payload):
            n = rng.choice([0, 1, 2, 7, 28, 59, 90, 121, 152]) if rng.random() < 0.5 else rng.randrange(0, 200)
            chunks.append(payload[i:i + n])
            i += n
        if not chunks or rng.random() < 0.3:
            chunks.append(b'')
        k = rng.random()
        for j, ch in enumerate(chunks):
            final = 1 if j == len(chunks) - 1 else 0
            pad = rng.choice([1, 3, 5, 7, 9, 11, 13, 15]) if (j == 0 and k < 0.7) else rng.randrange(32)
            body += bytes([final | (pad << 3)]) + len(ch).to_bytes(2, 'little') + (len(ch) ^ 0xffff).to_bytes(2, 'little') + ch
        return body, 'stored-crafted'
    wbits = {'gzip': 16 + wb, 'zlib': wb, 'raw': -wb}[fmt]
    c = zlib.compressobj(level, zlib.DEFLATED, wbits, rng.choice([1, 8, 9]), strategy)
    body = b''
    if len(payload) > 3 and rng.random() < 0.3:
        h = rng.randrange(1, len(payload))
        body += c.compress(payload[:h]) + c.flush(rng.choice([zlib.Z_SYNC_FLUSH, zlib.Z_FULL_FLUSH, zlib.Z_NO_FLUSH]))
        body += c.compress(payload[h:])
    else:
        body += c.compress(payload)
    body += c.flush()
    return body, 'l%d s%d w%d' % (level, strategy, wb)


def mutate(rng, body):
    """-> (mutated body, tag)"""
    if not body:
        return body, 'same'
    k = rng.random()
    b = bytearray(body)
    if k < 0.35:
        i = rng.randrange(len(b))
        b[i] ^= 1 << rng.randrange(8)
        return bytes(b), 'bitflip'
    if k < 0.5:
        i = rng.randrange(len(b))
        b[i] = rng.randrange(256)
        return bytes(b), 'byteset'
    if k < 0.65:
        i = rng.randrange(len(b))
        del b[i]
        return bytes(b), 'delete'
    if k < 0.8:
        i = rng.randrange(len(b) + 1)
        b[i:i] = bytes([rng.randrange(256)])
        return bytes(b), 'insert'
    if k < 0.9:
        return bytes(b) + bytes(rng.randrange(256) for _ in range(rng.randrange(1, 6))), 'trailing'
    i = min(len(b) - 1, rng.choice([0, 1, 2, 3]))
    b[i] = rng.randrange(256)
    return bytes(b), 'header-byte'


def splits_of(rng, n, every_two=True, extra_random=3):
    """Lists of cut positions for a body of n bytes."""
    out = [[]]
    if n >= 2:
        out.append(list(range(1, n)))                      # all single bytes
        if every_two:
            out.extend([[i] for i in range(1, n)])         # every 2-piece split
            out.extend([[1, i] for i in range(2, n)])      # 1-byte first piece + every second cut
        else:
            out.extend([[1], [2], [n - 1]] if n > 2 else [[1]])
            out.extend([[1, rng.randrange(2, n)] for _ in range(3) if n > 2])
        if n >= 3:
            out.append([1, 2])
        for _ in range(extra_random):
            out.append(fakenet.random_cuts(rng, n, rng.choice(['one', 'few', 'many'])))
    seen, res = set(), []
    for c in out:
        t = tuple(c)
        if t not in seen:
            seen.add(t)
            res.append(c)
    return res


# ------------------------------------------------------------------ stream: hdr
def stream_hdr(ctx, pairs):
    import wpull.decompression as wd
    real_fn = getattr(wd, 'is_zlib_header', None)
    if real_fn is None:
        ctx.note('hdr', 'the checkout has no is_zlib_header (unrepaired DeflateDecompressor): only zlib itself compared')
    reqs = ['decomp hdr ' + enc(p) for p in pairs]
    reps = ctx.model.ask(reqs)
    for p, rep in zip(pairs, reps):
        ctx.case(('hdr', p), nontrivial=len(p) >= 2, tags=['hdr:' + rep])
        if real_fn is not None:
            real = 'T' if real_fn(p) else 'F'
            if real != rep:
                ctx.disagree('hdr', {'stream': 'hdr', 'data': p}, rep, real)
        if len(p) == 2:
            # what zlib itself thinks of the two bytes (FDICT is only refused later, with the dictionary id)
            o = zlib.decompressobj()
            try:
                o.decompress(p)
                zl = True
            except zlib.error:
                zl = False
            if not p[1] & 0x20:
                if zl != (rep == 'T'):
                    ctx.disagree('hdr-vs-zlib', {'stream': 'hdr', 'data': p}, rep, 'zlib accepts' if zl else 'zlib refuses')
            else:
                # FDICT: the model says "not a zlib header we can decode"; zlib must refuse it at the latest
                # when the dictionary id has arrived
                o = zlib.decompressobj()
                try:
                    o.decompress(p + b'\0\0\0\0')
                    zl6 = True
                except zlib.error:
                    zl6 = False
                if rep != 'F' or zl6:
                    ctx.disagree('hdr-vs-zlib', {'stream': 'hdr', 'data': p}, rep, 'zlib accepts FDICT' if zl6 else 'zlib refuses FDICT')
    ctx.sample({'stream': 'hdr', 'data': pairs[0x789c] if len(pairs) > 0x789c else pairs[0]})


# ------------------------------------------------------------------ stream: coding
def real_coding(value):
    from wpull.protocol.http.stream import Stream
    from wpull.protocol.http.request import Response
    import wpull.decompression as wd
    st = Stream(None)
    resp = Response(200, 'OK')
    if value is not None:
        resp.fields['Content-Encoding'] = value
    st._setup_decompressor(resp)
    d = st._decompressor
    if d is None:
        return 'i', resp.fields.get('Content-Encoding', '')
    if type(d) is wd.GzipDecompressor:
        return 'g', resp.fields.get('Content-Encoding', '')
    if type(d) is wd.DeflateDecompressor:
        return 'd', resp.fields.get('Content-Encoding', '')
    return '?' + type(d).__name__, ''


def stream_coding(ctx, values):
    rows = []
    for v in values:
        try:
            real, stored = real_coding(v)
        except Exception as e:  # noqa
            real, stored = 'exc ' + type(e).__name__, v
        rows.append((v, real, stored))
    # the model gets the field value as the code sees it (`fields.get`), the header container is not C19's subject
    reps = ctx.model.ask(['decomp coding ' + enc(stored) for (_v, _r, stored) in rows])
    for (v, real, stored), rep in zip(rows, reps):
        ctx.case(('coding', v), nontrivial=real != 'i', tags=['coding:' + real])
        if real != rep:
            ctx.disagree('coding', {'stream': 'coding', 'value': v}, rep, real)


CODING_VALUES = ['gzip', 'GZIP', 'GZip', 'deflate', 'Deflate', 'DEFLATE', '', 'identity', 'br', 'x-gzip', 'gzip ', ' gzip',
                 'gzip, deflate', 'deflate, gzip', 'compress', 'gzİp', 'GZİP', 'gſip', 'deflaté',
                 'KZIP', 'gzip', 'ｇzip', 'gzip\x00', 'gzıp', 'DEFLATE\t']


# ------------------------------------------------------------------ stream: body / wrapper
class Batch:
    """Collect real runs, ask the model in one go, compare."""

    def __init__(self, ctx):
        self.ctx = ctx
        self.rows = []

    def add_body(self, coding, body, cuts, meta):
        pieces = fakenet.segment(body, cuts)
        res, outs, log, odd = real_body(coding, pieces)
        req = 'decomp body %s %s %s' % (coding, enc_pieces(pieces), enc_log(log))
        self.rows.append(('body', coding, body, pieces, res, outs, log, odd, meta, req))
        return res

    def add_wrapper(self, kind, body, cuts, meta):
        pieces = fakenet.segment(body, cuts)
        res, log, odd = real_wrapper(kind, pieces)
        req = 'decomp %s %s %s' % ('gzipw' if kind == 'g' else 'deflw', enc_pieces(pieces), enc_log(log))
        self.rows.append(('wrapper', kind, body, pieces, res, None, log, odd, meta, req))
        return res

    def flush(self):
        ctx = self.ctx
        reps = ctx.model.ask([r[-1] for r in self.rows])
        for (stream, coding, body, pieces, res, outs, log, odd, meta, _req), rep in zip(self.rows, reps):
            case = {'stream': stream, 'coding': coding, 'body': body, 'pieces': pieces}
            if stream == 'body':
                real = '%s %s %s' % (fmt_res(res), enc_pieces(outs), 0)
            else:
                real = fmt_res(res)
            if real != rep:
                ctx.disagree(stream, case, rep[:400], real[:400])
            if odd:
                ctx.disagree(stream + '-zlib-api', case, 'decompressobj(wbits) / decompress(value) / flush()', odd[0])
            if len({i for (i, *_r) in log}) > 1:
                ctx.disagree(stream + '-objects', case, 'one zlib object per body', '%d objects used' % len({i for (i, *_r) in log}))
            monitor_zlib(ctx, log, case)
        self.rows = []


def check_case(ctx, batch, coding, body, cutsets, meta):
    """Run one (coding, body) under every cut set: co-simulation rows + the direct oracle."""
    ref = reference(coding, body)
    whole = None
    for cuts in cutsets:
        res = batch.add_body(coding, body, cuts, meta)
        pieces = fakenet.segment(body, cuts)
        tags = ['body:' + coding + ':' + meta.get('fmt', '?') + ':' + mutclass(meta),
                'body:result=' + (res[0] if res[0] == 'ok' else res[1]),
                'body:pieces=' + ('0' if not pieces else '1' if len(pieces) == 1 else '2' if len(pieces) == 2 else '3+')]
        if pieces and len(pieces[0]) == 1 and len(pieces) > 1:
            tags.append('body:first-piece-1-byte')
        ctx.case(('body', coding, body, tuple(cuts)), nontrivial=(coding != 'i' and len(body) > 0), tags=tags)
        case = {'stream': 'body', 'coding': coding, 'body': body, 'cuts': list(cuts)}
        if whole is None:
            whole = real_body(coding, [body] if body else [])[0]
        oracle(ctx, case, coding, body, res, whole, ref, meta)
    if len(ctx.samples) < 4 and body:
        ctx.sample({'stream': 'body', 'coding': coding, 'body': body, 'cuts': list(cutsets[-1]), 'meta': meta})


def mutclass(meta):
    m = meta.get('mut', 'valid')
    return m if m in ('valid', 'truncated') else 'mutated'


def oracle(ctx, case, coding, body, res, whole, ref, meta, where='stream'):
    """The property on the real output, independent of the model."""
    if res != whole:
        ctx.fail('split-dependent', where, case,
                 'pieces give %s but the whole body at once gives %s' % (fmt_res(res)[:120], fmt_res(whole)[:120]))
        return
    if ref[0] == 'ambiguous':
        ctx.tag('oracle:ambiguous-deflate-prefix')
        if res != ('ok', ref[1]) and res != ('exc', 'ProtocolError'):
            ctx.fail('wrong-content', where, case, 'ambiguous deflate prefix: neither the raw-deflate content nor ProtocolError: %s' % fmt_res(res)[:160])
    elif ref[0] == 'ok':
        if res != ('ok', ref[1]):
            ctx.fail('wrong-content', where, case,
                     'one-shot zlib gives %d bytes, the decoder gives %s' % (len(ref[1]), fmt_res(res)[:160]))
    else:
        if res[0] == 'ok':
            kind = 'truncated-accepted' if meta.get('mut') == 'truncated' else 'corrupt-accepted'
            ctx.fail(kind, where, case,
                     'one-shot zlib rejects the body; the decoder returned %d bytes as content' % len(res[1]))
        elif res[1] != 'ProtocolError':
            ctx.fail('not-protocol-error', where, case, 'undecodable body raised %s, not ProtocolError' % res[1])


# ------------------------------------------------------------------ stream: e2e
class _Passive:
    pass


def chunk_sizes(rng, n):
    """Chunk layout for a body of n bytes.  Besides random sizes: layouts whose boundaries fall inside the
    coding's header and trailer (gzip header 10 bytes, zlib header 2, gzip trailer 8, adler 4) and 1-byte chunks
    throughout - pieces for which a decoder has nothing to emit yet."""
    style = rng.choice(['random', 'random', 'ones', 'head', 'tail', 'headtail'])
    sizes = []
    if style == 'ones' and n <= 600:
        return [1] * n
    left = n
    if style in ('head', 'headtail'):
        for k in rng.choice([[1], [2], [8], [10], [1, 1], [2, 8], [1, 9], [10, 1], [1, 2, 8, 10]]):
            if left > k:
                sizes.append(k)
                left -= k
    tail = []
    if style in ('tail', 'headtail'):
        for k in rng.choice([[8], [1], [2], [4, 4], [1, 8], [8, 1], [10, 8, 2, 1]]):
            if left > k:
                tail.insert(0, k)
                left -= k
    while left > 0:
        k = min(left, rng.choice([1, 2, 3, 7, 50, 5000]))
        sizes.append(k)
        left -= k
    return sizes + tail


def chunked_frame(rng, body):
    """-> (wire bytes, list of (start, end) content regions relative to the start of the wire body)"""
    wire = b''
    regions = []
    i = 0
    for n in chunk_sizes(rng, len(body)):
        chunk = body[i:i + n]
        head = b'%x%s\r\n' % (len(chunk), rng.choice([b'', b'', b';ext=1']))
        wire += head
        regions.append((len(wire), len(wire) + len(chunk)))
        wire += chunk + b'\r\n'
        i += n
    assert i == len(body)
    wire += b'0\r\n' + rng.choice([b'', b'X-Trailer: 1\r\n']) + b'\r\n'
    return wire, regions


def extra_head(extra):
    """extra header lines that must not influence decoding: Content-Type, Content-Disposition"""
    out = b''
    if extra:
        if extra.get('ctype') is not None:
            out += b'Content-Type: ' + extra['ctype'].encode('latin-1') + b'\r\n'
        if extra.get('cdisp') is not None:
            out += b'Content-Disposition: ' + extra['cdisp'].encode('latin-1') + b'\r\n'
    return out


def extra_url(extra):
    return 'http://h' + ((extra or {}).get('path') or '/')


def is_chunked(strategy):
    return strategy in ('chunked', 'ignorelen-chunked')


def real_e2e(header_value, strategy, wire_body, cuts, regions, filemode='keep', declared=None, reads=None, extra=None):
    """Real Stream.read_response + read_body.  -> (res, pieces seen by the decoder, log, odd)
    strategy: close | length | chunked | badlength (unparseable Content-Length -> until close) |
              ignorelen / ignorelen-chunked / ignorelen-close: Stream(ignore_length=True) with a Content-Length
              (-> until close), with chunked framing (stays chunked) and without either (close) |
              overrun (Content-Length smaller than what is sent)
    filemode: keep (file=BytesIO) | none (file=None: the caller discards the body) | raw (raw=True, no decoding)"""
    from wpull.protocol.http.stream import Stream
    from wpull.protocol.http.request import Request
    from wpull.network.connection import Connection
    head = b'HTTP/1.1 200 OK\r\n' + extra_head(extra)
    if header_value:
        head += b'Content-Encoding: ' + header_value.encode('latin-1') + b'\r\n'
    if strategy in ('length', 'ignorelen'):
        head += b'Content-Length: %d\r\n' % len(wire_body)
    elif strategy == 'overrun':
        # the server sends more than it declared (`declared` bytes of body, then surplus)
        head += b'Content-Length: %d\r\n' % declared
    elif strategy == 'badlength':
        head += b'Content-Length: 1x2\r\n'
    elif is_chunked(strategy):
        head += b'Transfer-Encoding: chunked\r\n'
    head += b'\r\n'
    out = io.BytesIO()
    seen = []

    async def go():
        net = fakenet.FakeNet()
        net.default = _Passive
        with net:
            conn = Connection(('10.0.0.1', 80), 'h')
            await compat._ensure(conn.connect())
            fc = net.conns[-1]
            if reads is not None:
                # log what each read() of the (stdlib) asyncio.StreamReader returns: the raw reads of the body
                orig_read = fc.reader.read

                async def logged_read(n=-1):
                    d = await orig_read(n)
                    reads.append(bytes(d))
                    return d
                fc.reader.read = logged_read
            stream = Stream(conn, keep_alive=True, ignore_length=strategy.startswith('ignorelen'))
            request = Request(extra_url(extra))

            async def client():
                response = await compat._ensure(stream.read_response())
                response.request = request
                if reads is not None:
                    del reads[:]
                stream.data_event_dispatcher.add_read_listener(lambda d: seen.append(bytes(d)))
                await compat._ensure(stream.read_body(request, response,
                                                      file=None if filemode == 'none' else out,
                                                      raw=(filemode == 'raw')))

            segs = [head] + fakenet.segment(wire_body, cuts)
            feeder = asyncio.ensure_future(fc.send_segments(segs, eof=True, yields=2))
            task = asyncio.ensure_future(client())
            done = await fakenet.settle(task, [feeder])
            if not done:
                task.cancel()
                return ('stalled',)
            try:
                task.result()
            except Exception as e:  # noqa
                return ('exc', classify_exc(e))
            return ('ok', None if filemode == 'none' else out.getvalue())

    with logged_zlib() as z:
        res = compat.run(go())
    # which notified items were content
    pieces = []
    if is_chunked(strategy):
        off = 0
        for item in seen:
            for (a, b) in regions:
                if a <= off and off + len(item) <= b and item:
                    pieces.append(item)
                    break
            off += len(item)
    else:
        pieces = [s for s in seen if s]
    return res, pieces, z.log, z.odd


def infer_framing(reads, wire, body, chunked):
    """Which reader of read_body ran, from the raw read() calls on the connection's StreamReader:
    chunked: read() returned the chunk contents only (the framing lines are fetched with readline());
    close: everything came through read() up to and including the empty read at end of stream;
    length: everything declared came through read(), no read at end of stream."""
    got = b''.join(reads)
    if chunked and got == body and got != wire:
        return 'x'
    if got == wire and reads and reads[-1] == b'':
        return 'c'
    if got == wire or (wire.startswith(got) and got.startswith(body)):
        return 'l'
    return '?'


def stream_e2e(ctx, cases):
    """cases: (coding, header_value, body, strategy, meta, seed[, filemode])"""
    rows = []
    lens_reads = []     # (declared length, raw reads, pieces the decoder got) of the over-sending runs
    framings = []       # (ignore_length, length parses, framing the headers declare, framing observed, strategy)
    for case_t in cases:
        (coding, header_value, body, strategy, meta, seed) = case_t[:6]
        filemode = case_t[6] if len(case_t) > 6 else 'keep'
        rng = ctx.subrng('e2e/%s' % seed)
        reads = []
        if is_chunked(strategy):
            wire, regions = chunked_frame(rng, body)
        elif strategy == 'overrun':
            k = rng.choice([1, 2, 17, 700]) if rng.random() < 0.5 else rng.randrange(1, 701)
            surplus = rng.choice([bytes(rng.randrange(256) for _ in range(k)), (b'HTTP/1.1 200 OK\r\n\r\n' * 40)[:k], b'X' * k])
            wire, regions = body + surplus, None
        else:
            wire, regions = body, None
        cuts = fakenet.random_cuts(rng, len(wire), rng.choice(['none', 'one', 'few', 'many', 'bytes'] if len(wire) < 400
                                                               else ['none', 'one', 'few', 'few']))
        if strategy == 'overrun' and len(body) > 1 and rng.random() < 0.5:
            # make sure the body itself arrives in at least two reads and the last one carries surplus
            cuts = sorted(set(cuts) | {rng.randrange(1, len(body))})
            cuts = [c for c in cuts if c <= len(body) - 1 or c >= len(body) + 1]
        res, pieces, log, odd = real_e2e(header_value, strategy, wire, cuts, regions, filemode,
                                         declared=len(body), reads=reads, extra=meta.get('extra'))
        if strategy == 'overrun':
            meta = dict(meta, reads=[len(r) for r in reads], surplus=len(wire) - len(body))
            lens_reads.append((len(body), [r for r in reads], pieces))
        if res[0] == 'ok' and body and strategy != 'overrun':
            # which reader ran: get_read_strategy's answer -> ignore_length rule -> fallback for an unparseable length
            base = 'x' if is_chunked(strategy) else 'l' if strategy in ('length', 'badlength', 'ignorelen') else 'c'
            framings.append((strategy.startswith('ignorelen'), strategy != 'badlength', base,
                             infer_framing(reads, wire, body, is_chunked(strategy)), strategy))
        rows.append((coding, header_value, body, strategy, meta, seed, res, pieces, log, odd, filemode, wire))
    fr = ctx.model.ask(['decomp framing %s %s %s' % ('T' if il else 'F', 'T' if lp_ else 'F', base)
                        for (il, lp_, base, _obs, _st) in framings])
    for (il, lp_, base, obs, st), rep in zip(framings, fr):
        ctx.tag('framing:%s->%s' % (st, obs))
        if rep != obs:
            ctx.disagree('framing', {'stream': 'framing', 'ignore_length': il, 'length_parses': lp_, 'declared': base,
                                     'strategy': st}, rep, obs)
    # Content-Length framing: the model's `lengthPieces declared reads` must be the pieces the decoder got
    lp = ctx.model.ask(['decomp lenpieces %d %s' % (n, enc_pieces(rd)) for (n, rd, _p) in lens_reads])
    for (n, rd, pcs), rep in zip(lens_reads, lp):
        ctx.tag('overrun:reads=%s' % ('1' if len([r for r in rd if r]) <= 1 else '2+'))
        if rep != enc_pieces(pcs):
            ctx.disagree('lenpieces', {'stream': 'lenpieces', 'declared': n, 'reads': rd}, rep[:300], enc_pieces(pcs)[:300])
    # raw=True: no decoder is set up, the model is the identity coding
    reps = ctx.model.ask(['decomp body %s %s %s' % ('i' if r[10] == 'raw' else r[0], enc_pieces(r[7]), enc_log(r[8])) for r in rows])
    for (coding, header_value, body, strategy, meta, seed, res, pieces, log, odd, filemode, wire), rep in zip(rows, reps):
        case = {'stream': 'e2e', 'coding': coding, 'header': header_value, 'body': body, 'strategy': strategy,
                'meta': meta, 'seed': seed, 'filemode': filemode}
        ctx.case(('e2e', coding, body, strategy, seed, filemode), nontrivial=(coding != 'i' and len(body) > 0),
                 tags=['e2e:' + strategy + ':' + coding, 'e2e:file=' + filemode,
                       'e2e:result=' + (res[0] if res[0] != 'exc' else res[1])])
        if res[0] == 'stalled':
            ctx.disagree('e2e', case, 'completes', 'stalled')
            continue
        if strategy == 'overrun':
            # the property on the real output: what is handed on is exactly the first Content-Length bytes
            if res[0] == 'ok' and b''.join(pieces) != body:
                ctx.fail('overrun-delivered', 'read_body_by_length', case,
                         'Content-Length %d, reads %s: %d bytes were handed to the decoder (surplus of an over-sending server)'
                         % (len(body), meta.get('reads'), len(b''.join(pieces))))
        pieces_ok = True
        if strategy != 'overrun' and ((b''.join(pieces) != body) if res[0] == 'ok' else (not body.startswith(b''.join(pieces)))):
            # what reached the decoder is not (a prefix of) the body: the framing was read wrongly.  The oracle below
            # judges the result; the co-simulation over these pieces would be meaningless, so it is a disagreement.
            pieces_ok = False
            ctx.disagree('e2e-pieces', case, 'the decoder is handed the %d body bytes' % len(body),
                         '%d bytes in %d pieces' % (len(b''.join(pieces)), len(pieces)))
        # model: same result class / content, whole log consumed (per-piece outputs are not observable through the file)
        rp = rep.split(' ')
        if filemode == 'keep' or (filemode == 'raw' and not is_chunked(strategy)):
            model = ' '.join(rp[:2]) + ' ' + rp[-1]
            real = fmt_res(res) + ' 0'
        else:
            # body discarded (file=None) or raw chunked framing in the file: the content is not comparable,
            # the exception class and the zlib calls (final flush included) are
            model = (rp[0] if rp[0] == 'ok' else ' '.join(rp[:2])) + ' ' + rp[-1]
            real = ('ok' if res[0] == 'ok' else fmt_res(res)) + ' 0'
        if pieces_ok and model != real:
            ctx.disagree('e2e', case, rep[:400], real[:400])
        if odd:
            ctx.disagree('e2e-zlib-api', case, 'plain calls', odd[0])
        monitor_zlib(ctx, log, case)
        if filemode == 'raw':
            want = ('ok', wire if is_chunked(strategy) else body)      # (overrun: the declared bytes only)
            if res != want:
                ctx.fail('raw-not-passthrough', 'read_body_raw', case,
                         'raw=True must hand the undecoded bytes through: %s' % fmt_res(res)[:160])
            continue
        ref = reference(coding, body)
        if filemode == 'none':
            # the caller discards the body: the verdict (ok / ProtocolError) must be the same as with a file
            if ref[0] == 'err':
                if res[0] == 'ok':
                    kind = 'truncated-accepted' if meta.get('mut') == 'truncated' else 'corrupt-accepted'
                    ctx.fail(kind, 'read_body_discard', case,
                             'one-shot zlib rejects the body; read_body(file=None) returned without an error')
                elif res[1] != 'ProtocolError':
                    ctx.fail('not-protocol-error', 'read_body_discard', case, 'undecodable body raised %s' % res[1])
            elif ref[0] == 'ok' and res[0] != 'ok':
                ctx.fail('wrong-content', 'read_body_discard', case, 'decodable body raised %s with file=None' % res[1])
            continue
        oracle(ctx, case, coding, body, res, res, ref, meta, where='read_body')
    if rows:
        r = rows[0]
        ctx.sample({'stream': 'e2e', 'coding': r[0], 'strategy': r[3], 'filemode': r[10], 'body': r[2], 'pieces': r[7]})


# ------------------------------------------------------------------ case families
FMT_CODING = [('gzip', 'g'), ('zlib', 'd'), ('raw', 'd'), ('plain', 'i'),
              ('plain', 'g'), ('plain', 'd'), ('gzip', 'd'), ('zlib', 'g'), ('raw', 'g'), ('gzip', 'i')]


def make_body(rng, fmt, payload):
    if fmt == 'plain':
        return payload, 'plain'
    return compress(rng, fmt, payload)


def family_valid(ctx, rng, batch, n_payloads, every_two_limit):
    for _ in range(n_payloads):
        payload = gen_payload(rng)
        for (fmt, coding) in FMT_CODING[:4] + [rng.choice(FMT_CODING[4:])]:
            body, desc = make_body(rng, fmt, payload)
            if rng.random() < 0.08 and fmt != 'plain':
                body += rng.choice([b'\x00', b'garbage', body])         # trailing data / second member
                desc += '+trailing'
            cutsets = splits_of(rng, len(body), every_two=len(body) <= every_two_limit)
            check_case(ctx, batch, coding, body, cutsets, {'fmt': fmt, 'enc': desc, 'mut': 'valid'})
        batch.flush()


def family_truncated(ctx, rng, batch, n_payloads):
    for _ in range(n_payloads):
        payload = gen_payload(rng, rng.choice([1, 3, 8, 20, 40]))
        for (fmt, coding) in FMT_CODING[:3]:
            body, desc = make_body(rng, fmt, payload)
            for k in range(0, len(body)):
                cut = body[:k]
                cs = [[]]
                if k >= 2:
                    cs += [[1], list(range(1, k)), [rng.randrange(1, k)]]
                check_case(ctx, batch, coding, cut, cs, {'fmt': fmt, 'enc': desc, 'mut': 'truncated' if k else 'valid'})
        batch.flush()


def family_corrupt(ctx, rng, batch, n):
    for _ in range(n):
        payload = gen_payload(rng)
        fmt, coding = rng.choice(FMT_CODING[:3] * 3 + FMT_CODING[5:9])
        body, desc = make_body(rng, fmt, payload)
        body, mut = mutate(rng, body)
        if rng.random() < 0.2:
            body, m2 = mutate(rng, body)
            mut += '+' + m2
        cutsets = splits_of(rng, len(body), every_two=False, extra_random=2)
        check_case(ctx, batch, coding, body, cutsets, {'fmt': fmt, 'enc': desc, 'mut': mut})
    batch.flush()


def family_large(ctx, rng, batch, n):
    for _ in range(n):
        payload = gen_payload(rng, rng.choice([1000, 5000, 20000, 70000]))
        fmt, coding = rng.choice(FMT_CODING[:4])
        body, desc = make_body(rng, fmt, payload)
        m = {'fmt': fmt, 'enc': desc, 'mut': 'valid'}
        if rng.random() < 0.3 and body:
            body = body[:rng.randrange(1, len(body))]
            m['mut'] = 'truncated'
        elif rng.random() < 0.3:
            body, m['mut'] = mutate(rng, body)
        nb = len(body)
        cs = [[], [1], [1, 2]] + [fakenet.random_cuts(rng, nb, 'few') for _ in range(2)]
        cs.append(list(range(4096, nb, 4096)))
        if nb <= 3000:
            cs.append(list(range(1, nb)))
        check_case(ctx, batch, coding, body, [c for c in cs if all(0 < x < nb for x in c)], m)
        batch.flush()


def family_wrapper(ctx, rng, batch, n):
    for _ in range(n):
        payload = gen_payload(rng)
        fmt, kind = rng.choice([('gzip', 'g'), ('zlib', 'd'), ('raw', 'd'), ('plain', 'g'), ('plain', 'd'), ('raw', 'g')])
        body, desc = make_body(rng, fmt, payload)
        r = rng.random()
        mut = 'valid'
        if r < 0.25 and body:
            body, mut = body[:rng.randrange(0, len(body))], 'truncated'
        elif r < 0.45:
            body, mut = mutate(rng, body)
        results = set()
        for cuts in splits_of(rng, len(body), every_two=len(body) <= 24, extra_random=2):
            res = batch.add_wrapper(kind, body, cuts, {'fmt': fmt})
            results.add(res)
            ctx.case(('wrapper', kind, body, tuple(cuts)), nontrivial=len(body) > 0,
                     tags=['wrapper:' + kind + ':' + fmt + ':' + mutclass({'mut': mut}), 'wrapper:result=' + (res[0] if res[0] == 'ok' else res[1])])
        if len(results) > 1:
            ctx.fail('split-dependent', 'wrapper', {'stream': 'wrapper', 'kind': kind, 'body': body},
                     'the wrapper gives %d different results over the splits of one body' % len(results))
    batch.flush()


STRATEGIES = ('close', 'length', 'chunked', 'badlength', 'ignorelen', 'ignorelen-chunked', 'ignorelen-close')
FILEMODES = ('keep', 'none', 'raw')


def family_e2e(ctx, rng, n):
    cases = []
    for i in range(n):
        payload = gen_payload(rng, rng.choice([0, 1, 5, 40, 300, 6000]))
        fmt, coding = rng.choice(FMT_CODING[:4] * 3 + FMT_CODING[4:])
        body, desc = make_body(rng, fmt, payload)
        meta = {'fmt': fmt, 'enc': desc, 'mut': 'valid'}
        r = rng.random()
        if r < 0.25 and body and fmt != 'plain':
            body = body[:rng.randrange(1, len(body))]
            meta['mut'] = 'truncated'
        elif r < 0.4 and fmt != 'plain':
            body, meta['mut'] = mutate(rng, body)
        header = {'g': rng.choice(['gzip', 'GZIP']), 'd': rng.choice(['deflate', 'Deflate']), 'i': rng.choice(['', 'identity'])}[coding]
        for strategy in STRATEGIES:
            if strategy in ('badlength', 'ignorelen', 'ignorelen-close') and i % 3:
                continue
            if strategy == 'ignorelen-chunked' and i % 2:
                continue
            for filemode in FILEMODES:
                if filemode == 'raw' and i % 4:
                    continue
                cases.append((coding, header, body, strategy, meta, '%d/%d/%s' % (ctx.seed, i, strategy), filemode))
    stream_e2e(ctx, cases)


# ------------------------------------------------------------------ sequences of responses through ONE Stream
# kind -> (Content-Encoding value or None, body format, coding letter for the reference)
SEQ_KINDS = {'gzip': ('gzip', 'gzip', 'g'), 'zlib': ('deflate', 'zlib', 'd'), 'raw': ('deflate', 'raw', 'd'),
             'none': (None, 'plain', 'i'), 'identity': ('identity', 'plain', 'i'), 'unknown': ('br', 'plain', 'i')}


def enc_opt(v):
    return 'None' if v is None else '=' + enc(v)


def real_seq(responses):
    """Stream-level functions, ONE Stream object, several responses.  responses: [(header value|None, pieces)].
    -> [(res, outs, log, odd)]; each response has its own zlib log."""
    from wpull.protocol.http.stream import Stream
    from wpull.protocol.http.request import Response
    st = Stream(None)
    results = []
    for hdr, pieces in responses:
        with logged_zlib() as z:
            resp = Response(200, 'OK')
            if hdr is not None:
                resp.fields['Content-Encoding'] = hdr
            outs = []
            try:
                st._setup_decompressor(resp)
                for p in pieces:
                    outs.append(bytes(st._decompress_data(p)))
                outs.append(bytes(st._flush_decompressor()))
                res = ('ok', b''.join(outs))
            except Exception as e:  # noqa
                res = ('exc', classify_exc(e))
        results.append((res, outs, z.log, z.odd))
    return results


def check_seq_results(ctx, stream, seq, results, reps, where):
    """seq: [(kind, hdr, coding, body, cuts, meta)], results: [(res, outs|None, log, odd)]"""
    kinds = [x[0] for x in seq]
    for k, ((kind, hdr, coding, body, cuts, meta), (res, outs, log, odd), rep) in enumerate(zip(seq, results, reps)):
        case = {'stream': stream, 'seq': [{'kind': x[0], 'header': x[1], 'coding': x[2], 'body': x[3], 'cuts': list(x[4]),
                                           'meta': x[5]} for x in seq], 'index': k}
        ctx.case((stream, tuple((x[0], x[3], tuple(x[4])) for x in seq[:k + 1])), nontrivial=k > 0,
                 tags=['%s:pos=%d' % (stream, k), '%s:%s' % (stream, '>'.join(kinds[max(0, k - 1):k + 1])),
                       '%s:result=%s' % (stream, res[0] if res[0] == 'ok' else res[1])])
        if outs is not None:
            real = '%s %s %s' % (fmt_res(res), enc_pieces(outs), 0)
            model = rep
        else:
            rp = rep.split(' ')
            model = ' '.join(rp[:2]) + ' ' + rp[-1]
            real = fmt_res(res) + ' 0'
        if real != model:
            ctx.disagree(stream, case, rep[:400], real[:400])
        if odd:
            ctx.disagree(stream + '-zlib-api', case, 'plain calls', odd[0])
        monitor_zlib(ctx, log, case)
        # the property, independent of the model: this body alone through a fresh Stream, and one-shot zlib
        fresh = real_body(coding, [body] if body else [], header=hdr)[0]
        ref = reference(coding, body)
        if res != fresh and not (ref[0] == 'err' and res[0] == 'exc' and fresh[0] == 'exc'):
            ctx.fail('depends-on-previous-response', where, case,
                     'response %d (%s after %s) gives %s, the same body through a fresh Stream gives %s'
                     % (k, kind, '>'.join(kinds[:k]) or 'nothing', fmt_res(res)[:100], fmt_res(fresh)[:100]))
            continue
        oracle(ctx, case, coding, body, res, fresh, ref, meta, where=where)


def build_seq(rng, kinds, last_mut=False):
    seq = []
    for j, kind in enumerate(kinds):
        hdr, fmt, coding = SEQ_KINDS[kind]
        payload = gen_payload(rng, rng.choice([1, 2, 5, 13, 40, 100, 300]))
        if kind == 'unknown' and rng.random() < 0.5:
            payload = rng.choice([b'\x1f\x8b', b'\x78\x9c']) + payload
        body, desc = make_body(rng, fmt, payload)
        meta = {'fmt': fmt, 'enc': desc, 'mut': 'valid'}
        if last_mut and j == len(kinds) - 1 and fmt != 'plain' and body:
            if rng.random() < 0.5:
                body, meta['mut'] = body[:rng.randrange(1, len(body))], 'truncated'
            else:
                body, meta['mut'] = mutate(rng, body)
        n = len(body)
        style = rng.choice(['whole', 'first1', 'bytes', 'random'])
        cuts = {'whole': [], 'first1': [1], 'bytes': list(range(1, n)),
                'random': fakenet.random_cuts(rng, n, rng.choice(['one', 'few', 'many']))}[style]
        seq.append((kind, hdr, coding, body, [c for c in cuts if 0 < c < n], meta))
    return seq


def stream_seq(ctx, seqs):
    rows, reqs = [], []
    for seq in seqs:
        responses = [(hdr, fakenet.segment(body, cuts)) for (_k, hdr, _c, body, cuts, _m) in seq]
        results = real_seq(responses)
        rows.append((seq, results))
        for (hdr, pieces), (res, outs, log, odd) in zip(responses, results):
            reqs.append('decomp resp %s %s %s' % (enc_opt(hdr), enc_pieces(pieces), enc_log(log)))
    reps = ctx.model.ask(reqs)
    i = 0
    for seq, results in rows:
        check_seq_results(ctx, 'seq', seq, results, reps[i:i + len(seq)], 'sequence')
        i += len(seq)
    if rows:
        ctx.sample({'stream': 'seq', 'kinds': [x[0] for x in rows[0][0]], 'bodies': [x[3] for x in rows[0][0]]})


def real_e2e_seq(items):
    """ONE connection, ONE Stream, several responses read one after the other (lock-step: the next response is
    sent only after the previous one was read, as a client that sends its next request would see it).
    items: [(header value|None, strategy, wire, cuts, regions)] -> [(res, pieces, log, odd)]"""
    from wpull.protocol.http.stream import Stream
    from wpull.protocol.http.request import Request
    from wpull.network.connection import Connection
    results = []

    async def go():
        net = fakenet.FakeNet()
        net.default = _Passive
        with net:
            conn = Connection(('10.0.0.1', 80), 'h')
            await compat._ensure(conn.connect())
            fc = net.conns[-1]
            stream = Stream(conn, keep_alive=True)
            request = Request('http://h/')
            for n, (hdr, strategy, wire, cuts, regions) in enumerate(items):
                head = b'HTTP/1.1 200 OK\r\n'
                if hdr is not None:
                    head += b'Content-Encoding: ' + hdr.encode('latin-1') + b'\r\n'
                if strategy == 'length':
                    head += b'Content-Length: %d\r\n' % len(wire)
                elif strategy == 'chunked':
                    head += b'Transfer-Encoding: chunked\r\n'
                head += b'\r\n'
                out = io.BytesIO()
                seen = []
                listener = lambda d, seen=seen: seen.append(bytes(d))  # noqa: E731

                async def client():
                    response = await compat._ensure(stream.read_response())
                    stream.data_event_dispatcher.add_read_listener(listener)
                    try:
                        await compat._ensure(stream.read_body(request, response, file=out))
                    finally:
                        stream.data_event_dispatcher.remove_read_listener(listener)

                last = n == len(items) - 1
                with logged_zlib() as z:
                    feeder = asyncio.ensure_future(fc.send_segments([head] + fakenet.segment(wire, cuts),
                                                                    eof=(last or strategy == 'close'), yields=2))
                    task = asyncio.ensure_future(client())
                    done = await fakenet.settle(task, [feeder])
                    if not done:
                        task.cancel()
                        res = ('stalled',)
                    else:
                        try:
                            task.result()
                            res = ('ok', out.getvalue())
                        except Exception as e:  # noqa
                            res = ('exc', classify_exc(e))
                if strategy == 'chunked':
                    pieces, off = [], 0
                    for item in seen:
                        for (a, b) in regions:
                            if a <= off and off + len(item) <= b and item:
                                pieces.append(item)
                                break
                        off += len(item)
                else:
                    pieces = [x for x in seen if x]
                results.append((res, pieces, z.log, z.odd))
                if res[0] != 'ok':
                    break

    compat.run(go())
    return results


def stream_e2e_seq(ctx, seqs, seed):
    rows, reqs = [], []
    for n, seq in enumerate(seqs):
        rng = ctx.subrng('e2e-seq/%s/%d' % (seed, n))
        items = []
        for j, (kind, hdr, coding, body, cuts, meta) in enumerate(seq):
            strategy = rng.choice(['length', 'chunked'] + (['close'] if j == len(seq) - 1 else []))
            if strategy == 'chunked':
                wire, regions = chunked_frame(rng, body)
            else:
                wire, regions = body, None
            wcuts = fakenet.random_cuts(rng, len(wire), rng.choice(['none', 'one', 'few', 'many', 'bytes']))
            items.append((hdr, strategy, wire, wcuts, regions))
        results = real_e2e_seq(items)
        seq = seq[:len(results)]
        if any(r[0][0] == 'stalled' for r in results):
            ctx.disagree('e2e-seq', {'stream': 'e2e-seq', 'kinds': [x[0] for x in seq]}, 'completes', 'stalled')
            continue
        rows.append((seq, results))
        for (kind, hdr, coding, body, cuts, meta), (res, pieces, log, odd) in zip(seq, results):
            if (b''.join(pieces) != body) if res[0] == 'ok' else (not body.startswith(b''.join(pieces))):
                ctx.disagree('e2e-seq-pieces', {'stream': 'e2e-seq', 'kinds': [x[0] for x in seq]},
                             'the decoder is handed the body bytes', '%d bytes for a body of %d' % (len(b''.join(pieces)), len(body)))
            reqs.append('decomp resp %s %s %s' % (enc_opt(hdr), enc_pieces(pieces), enc_log(log)))
    reps = ctx.model.ask(reqs)
    i = 0
    for seq, results in rows:
        check_seq_results(ctx, 'e2e-seq', seq, [(res, None, log, odd) for (res, _p, log, odd) in results],
                          reps[i:i + len(seq)], 'read_body_sequence')
        i += len(seq)


def family_seq(ctx, rng, n_random):
    kinds = list(SEQ_KINDS)
    seqs = []
    for a in kinds:                       # every ordered pair of codings, three times with different bodies/splits
        for b in kinds:
            for _ in range(3):
                seqs.append(build_seq(rng, [a, b]))
    for _ in range(n_random):
        ks = [rng.choice(kinds) for _ in range(rng.choice([2, 3, 3]))]
        seqs.append(build_seq(rng, ks, last_mut=rng.random() < 0.3))
    stream_seq(ctx, seqs)
    e2e = [build_seq(rng, [a, b]) for a in kinds for b in kinds]
    e2e += [build_seq(rng, [rng.choice(kinds) for _ in range(3)], last_mut=rng.random() < 0.3) for _ in range(n_random // 2)]
    stream_e2e_seq(ctx, e2e, ctx.seed)


# ------------------------------------------------------------------ over-sending server under Content-Length framing
def family_overrun(ctx, rng, n):
    """Content-Length framing, the server sends 1..700 bytes more than declared, body sizes around and above
    the 4096 read size, random cut sets: the bytes handed on are one-shot decoding of exactly the declared bytes."""
    cases = []
    for i in range(n):
        kind = ['none', 'plain-as-gzip', 'identity', 'gzip', 'zlib', 'raw', 'none', 'plain-as-gzip'][i % 8]
        size = rng.choice([1, 5, 300, 4000, 4095, 4096, 4097, 4200, 8191, 8192, 8193, 10000, 20000])
        if kind == 'plain-as-gzip':
            hdr, fmt, coding = 'gzip', 'plain', 'g'
        else:
            hdr, fmt, coding = SEQ_KINDS[kind]
        if fmt == 'plain':
            body = bytes([rng.choice(b'abcxyz<>')]) + gen_payload(rng, size - 1) if size > 1 else b'a'
            desc = 'plain'
        else:
            # incompressible payload so that the compressed body is about `size` bytes too
            body, desc = make_body(rng, fmt, bytes(rng.randrange(256) for _ in range(size)))
        meta = {'fmt': fmt, 'enc': desc, 'mut': 'valid'}
        for fm in ('keep', 'none') if i % 3 else ('keep', 'raw'):
            cases.append((coding, hdr, body, 'overrun', meta, 'overrun/%d/%d' % (ctx.seed, i), fm))
    stream_e2e(ctx, cases)


# ------------------------------------------------------------------ highly compressible bodies (one piece inflates past 64 KiB)
def gen_compressible(rng, size, kind):
    if kind == 'zeros':
        return bytes(size)
    if kind == 'text':
        unit = b'<li><a href="/page/%d">wpull wpull wpull</a></li>\n'
        out = b''.join(unit % (i % 7) for i in range(size // len(unit % 0) + 1))
        return out[:size]
    words = [bytes(rng.randrange(256) for _ in range(24)) for _ in range(6)]     # ratio ~ 20-40 : 1
    out = bytearray()
    while len(out) < size:
        out += rng.choice(words)
    return bytes(out[:size])


def family_bomb(ctx, rng, batch, n, max_size):
    """A non-final piece of the body inflates to far more than 64 KiB."""
    for i in range(n):
        fmt, coding = [('gzip', 'g'), ('gzip', 'g'), ('zlib', 'd'), ('raw', 'd')][i % 4]
        kind = ['zeros', 'words', 'text'][i % 3]
        size = rng.choice([s for s in (150000, 300000, 600000, 1000000) if s <= max_size])
        payload = gen_compressible(rng, size, kind)
        wbits = {'gzip': 31, 'zlib': 15, 'raw': -15}[fmt]
        c = zlib.compressobj(rng.choice([1, 6, 9]), zlib.DEFLATED, wbits)
        body = c.compress(payload) + c.flush()
        nb = len(body)
        cutsets = [[]]
        for step in (100, 1460, 4096):
            if nb > step:
                cutsets.append(list(range(step, nb, step)))
        cutsets.append([c for c in (1, nb // 2) if 0 < c < nb])
        meta = {'fmt': fmt, 'enc': 'bomb %s %d->%d' % (kind, size, nb), 'mut': 'valid'}
        # how much the largest non-final piece inflates to (for the evidence)
        worst = 0
        for cs in cutsets:
            o = zlib.decompressobj(wbits)
            for pc in fakenet.segment(body, cs)[:-1]:
                worst = max(worst, len(o.decompress(pc)))
        ctx.tag('bomb:nonfinal-piece>64KiB' if worst > 65536 else 'bomb:small')
        check_case(ctx, batch, coding, body, cutsets, meta)
        batch.flush()
        if fmt == 'gzip' or i % 4 == 2:
            hdr = {'g': 'gzip', 'd': 'deflate'}[coding]
            stream_e2e(ctx, [(coding, hdr, body, st, meta, 'bomb/%d/%d/%s' % (ctx.seed, i, st), fm)
                             for st in ('close', 'length', 'chunked') for fm in ('keep', 'none')])


# ------------------------------------------------------------------ the layer above the Stream: WebClient / WebSession
_TIMEOUT_CACHE = {}


def fetch_rule_timeout(value):
    """--session-timeout through the real argument parser and the real FetchRule (the option glue of
    wpull/application/tasks/download.py: FetchRule(duration_timeout=args.session_timeout))."""
    if value not in _TIMEOUT_CACHE:
        try:
            from wpull.application.options import AppArgumentParser
            from wpull.processor.rule import FetchRule
            argv = ['http://h/'] + ([] if value is None else ['--session-timeout', repr(value)])
            args = AppArgumentParser().parse_args(argv)
            _TIMEOUT_CACHE[value] = ('parser', FetchRule(duration_timeout=args.session_timeout).duration_timeout)
        except Exception as e:  # noqa  (option glue not importable: use the value directly, say so in the evidence)
            _TIMEOUT_CACHE[value] = ('direct:' + type(e).__name__, value)
    return _TIMEOUT_CACHE[value]


class _OneResponse:
    """answers the first request on a connection with the scripted segments"""

    def __init__(self, segs):
        self.segs = segs

    async def serve(self, conn):
        while b'\r\n\r\n' not in conn.received and not conn.client_closed:
            await asyncio.sleep(0)      # (the request may already be there when this task first runs)
        await conn.send_segments(self.segs, eof=True, yields=2)


def real_web(header_value, strategy, wire_body, cuts, regions, timeout, keep, extra=None):
    """Fetch as the crawler does: WebClient.session(request) -> start() -> download(file=..., duration_timeout=...)
    -> (res, pieces the Stream read, log, odd)"""
    from wpull.protocol.http.client import Client
    from wpull.protocol.http.web import WebClient
    from wpull.protocol.http.request import Request
    from wpull.protocol.http.stream import Stream
    from wpull.network.pool import ConnectionPool
    from wpull.body import Body
    head = b'HTTP/1.1 200 OK\r\n' + extra_head(extra)
    if header_value is not None:
        head += b'Content-Encoding: ' + header_value.encode('latin-1') + b'\r\n'
    if strategy == 'length':
        head += b'Content-Length: %d\r\n' % len(wire_body)
    elif strategy == 'chunked':
        head += b'Transfer-Encoding: chunked\r\n'
    head += b'\r\n'
    segs = [head] + fakenet.segment(wire_body, cuts)
    seen = []

    def stream_factory(connection):
        st = Stream(connection)
        st.data_event_dispatcher.add_read_listener(lambda d: seen.append(bytes(d)))
        return st

    async def go():
        net = fakenet.FakeNet()
        net.listen('10.0.0.1', 80, lambda: _OneResponse(segs))
        with net:
            pool = ConnectionPool(resolver=fakenet.FakeResolver())
            web_client = WebClient(http_client=Client(connection_pool=pool, stream_factory=stream_factory))
            session = web_client.session(Request(extra_url(extra)))
            body = Body(io.BytesIO()) if keep else None

            async def client():
                await compat._ensure(session.start())
                await compat._ensure(session.download(file=body, duration_timeout=timeout))

            task = asyncio.ensure_future(client())
            done = await fakenet.settle(task, net.tasks, extra=200)
            if not done:
                task.cancel()
                return ('stalled',)
            try:
                task.result()
            except Exception as e:  # noqa
                return ('exc', classify_exc(e))
            return ('ok', body.content() if keep else None)

    with logged_zlib() as z:
        res = compat.run(go())
    # notified items after the header block
    items, off = [], 0
    for item in seen:
        if off >= len(head):
            items.append(item)
        off += len(item)
    pieces = []
    if strategy == 'chunked':
        off = 0
        for item in items:
            for (a, b) in regions:
                if a <= off and off + len(item) <= b and item:
                    pieces.append(item)
                    break
            off += len(item)
    else:
        pieces = [x for x in items if x]
    return res, pieces, z.log, z.odd


def stream_web(ctx, cases):
    """cases: (coding, header value|None, body, strategy, meta, seed, timeout, keep)"""
    rows, reqs = [], []
    for (coding, hdr, body, strategy, meta, seed, timeout, keep) in cases:
        rng = ctx.subrng('web/%s' % seed)
        if strategy == 'chunked':
            wire, regions = chunked_frame(rng, body)
        else:
            wire, regions = body, None
        cuts = fakenet.random_cuts(rng, len(wire), rng.choice(['none', 'one', 'few', 'many', 'bytes'] if len(wire) < 400
                                                               else ['none', 'one', 'few']))
        how, t = fetch_rule_timeout(timeout)
        ctx.note('web_option_glue', how)
        res, pieces, log, odd = real_web(hdr, strategy, wire, cuts, regions, t, keep, extra=meta.get('extra'))
        rows.append((coding, hdr, body, strategy, meta, seed, timeout, keep, res, pieces, log, odd, wire))
        reqs.append('decomp web %s %s %s %s %s' % ('T' if keep else 'F', 'None' if timeout is None else int(timeout * 1000),
                                                   enc_opt(hdr), enc_pieces(pieces), enc_log(log)))
    reps = ctx.model.ask(reqs)
    for (coding, hdr, body, strategy, meta, seed, timeout, keep, res, pieces, log, odd, wire), rep in zip(rows, reps):
        case = {'stream': 'web', 'coding': coding, 'header': hdr, 'body': body, 'strategy': strategy, 'meta': meta,
                'seed': seed, 'timeout': timeout, 'keep': keep}
        ctx.case(('web', coding, body, strategy, seed, timeout, keep), nontrivial=(coding != 'i' and len(body) > 0),
                 tags=['web:' + strategy + ':' + coding, 'web:timeout=%s' % timeout, 'web:file=' + ('keep' if keep else 'none'),
                       'web:result=' + (res[0] if res[0] != 'exc' else res[1])])
        if res[0] == 'stalled':
            ctx.disagree('web', case, 'completes', 'stalled')
            continue
        # model: `ok <content>|exc <name>  <raw flag>  <unconsumed log entries>`
        real = (fmt_res(res) if keep or res[0] != 'ok' else 'ok -') + ' F 0'
        if rep != real:
            ctx.disagree('web', case, rep[:400], real[:400])
        if odd:
            ctx.disagree('web-zlib-api', case, 'plain calls', odd[0])
        monitor_zlib(ctx, log, case)
        ref = reference(coding, body)
        if keep:
            oracle(ctx, case, coding, body, res, res, ref, meta, where='web_download')
        elif ref[0] == 'err':
            if res[0] == 'ok':
                ctx.fail('truncated-accepted' if meta.get('mut') == 'truncated' else 'corrupt-accepted', 'web_download_discard',
                         case, 'one-shot zlib rejects the body; WebSession.download(file=None) returned without an error')
            elif res[1] != 'ProtocolError':
                ctx.fail('not-protocol-error', 'web_download_discard', case, 'undecodable body raised %s' % res[1])
        elif ref[0] == 'ok' and res[0] != 'ok':
            ctx.fail('wrong-content', 'web_download_discard', case, 'decodable body raised %s with file=None' % res[1])
    if rows:
        r = rows[0]
        ctx.sample({'stream': 'web', 'coding': r[0], 'strategy': r[3], 'timeout': r[6], 'keep': r[7], 'body': r[2]})


WEB_TIMEOUTS = (None, 5, 0.5, 30.0)


def family_web(ctx, rng, n):
    cases = []
    kinds = list(SEQ_KINDS)
    for i in range(n):
        kind = kinds[i % len(kinds)] if i < 4 * len(kinds) else rng.choice(kinds[:3] * 2 + kinds)
        hdr, fmt, coding = SEQ_KINDS[kind]
        payload = gen_payload(rng, rng.choice([0, 1, 5, 40, 300, 6000]))
        body, desc = make_body(rng, fmt, payload)
        meta = {'fmt': fmt, 'enc': desc, 'mut': 'valid'}
        r = rng.random()
        if r < 0.3 and body and fmt != 'plain':
            body = body[:rng.randrange(1, len(body))]
            meta['mut'] = 'truncated'
        elif r < 0.45 and fmt != 'plain':
            body, meta['mut'] = mutate(rng, body)
        for strategy in ('close', 'length', 'chunked'):
            for timeout in WEB_TIMEOUTS:
                keep = not (i + WEB_TIMEOUTS.index(timeout)) % 3 == 0
                cases.append((coding, hdr, body, strategy, meta, '%d/%d/%s/%s' % (ctx.seed, i, strategy, timeout), timeout, keep))
    stream_web(ctx, cases)


# ------------------------------------------------------------------ the rest of the header block must not matter
CTYPES = [None, 'text/html', 'application/gzip', 'application/x-gzip', 'Application/X-GZIP', 'application/gzip; charset=binary',
          ' application/x-gzip ', 'application/octet-stream', 'application/x-tar', 'application/x-tgz', 'text/html; charset=utf-8']
CDISPS = [None, None, 'attachment; filename="a.tar.gz"', 'attachment; filename=page.html', 'inline']
PATHS = ['/', '/index.html', '/dump.gz', '/backup.tgz', '/a.tar.gz', '/x.GZ', '/page.html?f=a.gz']


def real_body_x(hdr, extra, pieces):
    """stream-level functions with a full header block and a request URL on the response"""
    from wpull.protocol.http.stream import Stream
    from wpull.protocol.http.request import Request, Response
    with logged_zlib() as z:
        st = Stream(None)
        resp = Response(200, 'OK')
        resp.request = Request(extra_url(extra))
        if extra.get('ctype') is not None:
            resp.fields['Content-Type'] = extra['ctype']
        if extra.get('cdisp') is not None:
            resp.fields['Content-Disposition'] = extra['cdisp']
        if hdr is not None:
            resp.fields['Content-Encoding'] = hdr
        outs = []
        try:
            st._setup_decompressor(resp)
            for p in pieces:
                outs.append(bytes(st._decompress_data(p)))
            outs.append(bytes(st._flush_decompressor()))
            res = ('ok', b''.join(outs))
        except Exception as e:  # noqa
            res = ('exc', classify_exc(e))
    return res, outs, z.log, z.odd


def stream_headers(ctx, cases):
    """cases: (kind, hdr, coding, body, cuts, meta) with meta['extra'] = {ctype, cdisp, path}"""
    rows, reqs = [], []
    for (kind, hdr, coding, body, cuts, meta) in cases:
        pieces = fakenet.segment(body, cuts)
        extra = meta['extra']
        res, outs, log, odd = real_body_x(hdr, extra, pieces)
        rows.append((kind, hdr, coding, body, cuts, meta, res, outs, log, odd))
        reqs.append('decomp respx %s %s %s %s %s %s' % (enc_opt(hdr), enc_opt(extra.get('ctype')), enc_opt(extra.get('cdisp')),
                                                       enc(extra_url(extra)), enc_pieces(pieces), enc_log(log)))
    reps = ctx.model.ask(reqs)
    for (kind, hdr, coding, body, cuts, meta, res, outs, log, odd), rep in zip(rows, reps):
        extra = meta['extra']
        case = {'stream': 'headers', 'kind': kind, 'header': hdr, 'coding': coding, 'body': body, 'cuts': list(cuts), 'meta': meta}
        ctx.case(('headers', kind, body, tuple(cuts), repr(sorted(extra.items()))), nontrivial=coding != 'i',
                 tags=['headers:ctype=%s' % extra.get('ctype'), 'headers:path=%s' % extra.get('path'),
                       'headers:result=' + (res[0] if res[0] == 'ok' else res[1])])
        real = '%s %s %s' % (fmt_res(res), enc_pieces(outs), 0)
        if real != rep:
            ctx.disagree('headers', case, rep[:400], real[:400])
        monitor_zlib(ctx, log, case)
        # the property: the same body with a bare header block, and one-shot zlib
        bare = real_body(coding, [body] if body else [], header=hdr)[0]
        ref = reference(coding, body)
        if res != bare and not (ref[0] == 'err' and res[0] == 'exc' and bare[0] == 'exc'):
            ctx.fail('depends-on-other-headers', 'setup_decompressor', case,
                     'Content-Type %r / Content-Disposition %r / URL %r change the result: %s, with Content-Encoding alone: %s'
                     % (extra.get('ctype'), extra.get('cdisp'), extra.get('path'), fmt_res(res)[:80], fmt_res(bare)[:80]))
            continue
        oracle(ctx, case, coding, body, res, bare, ref, meta, where='setup_decompressor')


def family_headers(ctx, rng, n):
    fn, e2e, web = [], [], []
    combos = [(ct, cd, pa) for ct in CTYPES for cd in (None, CDISPS[2]) for pa in ('/', '/dump.gz', '/backup.tgz', '/index.html')]
    rng.shuffle(combos)
    picks = combos[:max(n, len(CTYPES) * 3)]
    for ct in CTYPES:                      # every Content-Type at least once with a .gz URL and gzip coding
        picks.append((ct, rng.choice(CDISPS), rng.choice(PATHS[2:6])))
    for idx, (ct, cd, pa) in enumerate(picks):
        kind = ['gzip', 'gzip', 'zlib', 'raw', 'none', 'gzip'][idx % 6]
        hdr, fmt, coding = SEQ_KINDS[kind]
        payload = gen_payload(rng, rng.choice([5, 40, 300]))
        body, desc = make_body(rng, fmt, payload)
        meta = {'fmt': fmt, 'enc': desc, 'mut': 'valid', 'extra': {'ctype': ct, 'cdisp': cd, 'path': pa}}
        r = rng.random()
        if r < 0.3 and body and fmt != 'plain':
            body, meta['mut'] = body[:rng.randrange(1, len(body))], 'truncated'
        elif r < 0.4 and fmt != 'plain':
            body, meta['mut'] = mutate(rng, body)
        n_b = len(body)
        cuts = rng.choice([[], [1], list(range(1, n_b)), fakenet.random_cuts(rng, n_b, 'few')])
        fn.append((kind, hdr, coding, body, [c for c in cuts if 0 < c < n_b], meta))
        if idx % 2 == 0:
            st = rng.choice(['close', 'length', 'chunked'])
            e2e.append((coding, hdr or '', body, st, meta, 'hdr/%d/%d' % (ctx.seed, idx), rng.choice(['keep', 'keep', 'none'])))
        if idx % 3 == 0:
            web.append((coding, hdr, body, rng.choice(['close', 'length', 'chunked']), meta, 'hdr/%d/%d' % (ctx.seed, idx),
                        rng.choice([None, 5]), True))
    stream_headers(ctx, fn)
    stream_e2e(ctx, e2e)
    stream_web(ctx, web)


# ------------------------------------------------------------------ histories over several decoder objects in one process
def run_history(objs, sched):
    """objs: [(level, coding)], level 's' = a Stream object (stream-level functions), 'w' = a wrapper object used
    directly; sched: [(i, op)], op = 'N' (create the object) | 'F' (flush) | bytes (feed).  Objects are created at
    their first op.  After an exception an object gets no further calls (it is abandoned).
    -> (per object: executed ops, results), per-object zlib logs, odd"""
    from wpull.protocol.http.stream import Stream
    from wpull.protocol.http.request import Response
    import wpull.decompression as wd
    inst = [None] * len(objs)
    done_ops = [[] for _ in objs]
    results = [[] for _ in objs]
    dead = [False] * len(objs)
    with logged_zlib() as z:
        def make(i):
            level, coding = objs[i]
            if level == 's':
                st = Stream(None)
                resp = Response(200, 'OK')
                if HEADER_OF[coding]:
                    resp.fields['Content-Encoding'] = HEADER_OF[coding]
                st._setup_decompressor(resp)
                return st
            return wd.GzipDecompressor() if coding == 'g' else wd.DeflateDecompressor()
        for (i, op) in sched:
            if dead[i]:
                continue
            z.current = i
            try:
                if inst[i] is None:
                    inst[i] = make(i)
                if op == 'N':
                    continue
                o = inst[i]
                if objs[i][0] == 's':
                    out = o._flush_decompressor() if op == 'F' else o._decompress_data(op)
                else:
                    out = o.flush() if op == 'F' else o.decompress(op)
                done_ops[i].append(op)
                results[i].append(('ok', bytes(out)))
            except Exception as e:  # noqa
                done_ops[i].append(op)
                results[i].append(('exc', classify_exc(e)))
                dead[i] = True
            finally:
                z.current = None
    logs = [[] for _ in objs]
    for ent in z.log:
        owner = z.owner_of.get(ent[0])
        if owner is None:
            z.odd.append('zlib object created outside a decoder call')
        else:
            logs[owner].append(ent)
    return done_ops, results, logs, z.odd


def build_history(rng, forced=None):
    """-> (objs, sched, meta per object)"""
    k = rng.choice([2, 2, 3, 4])
    plans = forced or [rng.choice(['full', 'abandon0', 'abandon1', 'abandon1', 'abandon2', 'mid', 'noflush', 'broken'])
                       for _ in range(k - 1)] + ['full']
    objs, scripts, metas = [], [], []
    for j, plan in enumerate(plans):
        level = rng.choice('sw')
        coding = rng.choice('ddg')
        fmt = 'gzip' if coding == 'g' else rng.choice(['zlib', 'raw'])
        body, desc = make_body(rng, fmt, gen_payload(rng, rng.choice([1, 5, 40, 300])))
        mut = 'valid'
        if plan == 'broken':
            body, mut = mutate(rng, body)
        n = len(body)
        cuts = rng.choice([[], [1], [1, 2], list(range(1, n)), fakenet.random_cuts(rng, n, 'few')])
        pieces = fakenet.segment(body, [c for c in cuts if 0 < c < n])
        if plan == 'abandon0':
            ops = ['N']
        elif plan == 'abandon1':
            ops = ['N', body[:1]]
        elif plan == 'abandon2':
            ops = ['N', body[:1], body[1:2]] if rng.random() < 0.5 else ['N', body[:2]]
        elif plan == 'mid':
            ops = ['N'] + pieces[:max(1, len(pieces) // 2)]
        elif plan == 'noflush':
            ops = ['N'] + pieces
        else:
            ops = ['N'] + pieces + ['F']
        objs.append((level, coding))
        scripts.append([op for op in ops if op != b''])
        metas.append({'plan': plan, 'fmt': fmt, 'enc': desc, 'mut': mut})
    # merge: sequential, or interleaved (objects alive at once, fed alternately), keeping each object's own order
    order = rng.choice(['sequential', 'interleaved', 'interleaved'])
    sched = []
    if order == 'sequential':
        for i, sc in enumerate(scripts):
            sched += [(i, op) for op in sc]
    else:
        pos = [0] * len(scripts)
        last = len(scripts) - 1
        while any(pos[i] < len(scripts[i]) for i in range(len(scripts))):
            live = [i for i in range(len(scripts)) if pos[i] < len(scripts[i])]
            # the last (fresh, valid) object starts only after every other object has had at least one call
            cand = [i for i in live if i != last or all(pos[x] > 0 or not scripts[x] for x in range(last))] or live
            i = rng.choice(cand)
            sched.append((i, scripts[i][pos[i]]))
            pos[i] += 1
    return objs, sched, metas


def enc_ops(ops):
    return '~' if not ops else '/'.join('F' if op == 'F' else enc(op) for op in ops)


def stream_history(ctx, histories):
    rows, reqs = [], []
    for (objs, sched, metas) in histories:
        done_ops, results, logs, odd = run_history(objs, sched)
        rows.append((objs, sched, metas, done_ops, results, logs, odd))
        for i, (level, coding) in enumerate(objs):
            reqs.append('decomp steps %s %s %s %s' % (level, coding, enc_ops(done_ops[i]), enc_log(logs[i])))
    reps = ctx.model.ask(reqs)
    r = 0
    for (objs, sched, metas, done_ops, results, logs, odd) in rows:
        case = {'stream': 'history', 'objs': [list(o) for o in objs],
                'sched': [[i, op] for (i, op) in sched], 'metas': metas}
        for i, (level, coding) in enumerate(objs):
            rep = reps[r]
            r += 1
            real = ('~' if not results[i] else '/'.join(('ok:' + enc(x[1])) if x[0] == 'ok' else ('exc:' + x[1]) for x in results[i])) + ' 0'
            ctx.case(('history', tuple(objs), tuple(sched), i), nontrivial=i > 0,
                     tags=['history:plan=' + metas[i]['plan'], 'history:obj=%s%s' % (level, coding),
                           'history:objects=%d' % len(objs)])
            if real != rep:
                ctx.disagree('history', dict(case, index=i), rep[:300], real[:300])
            monitor_zlib(ctx, logs[i], dict(case, index=i))
            # the property, independent of the model: an object that was run to its flush produced the one-shot
            # decoding of what IT was fed, whatever other decoder objects did before or in between
            ops = done_ops[i]
            if not ops or (ops[-1] != 'F' and results[i][-1][0] == 'ok'):
                continue
            fed = b''.join(op for op in ops if op != 'F')
            final = results[i][-1] if results[i][-1][0] == 'exc' else ('ok', b''.join(x[1] for x in results[i]))
            ref = reference(coding, fed)
            err_name = 'ProtocolError' if level == 's' else 'ZlibError'
            if ref[0] == 'ok' and ops[-1] == 'F' and final != ('ok', ref[1]):
                ctx.fail('depends-on-other-decoder', 'history', dict(case, index=i),
                         'object %d (%s%s, %s) was fed %d bytes that decode one-shot to %d bytes, but gave %s'
                         % (i, level, coding, metas[i]['plan'], len(fed), len(ref[1]), fmt_res(final)[:120]))
            elif ref[0] == 'err' and ops[-1] == 'F' and final[0] == 'ok':
                ctx.fail('corrupt-accepted', 'history', dict(case, index=i), 'undecodable input accepted by object %d' % i)
            elif final[0] == 'exc' and final[1] != err_name:
                ctx.fail('not-protocol-error', 'history', dict(case, index=i), 'object %d raised %s' % (i, final[1]))
        if odd:
            ctx.disagree('history-zlib-api', case, 'plain calls on behalf of a decoder', odd[0])
    if rows:
        ctx.sample({'stream': 'history', 'objs': rows[0][0], 'sched': rows[0][1][:12]})


def family_history(ctx, rng, n):
    hs = []
    for forced in (['abandon1', 'full'], ['abandon1', 'full', 'full'], ['abandon2', 'full'], ['abandon0', 'full'],
                   ['mid', 'full'], ['noflush', 'full'], ['broken', 'full'], ['full', 'full'], ['abandon1', 'abandon1', 'full']):
        for _ in range(4):
            hs.append(build_history(rng, forced))
    for _ in range(n):
        hs.append(build_history(rng))
    stream_history(ctx, hs)


# ------------------------------------------------------------------ entry points
def load_corpus(ctx):
    out = []
    for p in sorted(glob.glob(os.path.join(ctx.verif, 'harness', 'corpus', 'C19', '*.json'))):
        with open(p) as f:
            out.append(unjson(json.load(f)))
    return out


def replay(ctx, case, kind=None, where=None):
    s = case.get('stream')
    batch = Batch(ctx)
    if s == 'body':
        cuts = case.get('cuts')
        if cuts is None:
            cuts, n = [], 0
            for piece in case['pieces'][:-1]:
                n += len(piece)
                cuts.append(n)
        body = case['body']
        check_case(ctx, batch, case['coding'], body, [cuts], dict(case.get('meta') or {}, mut=case.get('mut', 'valid')))
        batch.flush()
    elif s == 'wrapper':
        body = case['body']
        results = set()
        for cuts in splits_of(ctx.subrng('replay'), len(body), every_two=len(body) <= 64):
            results.add(batch.add_wrapper(case['kind'], body, cuts, {}))
        batch.flush()
        if len(results) > 1:
            ctx.fail('split-dependent', 'wrapper', case, 'the wrapper gives %d different results over the splits of one body' % len(results))
    elif s == 'e2e':
        stream_e2e(ctx, [(case['coding'], case['header'], case['body'], case['strategy'], case.get('meta', {}), case['seed'],
                          case.get('filemode', 'keep'))])
    elif s in ('seq', 'e2e-seq'):
        seq = [(x['kind'], x['header'], x['coding'], x['body'], x['cuts'], x.get('meta', {})) for x in case['seq']]
        if s == 'seq':
            stream_seq(ctx, [seq])
        else:
            for n in range(8):           # the framing / segmentation is drawn from the seed
                stream_e2e_seq(ctx, [seq], 'replay/%d' % n)
    elif s == 'web':
        stream_web(ctx, [(case['coding'], case['header'], case['body'], case['strategy'], case.get('meta', {}), case['seed'],
                          case.get('timeout'), case.get('keep', True))])
    elif s == 'headers':
        stream_headers(ctx, [(case['kind'], case['header'], case['coding'], case['body'], case['cuts'], case['meta'])])
    elif s == 'history':
        stream_history(ctx, [([tuple(o) for o in case['objs']], [(i, op) for (i, op) in case['sched']], case['metas'])])
    elif s == 'hdr':
        stream_hdr(ctx, [case['data']])
    elif s == 'coding':
        stream_coding(ctx, [case['value']])
    else:
        raise Infra('unknown replay stream %r' % s)


def run(ctx):
    thorough = ctx.tier == 'thorough'
    for case in load_corpus(ctx):
        replay(ctx, case['case'] if 'case' in case else case)
        ctx.tag('corpus')
    rng = ctx.rng
    # function-level streams
    pairs = [bytes([a, b]) for a in range(256) for b in range(256)]
    stream_hdr(ctx, pairs + [b'', b'\x78', b'\x78\x9c\x00', b'\x08\x1d\xff'])
    ctx.exhaustive = False
    ctx.note('hdr', 'all 65 536 two-byte prefixes compared with is_zlib_header and with zlib itself (exhaustive for this function)')
    stream_coding(ctx, CODING_VALUES + [None])
    batch = Batch(ctx)
    family_valid(ctx, rng, batch, ctx.scale(100, 2500), every_two_limit=64 if not thorough else 96)
    family_truncated(ctx, rng, batch, ctx.scale(12, 300))
    family_corrupt(ctx, rng, batch, ctx.scale(1000, 30000))
    family_large(ctx, rng, batch, ctx.scale(20, 400))
    family_wrapper(ctx, rng, batch, ctx.scale(150, 4000))
    family_e2e(ctx, rng, ctx.scale(200, 4000))
    family_seq(ctx, rng, ctx.scale(60, 1500))
    family_web(ctx, rng, ctx.scale(60, 1200))
    family_overrun(ctx, rng, ctx.scale(80, 1600))
    family_headers(ctx, rng, ctx.scale(60, 600))
    family_history(ctx, rng, ctx.scale(250, 6000))
    family_bomb(ctx, rng, batch, ctx.scale(6, 20), 400000 if not thorough else 1000000)


def search(ctx):
    """Proof or correspondence broke: aim a larger budget at the oracles."""
    rng = ctx.subrng('search')
    batch = Batch(ctx)
    family_valid(ctx, rng, batch, ctx.scale(10, 30), every_two_limit=64)
    family_truncated(ctx, rng, batch, ctx.scale(3, 10))
    family_corrupt(ctx, rng, batch, ctx.scale(100, 300))
    family_e2e(ctx, rng, ctx.scale(10, 30))
    family_seq(ctx, rng, ctx.scale(5, 10))
    family_web(ctx, rng, ctx.scale(5, 10))
    family_overrun(ctx, rng, ctx.scale(5, 10))
    family_headers(ctx, rng, ctx.scale(3, 6))
    family_history(ctx, rng, ctx.scale(10, 30))
    family_bomb(ctx, rng, batch, max(4, ctx.scale(1, 1) // 2), 600000)
