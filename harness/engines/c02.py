"""C02 — No request is ever made for a URL outside the configured scope.

Streams (model `Wpull.Filter` vs the real code in the wpull checkout):
  similar   wpull.url.schemes_similar                                   function level
  subdir    wpull.url.is_subdir (fnmatch result logged from the real call)
  commalist AppArgumentParser.comma_list (the converter behind every LIST option) vs model commaList
  tablevisits  the retry limit over a long history of ONE URL through the real SQLiteURLTable + real TriesFilter
  build     real AppArgumentParser -> real URLFiltersSetupTask._build_url_filters +
            real URLFiltersPostURLImportSetupTask  vs  model buildFilters
  test      real FetchRule.consult_filters / DemuxURLFilter.test_info on the REAL filter
            list built from a generated command line, generated (url, record, is_redirect)
  rawtest   the same on hand-assembled filter lists (duplicates, no span-hosts filter, ...)
  web/ftp   the real WebProcessorSession / FTPProcessorSession driven over an in-memory
            network; requests seen by the servers vs the model's session skeleton
  ftpcrawl  FTP crawls item by item: a command-line URL (plain or glob: *, ?, [a-t]*, files only / directories only /
            both), the links its listing offers with the records the REAL session wrote (vs the model's
            listingChildLevel), their sessions, ... over a nested in-memory tree, with / without -r, -l 1..3, glob
            on / off; every LIST/RETR that reaches the server is judged by the reference under the depth the
            property implies (true link distance), not the recorded one
  crawl     whole crawls of the REAL application (harness/appsim.py: Builder(args).build().run() on the
            deterministic loop, real SQLite table, scraper, clients) over generated sites on the start
            host, a forbidden host, other ports / https / www., with scope options from the whole set:
            every request line of the server log is attributed through the table trace to the item
            (record) that issued it and its hop number, and must be accepted by the model's consult
            and justified by the reference (robots.txt only for an origin being visited)
  astscan   every fetch/start call in processor/web.py, processor/ftp.py is dominated
            by a filter consultation (source scan)
Direct oracle: `reference_scope`, an independent predicate written from the
property's wording, evaluated on every accepted (url, record, options).
"""
import ast
import asyncio
import fnmatch as _fnmatch
import glob
import json
import os
import re as _re
import types

import compat  # noqa: F401
import fakenet
import logging

logging.getLogger('wpull').addHandler(logging.NullHandler())
logging.getLogger('wpull').propagate = False
from runner import enc, Infra, unjson

RULE = ('test: command lines generated option by option (each scope option on/off, parameters from pools with '
        'suffix/prefix traps and wildcard patterns) parsed by the real AppArgumentParser; URLs from a small host/path '
        'grammar (3 schemes + non-network ones, ports, sub-domains, look-alike hosts, directories/files/suffixes); '
        'records with level / inline level / try count placed on the boundaries of the chosen limits (n-1, n, n+1, n+2, n+3), '
        'parent and root URLs on same / other hosts and schemes. non-trivial = at least one non-default scope option or a '
        'record beyond level 0; distinct by (argv, hostnames, url, record, is_redirect). '
        'LIST option values are written as a user may write them (blank before/after a comma, empty entries, leading/trailing comma) and '
        'the reference reads them from the raw command-line text, not from the parser under test. '
        'web/ftp: real processor sessions against scripted servers with redirects to other hosts and out-of-scope paths. '
        'ftpcrawl: one case = one FTP crawl from a command-line URL (16 start shapes incl. glob patterns matching files, directories or both) '
        'x {-r} x {-l 1,2,3,inf} x a few reject rules x glob on/off, up to 14 items each; non-trivial = at least 2 requests. '
        'crawl: one case = one end-to-end crawl (5 origins: start host, forbidden host, other port, https port, www.; '
        'links, page requisites, iframes (embedded HTML documents with plain links and further requisites) and 1-2 hop redirects across them; sitemap.xml / robots.txt Sitemap: lines with --sitemaps in 25%; pages failing with HTTP 500 for their first 1-6 requests; fixed crawls redirecting into each kind of excluded territory; the retry rule is judged by the visits seen on the wire; requests are judged under the record implied by the true provenance (which item offered the URL) and the link kinds along the path; 1-3 workers; robots on in ~25%); non-trivial = at least 2 page requests.')
TRUSTED = ['the `re` engine and `fnmatch` are oracles of the model: their results are logged from the real calls and handed to the model',
           'URL parsing (URLInfo.parse) is engine Url\'s business: filters receive the parsed fields',
           'harness/fakenet.py in-memory transports (web/ftp session streams)',
           'harness/appsim.py + sched.py: the whole application on a deterministic loop (crawl stream); https runs without TLS '
           '(--no-check-certificate, in-memory transport)']
ASSUMPTIONS = ['the plugin hook accept_url is disconnected (default); a connected hook may override any verdict by design',
               'ItemSession.is_virtual is False for crawl items (checked on the real class each run)',
               'robots.txt fetches (including their own redirects) are the documented exception and belong to C20',
               'records come from the URL table: level and try_count are ints, parent_url/root_url are None or parseable URLs']
UNPROVED = []

HOSTS = ['a.example', 'www.a.example', 'xa.example', 'b.example', 'sub.b.example', 'c.test', 'a.example.evil.test']
SCHEMES = ['http', 'http', 'http', 'https', 'ftp']
SEGS = ['a', 'b', 'blog', 'blog-1-', 'img', 'cgi-bin', 'a.b', 'private', 'x y']
FILES = ['', '', 'x.html', 'y.png', 'z.bmp', 'image.123.png', 'image.1003.png', 'pic.jpe', 'pic.jpg', 'f.php', 'tmpa', 'tmp1',
         'index', 'a*b', 'q.html.bmp', 'xyz', 'Xb']
DOMAIN_POOL = ['a.example', 'example', '.example', 'b.example', 'c.test', 'test', '', 'evil.test', 'sub.b.example']
REGEX_POOL = [r'\.html$', 'blog', '^https', '/img/', r'a\.example', '[0-9]+', '(?i)PNG', r'^ftp://', '/$', r'\?', 'example/(a|b)/', '.']
DIR_POOL = ['/blog', '/blog/', '/img*', '/a/b', '*/cgi-bin', '/blog-*-', '', '/', '/a', 'a', '/private*', '/*/b', '/[ab]']
SUFFIX_POOL = ['html', 'png', 'bmp', 'jp[eg]', 'image.*.png', '*.php', 'tmp[!0-9]', 'x?z', '', 'b', '.html', 'HTML', '[!a]']


# ------------------------------------------------------------------ encoding for the driver
def enc_opt_str(s):
    return 'None' if s is None else '=' + enc(s)


def enc_lists(l):
    l = list(l or [])
    return '~' if not l else '/'.join(enc(x) for x in l)


def enc_bool(b):
    return 'T' if b else 'F'


def info_fields(ui):
    return {'scheme': ui.scheme, 'hostname': ui.hostname, 'port': ui.port, 'path': ui.path, 'url': ui.url}


def enc_info(ui):
    if ui is None:
        return 'None'
    f = ui if isinstance(ui, dict) else info_fields(ui)
    return ','.join([enc(f['scheme'] or ''), enc_opt_str(f['hostname']),
                     'None' if f['port'] is None else str(f['port']), enc(f['path'] or ''), enc(f['url'])])


def parse(url):
    from wpull.url import URLInfo
    return URLInfo.parse(url)


def enc_rec(rec):
    p = parse(rec['parent_url']) if rec.get('parent_url') else None
    r = parse(rec['root_url']) if rec.get('root_url') else None
    il = rec.get('inline_level')
    return '|'.join([enc_info(p), enc_info(r), str(rec['level']), 'None' if il is None else str(il), str(rec['try_count'])])


def make_record(url, rec):
    from wpull.pipeline.item import URLRecord
    r = URLRecord()
    r.url = url
    r.parent_url = rec.get('parent_url')
    r.root_url = rec.get('root_url')
    r.level = rec['level']
    r.inline_level = rec.get('inline_level')
    r.try_count = rec['try_count']
    r.post_data = None
    r.status_code = None
    r.filename = None
    r.priority = 0
    if rec.get('link_type'):
        from wpull.pipeline.item import LinkType
        r.link_type = LinkType(rec['link_type'])
    return r


def _elems(x):
    """the elements Python iterates over (a str option value iterates as characters)"""
    return [] if x is None else list(x)


def enc_filter(f):
    """canonical protocol form of a REAL filter object (reads its private fields)"""
    n = type(f).__name__
    d = f.__dict__
    if n == 'SchemeFilter':
        return 'scheme:' + enc_lists(d['_allowed'])
    if n == 'HTTPSOnlyFilter':
        return 'https'
    if n == 'FollowFTPFilter':
        return 'ftp:' + enc_bool(d['_follow'])
    if n == 'BackwardDomainFilter':
        return 'bd:%s:%s' % (enc_lists(d['_accepted']), enc_lists(d['_rejected']))
    if n == 'HostnameFilter':
        return 'hn:%s:%s' % (enc_lists(d['_accepted']), enc_lists(d['_rejected']))
    if n == 'RecursiveFilter':
        return 'rec:%s:%s' % (enc_bool(d['_enabled']), enc_bool(d['_page_requisites']))
    if n == 'LevelFilter':
        return 'lvl:%d:%d' % (d['_depth'] or 0, d['_inline_max_depth'] or 0)
    if n == 'TriesFilter':
        return 'tries:%d' % (d['_tries'] or 0)
    if n == 'ParentFilter':
        return 'parent'
    if n == 'SpanHostsFilter':
        return 'span:%s:%s:%s:%s' % (enc_lists(d['_hostnames']), enc_bool(d['_enabled']),
                                     enc_bool(d['_page_requisites']), enc_bool(d['_linked_pages']))
    if n == 'RegexFilter':
        return 're:%s:%s' % (enc(d['_accepted'] or ''), enc(d['_rejected'] or ''))
    if n == 'DirectoryFilter':
        return 'dir:%s:%s' % (enc_lists(d['_accepted']), enc_lists(d['_rejected']))
    if n == 'BackwardFilenameFilter':
        return 'bf:%s:%s' % (enc_lists(_elems(d['_accepted'])), enc_lists(_elems(d['_rejected'])))
    return 'unknown-' + n


def enc_filters(fs):
    fs = list(fs)
    return '~' if not fs else ';'.join(enc_filter(f) for f in fs)


# ------------------------------------------------------------------ logging of the oracle calls
class _Translated(str):
    suffix = None


class CallLog:
    """Replaces the names `re` / `fnmatch` inside wpull.urlfilter and `fnmatch` inside wpull.url
    by logging pass-through proxies (module-namespace override; wpull's code is untouched)."""

    def __init__(self):
        self.re, self.fn, self.sfx = [], [], []

    def clear(self):
        self.re, self.fn, self.sfx = [], [], []

    def tables(self):
        def t(l):
            return '~' if not l else ';'.join('%s,%s,%s' % (enc(a), enc(b), enc_bool(v)) for (a, b, v) in l)
        return '|'.join([t(self.re), t(self.fn), t(self.sfx)])

    def install(self):
        import wpull.urlfilter
        import wpull.url
        log = self

        class ReProxy:
            def __getattr__(self, n):
                return getattr(_re, n)

            def search(self, pattern, string, *a):
                m = _re.search(pattern, string, *a)
                if isinstance(pattern, _Translated):
                    log.sfx.append((pattern.suffix, string, bool(m)))
                else:
                    log.re.append((pattern, string, bool(m)))
                return m

        class FnProxyFilter:
            def __getattr__(self, n):
                return getattr(_fnmatch, n)

            def translate(self, s):
                t = _Translated(_fnmatch.translate(s))
                t.suffix = s
                return t

        class FnProxyUrl:
            def __getattr__(self, n):
                return getattr(_fnmatch, n)

            def fnmatchcase(self, name, pat):
                v = _fnmatch.fnmatchcase(name, pat)
                log.fn.append((name, pat, bool(v)))
                return v

        self._saved = (wpull.urlfilter.re, wpull.urlfilter.fnmatch, wpull.url.fnmatch)
        wpull.urlfilter.re = ReProxy()
        wpull.urlfilter.fnmatch = FnProxyFilter()
        wpull.url.fnmatch = FnProxyUrl()
        return self

    def uninstall(self):
        import wpull.urlfilter
        import wpull.url
        wpull.urlfilter.re, wpull.urlfilter.fnmatch, wpull.url.fnmatch = self._saved

    def __enter__(self):
        return self.install()

    def __exit__(self, *a):
        self.uninstall()


# ------------------------------------------------------------------ real code adapters
_PARSER = None


def parse_args(argv):
    global _PARSER
    from wpull.application.options import AppArgumentParser
    if _PARSER is None:
        _PARSER = AppArgumentParser()
    args = _PARSER.parse_args(list(argv))
    args._raw_lists = raw_lists(argv)
    return args


LIST_OPTIONS = {'-D': 'domains', '--domains': 'domains', '--exclude-domains': 'exclude_domains',
                '--hostnames': 'hostnames', '--exclude-hostnames': 'exclude_hostnames',
                '-I': 'include_directories', '--include-directories': 'include_directories',
                '-X': 'exclude_directories', '--exclude-directories': 'exclude_directories',
                '-A': 'accept', '--accept': 'accept', '-R': 'reject', '--reject': 'reject'}


def raw_lists(argv):
    """The LIST options as the user wrote them on the command line, read by their documented meaning
    (comma separated; blanks around an entry and empty entries mean nothing) - NOT through the parser under test."""
    out = {}
    argv = list(argv)
    for i, a in enumerate(argv):
        name, eq, val = a.partition('=')
        if a in LIST_OPTIONS and i + 1 < len(argv):
            out[LIST_OPTIONS[a]] = argv[i + 1]
        elif eq and name in LIST_OPTIONS:
            out[LIST_OPTIONS[name]] = val
    return {k: [x.strip() for x in v.split(',') if x.strip()] for k, v in out.items()}


def ref_list(args, name):
    raw = getattr(args, '_raw_lists', None)
    if raw is not None:
        return raw.get(name) or []
    v = getattr(args, name)
    return [] if v is None else ([x.strip() for x in v.split(',') if x.strip()] if isinstance(v, str) else list(v))


class _Table:
    def __init__(self, hostnames):
        self._h = list(hostnames)

    def get_hostnames(self):
        return list(self._h)


def real_build(args, hostnames):
    """The REAL option -> filter construction: URLFiltersSetupTask._build_url_filters followed by
    URLFiltersPostURLImportSetupTask.process on a session that only carries args + factory."""
    from wpull.application.tasks.rule import URLFiltersSetupTask, URLFiltersPostURLImportSetupTask
    from wpull.urlfilter import DemuxURLFilter
    session = types.SimpleNamespace(args=args, factory={})
    filters = URLFiltersSetupTask._build_url_filters(session)
    demux = DemuxURLFilter(filters)
    session.factory = {'URLTable': _Table(hostnames), 'DemuxURLFilter': demux}
    compat.run(URLFiltersPostURLImportSetupTask().process(session))
    return demux


def option_tokens(args, hostnames):
    allow = args.span_hosts_allow or []
    return ' '.join([
        enc_bool(args.https_only), enc_bool(args.recursive), enc_bool(args.page_requisites),
        enc_bool(args.follow_ftp), enc_bool(args.no_parent),
        enc_lists(args.domains), enc_lists(args.exclude_domains),
        enc_lists(args.hostnames), enc_lists(args.exclude_hostnames),
        str(args.tries or 0), str(args.level or 0), str(args.page_requisites_level or 0),
        enc(args.accept_regex or ''), enc(args.reject_regex or ''),
        enc_lists(args.include_directories), enc_lists(args.exclude_directories),
        enc_lists(_elems(args.accept)), enc_lists(_elems(args.reject)),
        enc_bool(args.span_hosts), enc_bool('page-requisites' in allow), enc_bool('linked-pages' in allow),
        enc_lists(hostnames)])


def real_consult(demux, url, rec, is_redirect, log):
    """-> (canonical reply string, verdict, reason, failed names)"""
    from wpull.processor.rule import FetchRule
    rule = FetchRule(url_filter=demux)
    ui = parse(url)
    record = make_record(url, rec)
    log.clear()
    try:
        verdict, reason, info = rule.consult_filters(ui, record, is_redirect=is_redirect)
    except Exception as e:
        return 'exc ' + type(e).__name__, None, None, None
    order = {id(f): i for i, f in enumerate(demux.url_filters)}
    failed = [type(f).__name__ for f in sorted(info['failed'], key=lambda f: order[id(f)])]
    passed = [type(f).__name__ for f in sorted(info['passed'], key=lambda f: order[id(f)])]
    mp = ','.join('%s=%s' % (k, enc_bool(v)) for k, v in info['map'].items()) or '-'
    if info['verdict'] != (len(info['failed']) == 0):
        raise Infra('test_info verdict field inconsistent')
    rep = 'ok %s %s %s %s %s %s' % (enc_bool(info['verdict']), enc_bool(verdict), reason,
                                    ','.join(failed) or '-', ','.join(passed) or '-', mp)
    return rep, verdict, reason, failed


# ------------------------------------------------------------------ the property's own wording (direct oracle)
def reference_scope(args, hostnames, url, rec):
    """Independent reading of the property sentence: the list of scope rules the URL breaks.
    args: parsed command line; hostnames: hosts of the start URLs; rec: the link record."""
    from urllib.parse import urlsplit
    broken = []
    ui = parse(url)
    scheme, host, path = ui.scheme, ui.hostname, ui.path or ''
    inline = bool(rec.get('inline_level'))
    level = rec['level']
    parent = parse(rec['parent_url']) if rec.get('parent_url') else None

    # scheme
    if args.https_only:
        if scheme != 'https':
            broken.append('scheme')
    elif scheme not in ('http', 'https', 'ftp'):
        broken.append('scheme')
    if scheme == 'ftp' and parent is not None and parent.scheme in ('http', 'https') and not args.follow_ftp:
        broken.append('scheme')
    # recursion
    if level > 0:
        if inline and not args.page_requisites:
            broken.append('recursion')
        if not inline and not args.recursive:
            broken.append('recursion')
    # depth limit (a limit on recursion: only while recursing; requisites get the documented +2)
    if args.recursive and args.level:
        if level > args.level + (2 if inline else 0):
            broken.append('depth')
    # page-requisite depth
    if args.page_requisites_level and inline and rec['inline_level'] > args.page_requisites_level:
        broken.append('page-requisite-depth')
    # no-parent
    if args.no_parent and not inline:
        top = parse(rec['root_url']) if rec.get('root_url') else ui
        web = ('http', 'https')
        same_family = scheme == top.scheme or (scheme in web and top.scheme in web)
        if same_family and host == top.hostname and (scheme != top.scheme or ui.port == top.port):
            top_dir = top.path[:top.path.rfind('/') + 1] if '/' in top.path else top.path + '/'
            my_dir = path[:path.rfind('/') + 1] if '/' in path else path + '/'
            if not my_dir.startswith(top_dir):
                broken.append('no-parent')
    # domain lists (hostname suffixes) and host lists (exact)
    domains, xdomains = ref_list(args, 'domains'), ref_list(args, 'exclude_domains')
    hosts_ok, xhosts = ref_list(args, 'hostnames'), ref_list(args, 'exclude_hostnames')
    if domains and not (host and any(host.endswith(d) for d in domains)):
        broken.append('domains')
    if xdomains and host and any(host.endswith(d) for d in xdomains):
        broken.append('domains')
    if hosts_ok and host not in hosts_ok:
        broken.append('hostnames')
    if xhosts and host in xhosts:
        broken.append('hostnames')
    # span hosts
    allow = args.span_hosts_allow or []
    if not args.span_hosts and host not in hostnames:
        ok = ('page-requisites' in allow and inline) or \
             ('linked-pages' in allow and parent is not None and parent.hostname in hostnames)
        if not ok:
            broken.append('span-hosts')
    # regex
    if args.accept_regex and not _re.search(args.accept_regex, ui.url):
        broken.append('regex')
    if args.reject_regex and _re.search(args.reject_regex, ui.url):
        broken.append('regex')
    # directory lists: the path lies in a listed directory (the directory itself or anything below it);
    # a listed directory may contain wildcards: some leading directory part of the path matches it
    as_dir = path if path.endswith('/') else path + '/'
    leading = [as_dir[:i + 1] for i, ch in enumerate(as_dir) if ch == '/']

    def dmatch(d):
        dd = d if d.endswith('/') else d + '/'
        return any(_fnmatch.fnmatchcase(p, dd) for p in leading)
    idirs, xdirs = ref_list(args, 'include_directories'), ref_list(args, 'exclude_directories')
    if idirs and not any(dmatch(d) for d in idirs):
        broken.append('directories')
    if xdirs and any(dmatch(d) for d in xdirs):
        broken.append('directories')
    # file-name suffix lists (a comma separated LIST of suffix patterns; directories are exempt)
    filename = path.rsplit('/', 1)[-1]

    def smatch(s):
        return _fnmatch.fnmatchcase(filename, '*' + s)
    if filename:
        acc, rej = ref_list(args, 'accept'), ref_list(args, 'reject')
        if acc and not any(smatch(s) for s in acc):
            broken.append('suffix')
        if rej and any(smatch(s) for s in rej):
            broken.append('suffix')
    # retry limit
    if args.tries and rec['try_count'] >= args.tries:
        broken.append('tries')
    return broken


# ------------------------------------------------------------------ generators
def gen_url(rng, hosts=HOSTS):
    r = rng.random()
    if r < 0.03:
        return rng.choice(['mailto:x@a.example', 'javascript:void(0)', 'gopher://a.example/blog/x.html', 'file:///a/b'])
    scheme = rng.choice(SCHEMES)
    host = rng.choice(hosts)
    port = ''
    if rng.random() < 0.12:
        port = ':' + rng.choice(['80', '443', '8080', '21', '8443'])
    segs = [rng.choice(SEGS) for _ in range(rng.choice([0, 0, 1, 1, 2, 3]))]
    f = rng.choice(FILES)
    path = '/' + '/'.join(segs + [f]) if (segs or f) else '/'
    if not f and segs and rng.random() < 0.3:
        path = path.rstrip('/')
    q = rng.choice(['', '', '', '?q=1', '?a=b&c=png'])
    if rng.random() < 0.03:
        # spider-trap sized URL; what the regex pool looks for (blog, /img/, digits, .html, png, '?') comes after the padding
        pad = 'p' * rng.choice([2040, 2048, 2100, 4096, 5000])
        return '%s://%s%s/%s%s%s' % (scheme, host, port, pad, path, q or '?q=1')
    return '%s://%s%s%s%s' % (scheme, host, port, path, q)


def near(rng, n, lo=0):
    return max(lo, n + rng.choice([-1, 0, 0, 1, 2, 3, 4]))


def gen_record(rng, args, url):
    level_limit = args.level or rng.choice([1, 5])
    pr = args.page_requisites_level or rng.choice([1, 5])
    tries = args.tries or rng.choice([1, 20])
    r = rng.random()
    level = 0 if r < 0.2 else (near(rng, level_limit) if r < 0.8 else rng.randrange(0, 12))
    r = rng.random()
    inline = None if r < 0.45 else (0 if r < 0.5 else (near(rng, pr) if r < 0.9 else rng.randrange(1, 9)))
    r = rng.random()
    tc = 0 if r < 0.4 else (near(rng, tries) if r < 0.9 else rng.randrange(0, 25))
    parent = None
    if level > 0 or rng.random() < 0.15:
        parent = gen_url(rng) if rng.random() < 0.95 else None
    root = None
    if rng.random() < 0.8:
        r = rng.random()
        if r < 0.4:
            # root on the same host, path related to url's
            ui = parse(url)
            if ui.hostname:
                base = '%s://%s' % (rng.choice([ui.scheme, ui.scheme, 'http', 'https', 'ftp']), ui.hostname_with_port)
                p = ui.path or '/'
                cut = rng.choice([p, p.rsplit('/', 1)[0] + '/', p.rsplit('/', 1)[0], p + '/', p + 'x', '/', p.rsplit('/', 2)[0] + '/'])
                root = base + (cut if cut.startswith('/') else '/' + cut)
            else:
                root = gen_url(rng)
        else:
            root = gen_url(rng)
    return {'parent_url': parent, 'root_url': root, 'level': level, 'inline_level': inline, 'try_count': tc}


def pick_list(rng, pool, k=None):
    k = k or rng.choice([1, 1, 2, 3])
    items = [rng.choice(pool) for _ in range(k)]
    r = rng.random()
    if r < 0.6:
        return ','.join(items)
    # the list as a user may write it: blanks around commas, empty entries, a trailing or leading comma
    out = ''
    for i, it in enumerate(items):
        if i:
            out += rng.choice([',', ', ', ' ,', ' , ', ',,', ', ,'])
        out += it
    return rng.choice(['', '', ' ', ',']) + out + rng.choice(['', '', ',', ' ', ', '])


def gen_argv(rng, p=None):
    """A command line: each scope option independently on/off."""
    argv = ['http://a.example/']
    p = p or rng.choice([0.15, 0.3, 0.5])

    def on(q=None):
        return rng.random() < (q if q is not None else p)
    if on(0.1):
        argv.append('--https-only')
    if on(0.6):
        argv.append('-r')
    if on(0.5):
        argv.append('-p')
    if on():
        argv.append('--follow-ftp')
    if on():
        argv.append('--no-parent')
    if on():
        argv += ['-D', pick_list(rng, DOMAIN_POOL)]
    if on():
        argv += ['--exclude-domains', pick_list(rng, DOMAIN_POOL)]
    if on():
        argv += ['--hostnames', pick_list(rng, HOSTS)]
    if on():
        argv += ['--exclude-hostnames', pick_list(rng, HOSTS)]
    if on(0.5):
        argv += ['-t', rng.choice(['0', 'inf', '1', '2', '3', '20'])]
    if on(0.5):
        argv += ['-l', rng.choice(['0', 'inf', '1', '2', '3', '5'])]
    if on(0.4):
        argv += ['--page-requisites-level', rng.choice(['0', 'inf', '1', '2', '5'])]
    if on():
        argv += ['--accept-regex', rng.choice(REGEX_POOL)]
    if on():
        argv += ['--reject-regex', rng.choice(REGEX_POOL)]
    if on():
        argv += ['-I', pick_list(rng, DIR_POOL)]
    if on():
        argv += ['-X', pick_list(rng, DIR_POOL)]
    if on():
        argv += ['-A', pick_list(rng, SUFFIX_POOL)]
    if on():
        argv += ['-R', pick_list(rng, SUFFIX_POOL)]
    r = rng.random()
    if r < 0.2:
        argv.append('-H')
    elif r < 0.5:
        argv += ['--span-hosts-allow', rng.choice(['page-requisites', 'linked-pages', 'linked-pages,page-requisites'])]
    return argv


def gen_hostnames(rng):
    return sorted(set(rng.sample(HOSTS, rng.choice([1, 1, 2, 3]))))


# ------------------------------------------------------------------ streams
def stream_similar(ctx, cases):
    from wpull.url import schemes_similar
    reps = ctx.model.ask(['filter similar %s %s' % (enc(a), enc(b)) for a, b in cases])
    for (a, b), rep in zip(cases, reps):
        real = enc_bool(schemes_similar(a, b))
        ctx.case(('similar', a, b), nontrivial=a != b, tags=['similar:' + real])
        if real != rep:
            ctx.disagree('similar', {'stream': 'similar', 'a': a, 'b': b}, rep, real)


def stream_subdir(ctx, cases, log):
    from wpull.url import is_subdir
    reqs, reals = [], []
    for base, test, ts, wc in cases:
        log.clear()
        v = is_subdir(base, test, trailing_slash=ts, wildcards=wc)
        reals.append(enc_bool(v))
        reqs.append('filter subdir %s %s %s %s %s' % (enc(base), enc(test), enc_bool(ts), enc_bool(wc), log.tables()))
    reps = ctx.model.ask(reqs)
    for c, rep, real in zip(cases, reps, reals):
        ctx.case(('subdir',) + tuple(c), tags=['subdir:%s:ts=%s:wc=%s' % (real, enc_bool(c[2]), enc_bool(c[3]))])
        if rep != real:
            ctx.disagree('subdir', {'stream': 'subdir', 'base': c[0], 'test': c[1], 'trailing_slash': c[2], 'wildcards': c[3]}, rep, real)


def stream_commalist(ctx, strings):
    """the converter behind -A/-R, -D/--exclude-domains, --hostnames/--exclude-hostnames, -I/-X"""
    from wpull.application.options import AppArgumentParser
    reps = ctx.model.ask(['filter commalist ' + enc(x) for x in strings])
    for x, rep in zip(strings, reps):
        got = AppArgumentParser.comma_list(x)
        real = enc_lists(got)
        ctx.case(('commalist', x), nontrivial=',' in x or x != x.strip(), tags=['commalist:n=%d' % min(len(got), 3)])
        if real != rep:
            ctx.disagree('commalist', {'stream': 'commalist', 'string': x}, rep, real)
        want = [e.strip() for e in x.split(',') if e.strip()]
        if list(got) != want:
            ctx.fail('list-entry-not-clean', 'comma_list', {'stream': 'commalist', 'string': x},
                     'comma_list(%r) = %r; the entries the user named are %r' % (x, got, want))


def stream_tablevisits(ctx, cases):
    """The retry limit through the REAL URL table: one URL is visited again and again - check_out, TriesFilter on the
    record the table hands out, "request" if accepted, check_in the way set_status does it (a URLResult and
    increment_try_count=True) or the way skip() does (no result, no increment).  cases: (tries, statuses)."""
    from wpull.database.sqltable import SQLiteURLTable
    from wpull.database.base import AddURLInfo, NotFound
    from wpull.pipeline.item import Status, URLProperties, URLData, URLResult
    from wpull.urlfilter import TriesFilter
    for tries, plan in cases:
        table = SQLiteURLTable(':memory:')
        url = 'http://a.example/flaky'
        table.add_many([AddURLInfo(url, None, None)])
        flt = TriesFilter(tries)
        wire, stored, lines, reals = 0, [], [], []
        case = {'stream': 'tablevisits', 'tries': tries, 'plan': plan}
        for status in plan:
            rec = None
            for st in (Status.todo, Status.error):
                try:
                    rec = table.check_out(st)
                    break
                except NotFound:
                    pass
            if rec is None:
                break
            stored.append(rec.try_count)
            if flt.test(parse(url), rec):
                if tries and wire >= tries:
                    ctx.fail('out-of-scope-request', 'table-history', case,
                             'visit %d of %s is requested although it was already requested %d times and --tries is %d '
                             '(the table hands out try_count=%d)' % (wire + 1, url, wire, tries, rec.try_count))
                wire += 1
                counted = status != 'skipped'
                table.check_in(url, Status(status), increment_try_count=counted, url_result=URLResult() if counted else None)
                lines.append('filter checkin %d %s %s' % (rec.try_count, enc_bool(counted), enc_bool(counted)))
            else:
                table.check_in(url, Status.skipped, increment_try_count=False)
                lines.append('filter checkin %d F F' % rec.try_count)
            reals.append(table.get_one(url).try_count)
        table.close()
        for rep, real in zip(ctx.model.ask(lines), reals):
            if rep != str(real):
                ctx.disagree('tablevisits', case, rep, str(real))
                break
        ctx.case(('tablevisits', tries, tuple(plan)), nontrivial=len(plan) > 1, tags=['tablevisits:requests=%d' % min(wire, 5)])


def run_tests(ctx, cases, log):
    """cases: dicts {argv, hostnames, url, record, is_redirect}.  build + test streams + oracle."""
    reqs, metas = [], []
    for c in cases:
        try:
            args = parse_args(c['argv'])
        except SystemExit:
            raise Infra('generated command line rejected by the real parser: %r' % (c['argv'],))
        demux = real_build(args, c['hostnames'])
        breq = 'filter build ' + option_tokens(args, c['hostnames'])
        breal = enc_filters(demux.url_filters)
        rep, verdict, reason, failed = real_consult(demux, c['url'], c['record'], c['is_redirect'], log)
        treq = 'filter test %s %s %s %s %s' % (breal, enc_info(parse(c['url'])), enc_rec(c['record']),
                                                enc_bool(c['is_redirect']), log.tables())
        reqs += [breq, treq]
        metas.append((c, args, breal, rep, verdict, reason, failed))
    reps = ctx.model.ask(reqs)
    for i, (c, args, breal, rep, verdict, reason, failed) in enumerate(metas):
        mbuild, mtest = reps[2 * i], reps[2 * i + 1]
        if mbuild != breal:
            ctx.disagree('build', dict(c, stream='test'), mbuild, breal)
        if mtest != rep:
            ctx.disagree('test', dict(c, stream='test'), mtest, rep)
        tags = ['test:' + ('exc' if verdict is None else 'accept' if verdict else 'reject'), 'test:nfilters=%d' % (breal.count(';') + 1)]
        if verdict is not None:
            tags.append('test:reason=' + reason)
            for f in failed:
                tags.append('failed:' + f)
            if len(failed) > 1:
                tags.append('test:multi-failed')
        nontrivial = len(c['argv']) > 1 or c['record']['level'] > 0
        ctx.case(('test', tuple(c['argv']), tuple(c['hostnames']), c['url'], tuple(sorted(c['record'].items(), key=str)), c['is_redirect']),
                 nontrivial=nontrivial, tags=tags)
        if verdict is None:
            continue
        # ---- the property itself, on the real verdict
        broken = reference_scope(args, c['hostnames'], c['url'], c['record'])
        if verdict:
            if reason == 'redirect':
                rest = [b for b in broken if b != 'span-hosts']
                if not c['is_redirect'] or rest:
                    ctx.fail('waiver-too-wide', 'consult_filters', dict(c, stream='test'),
                             'accepted as a redirect although is_redirect=%s and the URL also breaks %s' % (c['is_redirect'], rest))
            elif broken:
                ctx.fail('out-of-scope-accepted', broken[0], dict(c, stream='test'),
                         'the filters accept %s although it breaks the scope rule(s) %s (failed filters: %s)' % (c['url'], broken, failed))
        elif not broken:
            ctx.tag('stricter-than-wording:' + ','.join(failed))
    if cases:
        ctx.sample(dict(cases[0], stream='test'))


RAW_KINDS = ['scheme', 'https', 'ftp', 'bd', 'hn', 'rec', 'lvl', 'tries', 'parent', 'span', 're', 'dir', 'bf']


def gen_raw_spec(rng):
    k = rng.choice(RAW_KINDS + ['span', 'span'])

    def lst(pool):
        return None if rng.random() < 0.3 else [rng.choice(pool) for _ in range(rng.choice([0, 1, 2]))]
    if k == 'scheme':
        return [k, rng.choice([['http', 'https', 'ftp'], ['http'], [], ['ftp', 'gopher']])]
    if k in ('https', 'parent'):
        return [k]
    if k == 'ftp':
        return [k, rng.random() < 0.5]
    if k == 'bd':
        return [k, lst(DOMAIN_POOL), lst(DOMAIN_POOL)]
    if k == 'hn':
        return [k, lst(HOSTS), lst(HOSTS)]
    if k == 'rec':
        return [k, rng.random() < 0.5, rng.random() < 0.5]
    if k == 'lvl':
        return [k, rng.choice([0, 1, 2, 5]), rng.choice([0, 1, 2, 5])]
    if k == 'tries':
        return [k, rng.choice([0, 1, 2, 20])]
    if k == 'span':
        return [k, rng.sample(HOSTS, rng.choice([0, 1, 2])), rng.random() < 0.2, rng.random() < 0.4, rng.random() < 0.4]
    if k == 're':
        return [k, rng.choice([None, ''] + REGEX_POOL), rng.choice([None, ''] + REGEX_POOL)]
    if k == 'dir':
        return [k, lst(DIR_POOL), lst(DIR_POOL)]
    return [k, lst(SUFFIX_POOL), lst(SUFFIX_POOL)]


def make_raw(spec):
    import wpull.urlfilter as uf
    k = spec[0]
    a = spec[1:]
    return {'scheme': lambda: uf.SchemeFilter(tuple(a[0])), 'https': uf.HTTPSOnlyFilter, 'ftp': lambda: uf.FollowFTPFilter(a[0]),
            'bd': lambda: uf.BackwardDomainFilter(a[0], a[1]), 'hn': lambda: uf.HostnameFilter(a[0], a[1]),
            'rec': lambda: uf.RecursiveFilter(a[0], a[1]), 'lvl': lambda: uf.LevelFilter(a[0], a[1]),
            'tries': lambda: uf.TriesFilter(a[0]), 'parent': uf.ParentFilter,
            'span': lambda: uf.SpanHostsFilter(tuple(a[0]), a[1], a[2], a[3]),
            're': lambda: uf.RegexFilter(a[0], a[1]), 'dir': lambda: uf.DirectoryFilter(a[0], a[1]),
            'bf': lambda: uf.BackwardFilenameFilter(a[0], a[1])}[k]()


def run_rawtests(ctx, cases, log):
    """cases: {specs, url, record, is_redirect}: consult on arbitrary hand-assembled filter lists."""
    from wpull.urlfilter import DemuxURLFilter
    reqs, metas = [], []
    for c in cases:
        demux = DemuxURLFilter([make_raw(s) for s in c['specs']])
        rep, verdict, reason, failed = real_consult(demux, c['url'], c['record'], c['is_redirect'], log)
        reqs.append('filter test %s %s %s %s %s' % (enc_filters(demux.url_filters), enc_info(parse(c['url'])),
                                                     enc_rec(c['record']), enc_bool(c['is_redirect']), log.tables()))
        metas.append((c, rep, verdict, reason, failed))
    reps = ctx.model.ask(reqs)
    for (c, rep, verdict, reason, failed), m in zip(metas, reps):
        if m != rep:
            ctx.disagree('rawtest', dict(c, stream='rawtest'), m, rep)
        tags = ['rawtest:' + ('exc' if verdict is None else 'accept' if verdict else 'reject')]
        if verdict is not None:
            tags.append('rawtest:reason=' + reason)
            # the waiver, directly: accepted => nothing failed, or redirect and the one failure is a span-hosts filter
            if verdict and failed and not (c['is_redirect'] and failed == ['SpanHostsFilter']):
                ctx.fail('waiver-too-wide', 'consult_filters', dict(c, stream='rawtest'),
                         'accepted with failed filters %s (is_redirect=%s)' % (failed, c['is_redirect']))
        ctx.case(('rawtest', json.dumps(c, sort_keys=True, default=str)), tags=tags)


def gen_raw_case(rng):
    class A:
        level = rng.choice([0, 1, 2, 5])
        page_requisites_level = rng.choice([0, 1, 2, 5])
        tries = rng.choice([0, 1, 2, 20])
    url = gen_url(rng)
    return {'specs': [gen_raw_spec(rng) for _ in range(rng.choice([0, 1, 2, 3, 4, 6]))], 'url': url,
            'record': gen_record(rng, A, url), 'is_redirect': rng.random() < 0.5}


def gen_case(rng):
    argv = gen_argv(rng)
    args = parse_args(argv)
    hostnames = gen_hostnames(rng)
    url = gen_url(rng)
    rec = gen_record(rng, args, url)
    return {'argv': argv, 'hostnames': hostnames, 'url': url, 'record': rec, 'is_redirect': rng.random() < 0.35}


def boundary_cases(rng):
    """every limit at n-1 .. n+3, alone and with one other failing rule (targets: <= vs <, +2 vs +3, waiver width)"""
    out = []
    base = {'parent_url': 'http://a.example/', 'root_url': 'http://a.example/', 'level': 1, 'inline_level': None, 'try_count': 0}
    for n in (1, 2, 3, 5):
        for d in (-1, 0, 1, 2, 3, 4):
            for inline in (None, 0, 1):
                out.append({'argv': ['http://a.example/', '-r', '-p', '-l', str(n)], 'hostnames': ['a.example'],
                            'url': 'http://a.example/blog/x.html',
                            'record': dict(base, level=max(0, n + d), inline_level=inline), 'is_redirect': False})
            out.append({'argv': ['http://a.example/', '-r', '-p', '--page-requisites-level', str(n)], 'hostnames': ['a.example'],
                        'url': 'http://a.example/img/y.png',
                        'record': dict(base, level=1, inline_level=max(0, n + d)), 'is_redirect': False})
            out.append({'argv': ['http://a.example/', '-r', '-t', str(n)], 'hostnames': ['a.example'],
                        'url': 'http://a.example/blog/x.html',
                        'record': dict(base, try_count=max(0, n + d)), 'is_redirect': False})
    # redirect waiver: span-hosts alone / with each other rule also failing
    extra = [[], ['--reject-regex', 'blog'], ['-R', 'html'], ['-X', '/blog/x.html'], ['--exclude-domains', 'b.example'],
             ['--exclude-hostnames', 'b.example'], ['-t', '1'], ['-l', '1'], ['--https-only'], ['--no-parent'], ['-A', 'png'],
             ['-I', '/img'], ['--accept-regex', 'img'], ['-D', 'a.example'], ['--hostnames', 'a.example']]
    for e in extra:
        for red in (False, True):
            for lvl, tc in ((1, 0), (2, 1)):
                out.append({'argv': ['http://a.example/', '-r'] + e, 'hostnames': ['a.example'],
                            'url': 'http://b.example/blog/x.html',
                            'record': dict(base, level=lvl, try_count=tc, root_url='http://b.example/blog/sub/'), 'is_redirect': red})
    # no-parent: root directory x URL directory on the same host, other scheme, other port
    pths = ['/a/b/', '/a/b', '/a/', '/', '/a/bc/', '/a/b/c', '/a/b/x.html', '/a/x', '/x', '/a/bc', '/a/b/c/d']
    for rootp in pths[:6]:
        for up in pths:
            for rs, us in (('http://a.example', 'http://a.example'), ('http://a.example', 'https://a.example'),
                           ('http://a.example', 'http://a.example:8080'), ('ftp://a.example', 'ftp://a.example'),
                           ('http://a.example', 'ftp://a.example'), ('http://a.example', 'http://www.a.example'),
                           ('http://a.example', 'https://a.example:8443'), ('http://a.example:8080', 'https://a.example')):
                out.append({'argv': ['http://a.example/', '-r', '-H', '--follow-ftp', '--no-parent'], 'hostnames': ['a.example'],
                            'url': us + up, 'record': dict(base, root_url=rs + rootp), 'is_redirect': False})
    # domain / host lists: every host against every list element
    for h in HOSTS:
        for d in DOMAIN_POOL:
            for opt in ('-D', '--exclude-domains', '--hostnames', '--exclude-hostnames'):
                out.append({'argv': ['http://a.example/', '-r', '-H', opt, d], 'hostnames': ['a.example'],
                            'url': 'http://%s/blog/x.html' % h, 'record': dict(base), 'is_redirect': False})
    # span-hosts policy: allow lists x inline / parent host
    for allow in ([], ['--span-hosts-allow', 'page-requisites'], ['--span-hosts-allow', 'linked-pages'],
                  ['--span-hosts-allow', 'linked-pages,page-requisites'], ['-H']):
        for inline in (None, 0, 1):
            for parent in (None, 'http://a.example/', 'http://b.example/', 'http://xa.example/'):
                for h in ('a.example', 'b.example', 'xa.example'):
                    out.append({'argv': ['http://a.example/', '-r', '-p'] + allow, 'hostnames': ['a.example'],
                                'url': 'http://%s/img/y.png' % h,
                                'record': dict(base, inline_level=inline, parent_url=parent), 'is_redirect': False})
    # long URLs: the part of the URL that decides a regex rule lies behind 2048 / 4096 / 65536 characters
    for n in (2030, 2047, 2048, 2049, 2060, 4095, 4096, 4097, 65535, 65536, 65600):
        head = 'http://a.example/blog/'
        pad = 'a' * max(0, n - len(head))
        for argv_x, url in ((['--reject-regex', 'secret'], head + pad + '/secret.html'),
                            (['--reject-regex', r'\.exe$'], head + pad + 'setup.exe'),
                            (['--accept-regex', r'x\.html$'], (head + pad)[:n - 6] + 'x.html' + 'yy.png'),
                            (['--accept-regex', 'wanted'], head + pad + '/wanted.html'),
                            (['--accept-regex', r'^http://a\.example/blog/a*/page$'], head + pad + '/page')):
            out.append({'argv': ['http://a.example/', '-r'] + argv_x, 'hostnames': ['a.example'], 'url': url,
                        'record': dict(base), 'is_redirect': False})
    # LISTs as users write them: a blank after the comma, a trailing comma; the URL is hit only by a later entry
    for opt, val, url in (('--exclude-domains', 'c.test, b.example', 'http://b.example/blog/x.html'),
                          ('--exclude-hostnames', 'c.test, b.example', 'http://b.example/blog/x.html'),
                          ('-R', 'png, html', 'http://a.example/blog/x.html'), ('-R', 'png , html ,', 'http://a.example/blog/x.html'),
                          ('-X', '/img, /blog', 'http://a.example/blog/x.html'), ('-X', '/img ,/blog', 'http://a.example/blog/sub/x.html'),
                          ('-D', 'a.example,', 'http://b.example/blog/x.html'), ('-D', 'a.example, ', 'http://b.example/blog/x.html'),
                          ('-A', 'png,', 'http://a.example/blog/x.html'), ('-A', ' png , ', 'http://a.example/blog/x.html'),
                          ('-I', '/img,', 'http://a.example/blog/x.html'), ('--hostnames', 'a.example, ', 'http://b.example/blog/x.html'),
                          ('-D', 'c.test, a.example', 'http://a.example/blog/x.html'), ('-A', 'png, html', 'http://a.example/blog/x.html'),
                          ('-I', '/img, /blog', 'http://a.example/blog/x.html'), ('--hostnames', 'c.test, a.example', 'http://a.example/blog/x.html')):
        out.append({'argv': ['http://a.example/', '-r', '-H', opt, val], 'hostnames': ['a.example'], 'url': url,
                    'record': dict(base), 'is_redirect': False})
    # directory lists cover the directory tree
    for opt in ('-X', '-I'):
        for d in ('/blog', '/blog/', '/blog*', '/b*/sub', '/', '/blog/sub'):
            for pth in ('/blog', '/blog/', '/blog/x.html', '/blog/sub/x.html', '/blogger/x.html', '/x.html', '/a/blog/x.html', '/blog/sub/'):
                out.append({'argv': ['http://a.example/', '-r', opt, d], 'hostnames': ['a.example'], 'url': 'http://a.example' + pth,
                            'record': dict(base), 'is_redirect': False})
    # suffix lists given as comma separated LISTs
    for opt in ('-A', '-R'):
        for lst in ('html', 'html,png', 'tmp[!0-9]', 'bmp,jp[eg]', 'x?z', '[!a]', 'image.*.png'):
            for f in FILES:
                out.append({'argv': ['http://a.example/', '-r', opt, lst], 'hostnames': ['a.example'],
                            'url': 'http://a.example/blog/' + f, 'record': dict(base), 'is_redirect': False})
    return out


# ------------------------------------------------------------------ part (b): the real processor sessions
WEB_HOSTS = ['a.example', 'www.a.example', 'b.example', 'xa.example']
WEB_IPS = {h: '10.0.2.%d' % (i + 1) for i, h in enumerate(WEB_HOSTS)}
WEB_IPS_REV = {v: k for k, v in WEB_IPS.items()}


class _HttpServer:
    """scripted HTTP/1.1 server: site maps canonical URL -> [status, location-or-None, body]"""

    def __init__(self, site, log):
        self.site, self.log, self.buf = site, log, b''

    async def serve(self, conn):
        pass

    def on_write(self, conn, data):
        self.buf += data
        while b'\r\n\r\n' in self.buf:
            head, _, self.buf = self.buf.partition(b'\r\n\r\n')
            lines = head.split(b'\r\n')
            target = lines[0].split(b' ')[1].decode('latin-1')
            # the host is the one the client connected to (a 307/308 replay keeps the first Host header: C16's business)
            url = 'http://%s%s' % (WEB_IPS_REV[conn.address[0]], target)
            self.log.append(url)
            status, location, body = self.site.get(parse(url).url, [404, None, 'nf'])
            body = body.encode('latin-1')
            out = 'HTTP/1.1 %d X\r\nContent-Length: %d\r\n' % (status, len(body))
            if location is not None:
                out += 'Location: %s\r\n' % location
            conn.send(out.encode('latin-1') + b'\r\n' + body)


class _Table:
    def __init__(self, hostnames=()):
        self._h = list(hostnames)
        self.calls = []

    def get_hostnames(self):
        return list(self._h)

    def check_in(self, url, status, **kw):
        self.calls.append(('check_in', url, status.value))

    def add_many(self, infos=(), *a, **k):
        self.calls.append(('add_many',))
        self.added = getattr(self, 'added', []) + list(infos)

    def update_one(self, *a, **k):
        pass


class _NoScrape:
    def add_extra_urls(self, s):
        pass

    def scrape_document(self, s):
        pass


def _run_session(make, tmp_prefix='c02'):
    """run `await make(tmp)` on a fresh loop inside a scratch directory"""
    import shutil
    import tempfile
    tmp = tempfile.mkdtemp(prefix='wpull-verif-' + tmp_prefix)
    cwd = os.getcwd()
    os.chdir(tmp)
    try:
        return compat.run(make(tmp))
    finally:
        os.chdir(cwd)
        shutil.rmtree(tmp, ignore_errors=True)


async def _drive(proc, item):
    task = asyncio.ensure_future(compat._ensure(proc.process(item)))
    done = await fakenet.settle(task, [], extra=300)
    if not done:
        task.cancel()
        return 'stalled'
    try:
        task.result()
    except Exception as e:
        return 'exc ' + type(e).__name__
    return 'ok'


def is_virtual_truthy():
    """how `if item_session.is_virtual:` goes for an ordinary crawl item, on the REAL ItemSession class"""
    from wpull.pipeline.session import ItemSession
    try:
        return bool(ItemSession(types.SimpleNamespace(factory={}), make_record('http://a.example/', {'level': 0, 'try_count': 0})).is_virtual)
    except Exception:          # noqa
        return True


def real_web_session(demux, record, site, strong, robots):
    """The REAL WebProcessorSession (real FetchRule, WebClient, http Client, RedirectTracker,
    RobotsTxtChecker) against a scripted server. -> (outcome, requests seen by the server)"""
    from wpull.processor.rule import FetchRule, ResultRule
    from wpull.processor.web import WebProcessor, WebProcessorFetchParams
    from wpull.protocol.http.web import WebClient
    from wpull.protocol.http.client import Client
    from wpull.protocol.http.robots import RobotsTxtChecker
    from wpull.network.pool import ConnectionPool
    from wpull.pipeline.session import ItemSession
    from wpull.writer import NullWriter
    from wpull.stats import Statistics
    from wpull.waiter import LinearWaiter
    log = []

    async def go(tmp):
        net = fakenet.FakeNet()
        for ip in WEB_IPS.values():
            net.listen(ip, 80, lambda: _HttpServer(site, log))
        with net:
            pool = ConnectionPool(resolver=fakenet.FakeResolver(WEB_IPS))
            web_client = WebClient(http_client=Client(connection_pool=pool))
            checker = RobotsTxtChecker(web_client=WebClient(http_client=Client(connection_pool=pool))) if robots else None
            factory = {'FileWriter': NullWriter(), 'FetchRule': FetchRule(url_filter=demux, robots_txt_checker=checker),
                       'ResultRule': ResultRule(waiter=LinearWaiter(wait=0, max_wait=0), statistics=Statistics()),
                       'ProcessingRule': _NoScrape(), 'WebClient': web_client, 'URLTable': _Table()}
            item = ItemSession(types.SimpleNamespace(factory=factory, root_path=tmp), record)
            proc = WebProcessor(web_client, WebProcessorFetchParams(strong_redirects=strong))
            return await _drive(proc, item)
    return _run_session(go), log


FTP_IPS = {'a.example': '10.0.1.1', 'b.example': '10.0.1.2', 'www.a.example': '10.0.1.3'}
FTP_TREE = {'/': [('pub', True), ('top.txt', False)], '/top.txt': 'top',
            '/pub': [('file.txt', False), ('y.png', False), ('sub', True), ('blog', True)],
            '/pub/file.txt': 'hello', '/pub/y.png': 'png', '/pub/sub': [('x.html', False), ('deeper', True)], '/pub/sub/x.html': 'x',
            '/pub/sub/deeper': [('c.txt', False), ('deepest', True)], '/pub/sub/deeper/c.txt': 'c',
            '/pub/sub/deeper/deepest': [('d.txt', False)], '/pub/sub/deeper/deepest/d.txt': 'd',
            '/pub/blog': []}


class _FtpCtl:
    def __init__(self, world):
        self.world, self.buf = world, b''

    async def serve(self, conn):
        conn.send(b'220 ready\r\n')

    def on_write(self, conn, data):
        self.buf += data
        while b'\n' in self.buf:
            line, _, self.buf = self.buf.partition(b'\n')
            self.handle(conn, line.rstrip(b'\r'))

    def handle(self, conn, line):
        verb, _, arg = line.partition(b' ')
        verb = verb.upper()
        arg = arg.decode('latin-1')
        w = self.world
        if verb == b'USER':
            conn.send(b'331 pw\r\n')
        elif verb == b'PASS':
            conn.send(b'230 ok\r\n')
        elif verb == b'TYPE':
            conn.send(b'200 ok\r\n')
        elif verb == b'PASV':
            conn.send(('227 Entering Passive Mode (%s,7,228)\r\n' % conn.address[0].replace('.', ',')).encode())
        elif verb == b'REST':
            conn.send(b'350 ok\r\n')
        elif verb in (b'RETR', b'LIST'):
            host = w['rev'][conn.address[0]]
            w['log'].append('ftp://%s%s' % (host, arg))
            node = FTP_TREE.get(arg.rstrip('/') or '/')
            if verb == b'LIST' and isinstance(node, list):
                body = ''.join('%srw-r--r-- 1 u g 3 Jan 01 2020 %s\r\n' % ('d' if d else '-', n) for n, d in node)
            elif verb == b'RETR' and isinstance(node, str):
                body = node
            else:
                conn.send(b'550 no such\r\n')
                return
            conn.send(b'150 here\r\n')
            cands = [c for c in w['net'].conns if c.address[1] == 2020 and c.address[0] == conn.address[0] and not c.server_closed]
            if cands:
                cands[-1].send(body.encode())
                cands[-1].close()
            conn.send(b'226 done\r\n')
        else:
            conn.send(b'500 unknown\r\n')     # MLSD, SIZE: not implemented -> LIST is used


class _FtpData:
    async def serve(self, conn):
        pass


def real_ftp_session(demux, record, glob_on, preserve):
    """The REAL FTPProcessorSession against a scripted FTP server. -> (outcome, request URLs the server saw)"""
    from wpull.processor.rule import FetchRule, ResultRule
    from wpull.processor.ftp import FTPProcessor, FTPProcessorFetchParams
    from wpull.protocol.ftp.client import Client as FTPClient
    from wpull.network.pool import ConnectionPool
    from wpull.pipeline.session import ItemSession
    from wpull.writer import NullWriter
    from wpull.stats import Statistics
    from wpull.waiter import LinearWaiter
    world = {'log': [], 'rev': {v: k for k, v in FTP_IPS.items()}}

    async def go(tmp):
        net = fakenet.FakeNet()
        world['net'] = net
        for ip in FTP_IPS.values():
            net.listen(ip, 21, lambda: _FtpCtl(world))
            net.listen(ip, 2020, _FtpData)
        with net:
            pool = ConnectionPool(resolver=fakenet.FakeResolver(FTP_IPS))
            client = FTPClient(connection_pool=pool)
            factory = {'FileWriter': NullWriter(), 'FetchRule': FetchRule(url_filter=demux),
                       'ResultRule': ResultRule(waiter=LinearWaiter(wait=0, max_wait=0), statistics=Statistics()),
                       'URLTable': _Table()}
            item = ItemSession(types.SimpleNamespace(factory=factory, root_path=tmp), record)
            proc = FTPProcessor(client, FTPProcessorFetchParams(glob=glob_on, preserve_permissions=preserve))
            outcome = await _drive(proc, item)
            # the links the session offered to the table (flushed by set_status, or still in the item's batch)
            for info in list(getattr(factory['URLTable'], 'added', [])) + list(item._add_url_batch):
                pr = info.properties
                world['children'].append({'url': info.url, 'level': pr.level, 'inline_level': pr.inline_level,
                                          'parent_url': pr.parent_url, 'root_url': pr.root_url,
                                          'link_type': pr.link_type.value if pr.link_type else None})
            return outcome
    world['children'] = []
    return _run_session(go), world['log'], world['children']


def _justified(args, hostnames, url, rec, waived):
    broken = reference_scope(args, hostnames, url, rec)
    if waived:
        broken = [b for b in broken if b != 'span-hosts']
    return broken


def run_web_cases(ctx, cases, log):
    """cases: {argv, hostnames, url, record, site}"""
    from wpull.url import urljoin
    reqs, metas = [], []
    for c in cases:
        args = parse_args(c['argv'])
        demux = real_build(args, c['hostnames'])
        site = {parse(k).url: v for k, v in c['site'].items()}
        log.clear()
        outcome, seen = real_web_session(demux, make_record(c['url'], c['record']), site, args.strong_redirects, args.robots)
        # what the server side and the robots.txt checker answer, hop by hop (input of the model's adversary).
        # The checker's pool is per session: when a hop is reached, robots.txt of every earlier hop's origin
        # was fetched and allowed that hop (policies here are per origin: allow all / deny all / 5xx).
        def robots_url_of(u):
            ui_ = parse(u)
            return parse('%s://%s/robots.txt' % (ui_.scheme, ui_.hostname_with_port)).url

        def robots_outcome(u, seen_origins):
            ru = robots_url_of(u)
            rstatus, _l, rbody = site.get(ru, [404, None, ''])
            allow = not (rstatus == 200 and 'Disallow: /\n' in rbody)
            if ru in seen_origins:
                return 'C' + enc_bool(allow)
            if 500 <= rstatus <= 599:
                return 'E'
            return 'F' + enc_bool(allow)
        ui = parse(c['url'])
        chain, resps, cur = [ui.url], [], ui.url
        origins = [robots_url_of(cur)]
        rob = robots_outcome(cur, [])
        for _ in range(10):
            status, location, _b = site.get(cur, [404, None, ''])
            if status in (301, 302, 303, 307, 308) and location:
                cur = parse(urljoin(cur, location)).url
                resps.append('D:%s@%s' % (enc_info(parse(cur)), robots_outcome(cur, origins)))
                origins.append(robots_url_of(cur))
                chain.append(cur)
            else:
                resps.append('F')
                break
        reqs.append('filter web %s %s %s %s %s %s %s %s %s' % (
            enc_filters(demux.url_filters), enc_bool(args.strong_redirects), enc_bool(args.robots), enc_bool(is_virtual_truthy()),
            enc_rec(c['record']), enc_info(ui), rob, ';'.join(resps), log.tables()))
        metas.append((c, args, outcome, seen, chain, robots_url_of))
    reps = ctx.model.ask(reqs)
    for (c, args, outcome, seen, chain, robots_url_of), rep in zip(metas, reps):
        want = []
        for ev in ([] if rep == '-' else rep.split(';')):
            if ev[:2] in ('B:', 'R:'):
                u = ''.join(chr(int(x, 16)) for x in ev.split(':')[1].split('.'))
                want.append(robots_url_of(u) if ev.startswith('B:') else u)
        got = [parse(u).url for u in seen]
        case = dict(c, stream='web')
        if rep in ('miss', 'bad-arg', 'bad-op') or want != got or not outcome.startswith('ok'):
            ctx.disagree('web', case, {'events': rep, 'requests': want}, {'outcome': outcome, 'requests': got})
        ctx.case(('web', json.dumps(c, sort_keys=True)), nontrivial=len(got) > 0,
                 tags=['web:requests=%d' % min(len(got), 4), 'web:' + outcome.split(' ')[0],
                       'web:robots-fetches=%d' % min(3, len([u for u in got if u.endswith('/robots.txt')]))])
        # ---- the property on the request log of the server: walk the log along the redirect chain.
        # Hop i (i>0: a redirect target) must be in scope (span-hosts waived for i>0 under strong redirects);
        # a robots.txt request is exempt only as the control file of the origin of the hop about to be
        # visited, and only if that hop itself is justified.
        i = 0
        for u in got:
            if i >= len(chain):
                ctx.fail('out-of-scope-request', 'web-session', case, 'request for %s after the end of the redirect chain' % u)
                break
            hop = chain[i]
            broken = _justified(args, c['hostnames'], hop, c['record'], i > 0 and args.strong_redirects)
            if u == hop:
                if broken:
                    ctx.fail('out-of-scope-request', 'web-session', case,
                             'the server received a request for %s (hop %d of %s) which breaks %s' % (u, i, chain[0], broken))
                i += 1
            elif u == robots_url_of(hop) and args.robots:
                if broken:
                    ctx.fail('out-of-scope-request', 'web-session', case,
                             'robots.txt %s fetched for %s (hop %d), a URL that is out of scope: %s' % (u, hop, i, broken))
            else:
                ctx.fail('out-of-scope-request', 'web-session', case,
                         'the server received a request for %s, which is neither hop %d (%s) nor its robots.txt' % (u, i, hop))
                break
    if cases:
        ctx.sample(dict(cases[0], stream='web'))


def ftp_shape(url, rec, glob_on, preserve):
    """How FTPProcessorSession.process gets from the item URL to its requests, given the server's tree
    (derived URLs are built by wpull's own helper functions; URL building is not modelled)."""
    import posixpath
    import urllib.parse
    from wpull.processor.ftp import to_dir_path_url, append_slash_to_path_url, GLOB_CHARS
    ui = parse(url)
    filename = ui.split_path()[1]
    dir_info = parse(to_dir_path_url(ui))
    if glob_on and frozenset(filename) & GLOB_CHARS:
        return 'glob!' + enc_info(dir_info), 'None'
    if rec.get('link_type') or ui.path.endswith('/'):
        is_file = rec.get('link_type') == 'file'
        retr_ok = isinstance(FTP_TREE.get(urllib.parse.unquote(ui.path).rstrip('/') or '/'), str)
        perm = enc_info(dir_info) if (preserve and is_file and retr_ok) else 'None'
        return 'known', perm
    listing = FTP_TREE.get(urllib.parse.unquote(dir_info.path).rstrip('/') or '/')
    slashed = None
    if isinstance(listing, list):
        name = posixpath.basename(urllib.parse.unquote(ui.path))
        for n, d in listing:
            if n == name:
                slashed = parse(append_slash_to_path_url(ui)) if d else None
                break
    return 'probe!%s!%s' % (enc_info(dir_info), enc_info(slashed)), 'None'


def run_ftp_cases(ctx, cases, log, sample=True):
    """cases: {argv, hostnames, url, record, glob, preserve} -> per case {seen, children, outcome}"""
    reqs, metas, results = [], [], []
    for c in cases:
        args = parse_args(c['argv'])
        demux = real_build(args, c['hostnames'])
        log.clear()
        outcome, seen, children = real_ftp_session(demux, make_record(c['url'], c['record']), c['glob'], c['preserve'])
        results.append({'seen': seen, 'children': children, 'outcome': outcome})
        shape, perm = ftp_shape(c['url'], c['record'], c['glob'], c['preserve'])
        reqs.append('filter ftp %s %s %s %s %s %s' % (enc_filters(demux.url_filters), enc_rec(c['record']),
                                                     enc_info(parse(c['url'])), shape, perm, log.tables()))
        metas.append((c, args, outcome, seen, shape))
    reps = ctx.model.ask(reqs)
    for (c, args, outcome, seen, shape), rep in zip(metas, reps):
        want = [''.join(chr(int(x, 16)) for x in ev.split(':')[1].split('.'))
                for ev in ([] if rep == '-' else rep.split(';')) if ev.startswith('R:')]
        case = dict(c, stream='ftp')
        if rep in ('miss', 'bad-arg', 'bad-op') or want != seen or not outcome.startswith('ok'):
            ctx.disagree('ftp', case, {'events': rep, 'requests': want}, {'outcome': outcome, 'requests': seen})
        ctx.case(('ftp', json.dumps(c, sort_keys=True)), nontrivial=len(seen) > 0,
                 tags=['ftp:requests=%d' % len(seen), 'ftp:' + outcome.split(' ')[0], 'ftp:shape=' + shape.split('!')[0]])
        for u in seen:
            broken = _justified(args, c['hostnames'], u, c['record'], False)
            if broken:
                ctx.fail('out-of-scope-request', 'ftp-session', case,
                         'the FTP server received a request for %s on behalf of %s; that URL breaks %s' % (u, c['url'], broken))
    if cases and sample:
        ctx.sample(dict(cases[0], stream='ftp'))
    return results


# ---- FTP crawls: an item, the links its listing offers, their items, ... (the depth of a link is part of its record)
FTP_STARTS = ['/pub/*', '/pub/s*', '/pub/[a-t]*', '/pub/*.txt', '/pub/su?', '/pub/sub/*', '/*', '/pub/', '/pub/sub/', '/',
              '/pub/sub/deeper/*', '/pub/f*', '/pub/sub/d*', '/pub/[!f]*', '/pub/sub/deeper/', '/pub/b*']


def _ftp_entry_is_dir(url):
    import urllib.parse
    node = FTP_TREE.get(urllib.parse.unquote(parse(url).path).rstrip('/') or '/')
    return isinstance(node, list)


def run_ftp_crawls(ctx, cases, log, max_items=14):
    """cases: {argv, hostnames, url, glob}.  The start URL is a command-line URL (depth 0); every link a listing
    offers is followed with the record the REAL session wrote for it.  Each request that reaches the server is judged
    by the reference under the depth the PROPERTY implies: the files a glob pattern matches stay at the depth of the glob
    item (they are what the user named), a matched directory and every entry of a plain listing are one link further."""
    from wpull.processor.ftp import GLOB_CHARS
    st = []
    for c in cases:
        start_rec = {'parent_url': None, 'root_url': None, 'level': 0, 'inline_level': None, 'try_count': 0, 'link_type': None}
        st.append({'c': c, 'args': parse_args(c['argv']), 'queue': [(c['url'], start_rec, 0)], 'done': set(), 'nreq': 0,
                   'case': dict(c, stream='ftpcrawl'), 'links': 0})
    child_reqs, child_meta = [], []
    while True:
        # one round: every queued item of every crawl (breadth first, sessions batched into one model call)
        batch = []
        for s_ in st:
            q, s_['queue'] = s_['queue'], []
            for url, rec, depth in q:
                if url in s_['done'] or len(s_['done']) >= max_items:
                    continue
                s_['done'].add(url)
                batch.append((s_, url, rec, depth))
        if not batch:
            break
        items = [{'argv': s_['c']['argv'], 'hostnames': s_['c']['hostnames'], 'url': url, 'record': rec,
                  'glob': s_['c']['glob'], 'preserve': False} for s_, url, rec, depth in batch]
        for (s_, url, rec, depth), res in zip(batch, run_ftp_cases(ctx, items, log, sample=False)):
            c = s_['c']
            true_rec = dict(rec, level=depth)
            for u in res['seen']:
                s_['nreq'] += 1
                broken = _justified(s_['args'], c['hostnames'], u, true_rec, False)
                if broken:
                    ctx.fail('out-of-scope-request', 'ftp-crawl', s_['case'],
                             'the FTP server received a request for %s on behalf of the item %s, which is %d link(s) from the '
                             'command-line URL %s (recorded level %d); at that depth the request breaks %s'
                             % (u, url, depth, c['url'], rec['level'], broken))
            is_glob = bool(c['glob'] and frozenset(parse(url).split_path()[1]) & GLOB_CHARS)
            for ch in res['children']:
                is_dir = _ftp_entry_is_dir(ch['url'])
                child_reqs.append('filter ftpchild %s %s %d' % (enc_bool(is_glob), enc_bool(is_dir), rec['level']))
                child_meta.append((s_, url, rec, ch, {'parent_url': url, 'root_url': rec['root_url'] or url}))
                s_['links'] += 1
                child_depth = depth if (is_glob and not is_dir) else depth + 1
                crec = {'parent_url': ch['parent_url'], 'root_url': ch['root_url'], 'level': ch['level'],
                        'inline_level': ch['inline_level'], 'try_count': 0, 'link_type': ch['link_type']}
                s_['queue'].append((ch['url'], crec, child_depth))
    for (s_, url, rec, ch, want_par), rep in zip(child_meta, ctx.model.ask(child_reqs)):
        if rep != str(ch['level']) or ch['parent_url'] != want_par['parent_url'] or ch['root_url'] != want_par['root_url'] \
                or ch['inline_level'] is not None:
            ctx.disagree('ftpchild', dict(s_['case'], item=url, item_record=rec, child=ch),
                         {'level': rep, 'parent_url': want_par['parent_url'], 'root_url': want_par['root_url'], 'inline_level': None},
                         {k: ch[k] for k in ('level', 'parent_url', 'root_url', 'inline_level')})
    for s_ in st:
        c, n, nreq = s_['c'], len(s_['done']), s_['nreq']
        ctx.case(('ftpcrawl', json.dumps(c, sort_keys=True)), nontrivial=nreq >= 2,
                 tags=['ftpcrawl:items=%s' % ('1' if n < 2 else '2-5' if n < 6 else '6+'),
                       'ftpcrawl:requests=%s' % ('0-1' if nreq < 2 else '2-5' if nreq < 6 else '6+'),
                       'ftpcrawl:glob-start=%s' % enc_bool(bool(frozenset(parse(c['url']).split_path()[1]) & GLOB_CHARS)),
                       'ftpcrawl:links=%d+' % min(s_['links'], 3)])
    if cases:
        ctx.sample(dict(cases[0], stream='ftpcrawl'))


def gen_ftp_crawl_case(rng):
    argv = ['ftp://a.example/']
    if rng.random() < 0.6:
        argv.append('-r')
    if rng.random() < 0.7:
        argv += ['-l', rng.choice(['1', '2', '3', 'inf'])]
    r = rng.random()
    if r < 0.08:
        argv.append('--no-parent')
    elif r < 0.16:
        argv += ['-R', rng.choice(['txt', 'html', 'png'])]
    elif r < 0.24:
        argv += ['-X', rng.choice(['/pub/blog', '/pub/sub/deeper*', '/pub/sub'])]
    elif r < 0.30:
        argv += ['--reject-regex', rng.choice(['deeper', r'\.txt$', '/sub/$'])]
    return {'argv': argv, 'hostnames': ['a.example'], 'url': 'ftp://a.example' + rng.choice(FTP_STARTS),
            'glob': rng.random() < 0.85}


def fixed_ftp_crawl_cases():
    out = []
    for extra in ([], ['-r', '-l', '1'], ['-r', '-l', '2'], ['-r', '-l', '3'], ['-r'], ['-l', '1']):
        for start in ('/pub/*', '/pub/s*', '/pub/*.txt', '/pub/su?', '/pub/sub/*', '/pub/', '/*'):
            for g in ((True, False) if extra in ([], ['-r', '-l', '1']) and start in ('/pub/*', '/pub/su?', '/pub/') else (True,)):
                out.append({'argv': ['ftp://a.example/'] + extra, 'hostnames': ['a.example'], 'url': 'ftp://a.example' + start, 'glob': g})
    return out




def gen_http_url(rng):
    segs = [rng.choice(SEGS[:8]) for _ in range(rng.choice([0, 1, 1, 2]))]
    f = rng.choice(FILES[:14])
    path = '/' + '/'.join(segs + [f]) if (segs or f) else '/'
    return 'http://%s%s' % (rng.choice(WEB_HOSTS), path.replace(' ', '%20'))


def session_argv(rng, web):
    argv = [a for a in gen_argv(rng, rng.choice([0.04, 0.08, 0.15]))]
    if '--https-only' in argv and rng.random() < 0.8:
        argv.remove('--https-only')
    if web:
        if rng.random() < 0.55:
            argv.append('--no-robots')
        if rng.random() < 0.3:
            argv.append('--no-strong-redirects')
    return argv


def gen_web_case(rng):
    argv = session_argv(rng, True)
    args = parse_args(argv)
    url = 'http://a.example' + gen_http_url(rng)[len('http://'):].partition('/')[1] + gen_http_url(rng).split('/', 3)[3]
    site, cur = {}, url
    for _ in range(rng.choice([0, 1, 1, 2, 3, 4])):
        nxt = gen_http_url(rng)
        if nxt in site or nxt == url:
            break
        loc = nxt
        if parse(nxt).hostname == parse(cur).hostname and rng.random() < 0.5:
            loc = '/' + nxt.split('/', 3)[3]
        site[cur] = [rng.choice([301, 302, 303, 307, 308]), loc, '']
        cur = nxt
    site[cur] = [rng.choice([200, 200, 404, 500]), None, 'body']
    r = rng.random()
    if r < 0.5:
        site['http://a.example/robots.txt'] = [200, None, 'User-agent: *\nDisallow: /\n' if rng.random() < 0.4 else 'User-agent: *\nDisallow: /none\n']
    elif r < 0.6:
        site['http://a.example/robots.txt'] = [500, None, 'oops']
    for h in WEB_HOSTS[1:]:
        r = rng.random()
        if r < 0.25:
            site['http://%s/robots.txt' % h] = [200, None, 'User-agent: *\nDisallow: /\n']
        elif r < 0.5:
            site['http://%s/robots.txt' % h] = [200, None, 'User-agent: *\nDisallow: /none\n']
        elif r < 0.6:
            site['http://%s/robots.txt' % h] = [500, None, 'oops']
    rec = gen_record(rng, args, url)
    if rng.random() < 0.8:
        rec.update(level=0, inline_level=None, try_count=0, parent_url=None)
    return {'argv': argv, 'hostnames': rng.choice([['a.example'], ['a.example'], ['a.example', 'b.example']]),
            'url': url, 'record': rec, 'site': site}


FTP_PATHS = ['/pub/sub/deeper', '/pub/sub/deeper/deepest', '/pub/file.txt', '/pub/y.png', '/pub/sub', '/pub/sub/', '/pub/', '/pub', '/pub/sub/x.html', '/top.txt', '/',
             '/pub/*.txt', '/pub/su?', '/pub/nope', '/pub/blog', '/pub/blog/', '/pub/*']


def gen_ftp_case(rng):
    argv = session_argv(rng, False)
    args = parse_args(argv)
    url = 'ftp://%s%s' % (rng.choice(['a.example', 'a.example', 'a.example', 'a.example', 'b.example', 'www.a.example']), rng.choice(FTP_PATHS))
    rec = gen_record(rng, args, url)
    if rng.random() < 0.8:
        rec.update(level=0, inline_level=None, try_count=0, parent_url=None)
    if rng.random() < 0.2:
        argv = argv + rng.choice([['--reject-regex', 'sub/$'], ['--reject-regex', '/(sub|blog|tmp)/'], ['--reject-regex', '[a-z]/$'],
                                  ['--accept-regex', '(pub/|/|sub|blog|txt|png|html)$'.replace('|/|', '|')], ['--reject-regex', 'deeper/']])
    r = rng.random()
    rec['link_type'] = None if r < 0.6 else ('file' if r < 0.8 else 'directory')
    return {'argv': argv, 'hostnames': rng.choice([['a.example'], ['a.example', 'b.example']]), 'url': url, 'record': rec,
            'glob': rng.random() < 0.8, 'preserve': rng.random() < 0.3}


def fixed_session_cases():
    base = {'parent_url': None, 'root_url': None, 'level': 0, 'inline_level': None, 'try_count': 0}
    web = []
    site = {'http://a.example/x': [302, 'http://b.example/y', ''], 'http://b.example/y': [301, '/z.png', ''],
            'http://b.example/z.png': [200, None, 'hello'], 'http://a.example/robots.txt': [200, None, 'User-agent: *\nDisallow: /q\n'],
            'http://b.example/robots.txt': [200, None, 'User-agent: *\nDisallow: /none\n']}
    site_deny = dict(site)
    site_deny['http://b.example/robots.txt'] = [200, None, 'User-agent: *\nDisallow: /\n']
    site_err = dict(site)
    site_err['http://b.example/robots.txt'] = [500, None, 'oops']
    for extra in ([], ['--no-strong-redirects'], ['-R', 'png'], ['--reject-regex', 'b\\.example/y'], ['--exclude-domains', 'b.example'],
                  ['--no-robots'], ['-t', '1'], ['-H']):
        for st in (site, site_deny, site_err):
            web.append({'argv': ['http://a.example/x'] + extra, 'hostnames': ['a.example'], 'url': 'http://a.example/x',
                        'record': dict(base), 'site': st})
    ftp = []
    for extra, url in (([], 'ftp://a.example/pub/file.txt'), (['--accept-regex', 'file\\.txt$'], 'ftp://a.example/pub/file.txt'),
                       (['--reject-regex', '/$'], 'ftp://a.example/pub/sub'), (['--reject-regex', '/$'], 'ftp://a.example/pub/*.txt'),
                       (['-X', '/pub'], 'ftp://a.example/pub/file.txt'), (['-I', '/pub/sub'], 'ftp://a.example/pub/sub'),
                       (['--no-parent'], 'ftp://a.example/pub/sub'), ([], 'ftp://a.example/pub/*.txt'),
                       # the verdict differs between the bare item URL and the slash-suffixed directory URL it turns into
                       (['--reject-regex', 'sub/$'], 'ftp://a.example/pub/sub'), (['--reject-regex', '/(sub|blog|tmp)/'], 'ftp://a.example/pub/sub'),
                       (['--reject-regex', '/(sub|blog|tmp)/'], 'ftp://a.example/pub/blog'),
                       (['--accept-regex', '(pub/|sub|blog|txt)$'], 'ftp://a.example/pub/sub'),
                       (['--accept-regex', '(pub/|sub|blog|txt)$'], 'ftp://a.example/pub/blog'),
                       (['--reject-regex', 'deeper/'], 'ftp://a.example/pub/sub/deeper'), (['-X', '/pub/sub/'], 'ftp://a.example/pub/sub')):
        for preserve in (False, True):
            ftp.append({'argv': ['ftp://a.example/'] + extra, 'hostnames': ['a.example'], 'url': url, 'record': dict(base, link_type=None),
                        'glob': True, 'preserve': preserve})
    return web, ftp


# ------------------------------------------------------------------ part (b) end to end: whole crawls of the real application
CR_A, CR_B = 'a.test', 'b.test'
CR_HOSTKEYS = ['a.test', 'b.test', 'a.test:8080', 'a.test:8443', 'www.a.test']
CR_PORTS = (80, 8080, 443, 8443)


def cr_base(hostkey):
    return ('https://' if hostkey.endswith(':8443') else 'http://') + hostkey


def gen_crawl_site(rng):
    """{hostkey: {target: page}}: a start host with directories, suffixes, images and redirects; the forbidden host
    b.test; the start host on another port / over https / as www.; links and redirects cross all of them."""
    paths = {
        'a.test': ['/', '/d/', '/d/p1.html', '/d/p2.html', '/d/sub/p3.html', '/d/sub/', '/e/', '/e/p4.html', '/cgi-bin/q',
                   '/d/tmpa', '/p5.html'],
        'b.test': ['/', '/x', '/y.html', '/d/z.html'],
        'a.test:8080': ['/', '/d/o1.html'],
        'a.test:8443': ['/', '/d/s1.html', '/e/s2.html'],
        'www.a.test': ['/', '/d/w1.html'],
    }
    images = {'a.test': ['/d/a.png', '/img/b.png', '/d/c.bmp'], 'b.test': ['/img/j.png'], 'a.test:8443': ['/d/k.png']}
    redirs = {'a.test': ['/d/r1', '/d/r2.html', '/r3'], 'b.test': ['/back', '/on'], 'www.a.test': ['/d/r4']}
    pool = [cr_base(h) + t for h, ts in paths.items() for t in ts]
    pool += ['https://a.test/d/p1.html', 'https://a.test/e/p4.html']
    rpool = [cr_base(h) + t for h, ts in redirs.items() for t in ts]
    ipool = [cr_base(h) + t for h, ts in images.items() for t in ts]
    site = {h: {} for h in CR_HOSTKEYS}

    def spell(frm_host, url):
        base = cr_base(frm_host)
        if url.startswith(base + '/') and rng.random() < 0.6:
            return url[len(base):]
        return url
    for h, ts in paths.items():
        for t in ts:
            r = rng.random()
            if t.endswith('/') or t.endswith('.html') and r < 0.8 or r < 0.3:
                links = []
                for _ in range(rng.randint(1, 5)):
                    u = rng.choice(pool + rpool) if rng.random() < 0.8 else rng.choice([q for q in pool if q.startswith(cr_base(h))])
                    links.append((spell(h, u), False))
                for _ in range(rng.choice([0, 0, 1, 2])):
                    links.append((spell(h, rng.choice(ipool)), True))
                site[h][t] = {'kind': 'html', 'links': links}
            elif r < 0.9:
                site[h][t] = {'kind': 'leaf'}
            else:
                site[h][t] = {'kind': 'missing'}
    for h, ts in images.items():
        for t in ts:
            site[h][t] = {'kind': 'leaf', 'ctype': 'image/png'}
    for h, ts in redirs.items():
        for t in ts:
            # targets are documents, never redirects: no cycles, one hop per redirect (chains come from links)
            tgt = rng.choice(pool + ipool) if rng.random() < 0.85 else rng.choice(rpool)
            if tgt in rpool:
                tgt = rng.choice(pool)
            site[h][t] = {'kind': 'redirect', 'location': spell(h, tgt), 'code': rng.choice([301, 302, 303, 307, 308])}
    # embedded HTML documents (iframes): page requisites that are HTML and carry plain links and further requisites
    frames = {'a.test': ['/d/f1.html', '/fr/f2.html'], 'b.test': ['/fr.html']}
    fpool = [cr_base(h) + t for h, ts in frames.items() for t in ts]
    for h, ts in frames.items():
        for t in ts:
            links = [(spell(h, rng.choice(pool)), False) for _ in range(rng.randint(1, 3))]
            links += [(spell(h, rng.choice(['http://a.test/e/p4.html', 'http://a.test/p5.html', 'http://b.test/y.html',
                                            'http://www.a.test/d/w1.html', 'http://a.test/d/sub/p3.html'])), False)]
            links += [(spell(h, rng.choice(ipool)), True) for _ in range(rng.choice([0, 1, 2]))]
            if rng.random() < 0.3:
                links.append((spell(h, rng.choice([f for f in fpool if f != cr_base(h) + t])), 'frame'))
            site[h][t] = {'kind': 'html', 'links': links}
    htmls = [(h, t) for h in ('a.test', 'b.test') for t, pg in site[h].items() if pg['kind'] == 'html' and (h, t) not in
             [(fh, ft) for fh, fts in frames.items() for ft in fts]]
    for h, t in htmls:
        if rng.random() < 0.35:
            site[h][t]['links'].append((spell(h, rng.choice(fpool)), 'frame'))
    # a two-hop chain a -> b -> a
    site['a.test']['/d/r1'] = {'kind': 'redirect', 'location': 'http://b.test/on', 'code': 302}
    site['b.test']['/on'] = {'kind': 'redirect', 'location': rng.choice(['http://a.test/d/p2.html', 'http://b.test/y.html', 'http://a.test/e/p4.html']), 'code': 301}
    start = rng.choice(['/d/', '/d/', '/'])
    if site['a.test'][start]['kind'] != 'html':
        site['a.test'][start] = {'kind': 'html', 'links': []}
    site['a.test'][start]['links'] += [('/d/r1', False), (rng.choice(pool), False), ('http://b.test/y.html', False),
                                       (rng.choice(fpool), 'frame')]
    # a spider-trap sized URL whose telling part comes after 2048 / 4096 characters
    longp = '/d/' + 'L' * rng.choice([2040, 2100, 4100]) + '/secret-tail.html'
    site['a.test'][longp] = {'kind': 'leaf'}
    site['a.test'][start]['links'].append((longp, False))
    # URLs that keep failing with a retryable error: more often than any --tries in use allows
    site['a.test']['/d/flaky.html'] = {'kind': 'flaky', 'fails': rng.choice([1, 2, 3, 4, 5, 6])}
    site['a.test']['/d/flaky2.txt'] = {'kind': 'flaky', 'fails': rng.choice([3, 4, 6])}
    site['a.test'][start]['links'] += [('/d/flaky.html', False), ('/d/flaky2.txt', False)]
    for h in CR_HOSTKEYS:
        r = rng.random()
        if r < 0.5:
            site[h]['/robots.txt'] = {'kind': 'robots', 'body': 'User-agent: *\nDisallow: %s\n' % rng.choice(['/none', '/e/', '/d/sub/', '/'])}
    # what --sitemaps looks at: /sitemap.xml (and a second one named by robots.txt) listing pages in and outside the start
    # directory, on and off the start host, some of them linked from nowhere else
    site['a.test']['/e/only-in-sitemap.html'] = {'kind': 'html', 'links': [('/e/p4.html', False), ('/d/a.png', True)]}
    site['a.test']['/d/sm-listed.html'] = {'kind': 'leaf'}
    site['a.test']['/sitemap.xml'] = {'kind': 'sitemap', 'links': [(u, False) for u in
        ['http://a.test/e/only-in-sitemap.html', 'http://a.test/d/sm-listed.html'] + rng.sample(pool, 2)]}
    if rng.random() < 0.5:
        body = site['a.test'].get('/robots.txt', {'body': 'User-agent: *\nDisallow: /none\n'})['body']
        site['a.test']['/robots.txt'] = {'kind': 'robots', 'body': body + 'Sitemap: http://a.test/sm2.xml\n',
                                         'links': [('http://a.test/sm2.xml', False)]}
        site['a.test']['/sm2.xml'] = {'kind': 'sitemap', 'links': [(u, False) for u in ['http://a.test/cgi-bin/q', 'http://a.test/d/p2.html',
                                                                                       'http://b.test/y.html']]}
    return site, 'http://a.test' + start


def gen_crawl_extra(rng):
    """scope options from the whole set the model knows"""
    a = ['--no-check-certificate']
    if rng.random() < 0.85:
        a.append('-r')
    a += ['-l', rng.choice(['inf', 'inf', '1', '2', '3'])]
    if rng.random() < 0.5:
        a.append('-p')
    if rng.random() < 0.25:
        a += ['--page-requisites-level', rng.choice(['1', '2', 'inf'])]
    if rng.random() < 0.3:
        a.append('--no-parent')
    p = rng.choice([0.05, 0.12, 0.25])

    def on():
        return rng.random() < p
    if on():
        a += ['--accept-regex', rng.choice([r'test(:\d+)?/($|d|p)', r'\.html$|/$|png', r'^http:', r'a\.test'])]
    if on():
        a += ['--reject-regex', rng.choice([r'p[12]', r'/sub/', r'b\.test/y', r'^https', r'cgi', r'/on$', r'secret-tail', r'tail\.html$'])]
    if on():
        a += ['-A', rng.choice(['html', 'html,png', 'png,bmp', 'p?.html'])]
    if on():
        a += ['-R', rng.choice(['bmp', 'png,bmp', 'tmp[!0-9]', 'z.html,y.html', 'x'])]
    if on():
        a += ['-I', rng.choice(['/d,/d/*', '/d*', '/,/d,/e', '/e,/d/sub'])]
    if on():
        a += ['-X', rng.choice(['/e', '/cgi-bin*', '/d/sub*', '/d/p1.html', '/img'])]
    if on():
        a += ['-D', rng.choice(['a.test', 'test', 'b.test,a.test'])]
    if on():
        a += ['--exclude-domains', rng.choice(['b.test', 'www.a.test', 'a.test'])]
    if on():
        a += ['--hostnames', rng.choice(['a.test', 'a.test,b.test', 'a.test,www.a.test'])]
    if on():
        a += ['--exclude-hostnames', rng.choice(['b.test', 'www.a.test'])]
    r = rng.random()
    if r < 0.2:
        a.append('-H')
    elif r < 0.5:
        a += ['--span-hosts-allow', rng.choice(['page-requisites', 'linked-pages', 'linked-pages,page-requisites'])]
    if rng.random() < 0.04:
        a.append('--https-only')
    if rng.random() < 0.4:
        a += ['--tries', rng.choice(['1', '2', '3'])]
    if rng.random() < 0.3:
        a.append('--no-strong-redirects')
    if rng.random() < 0.75:
        a.append('--no-robots')
    if rng.random() < 0.25:
        a.append('--sitemaps')
    return a


def _cr_server(site):
    from appsim import Page, html
    out = {}
    for h, pages in site.items():
        out[h] = {}
        for t, p in pages.items():
            k = p['kind']
            if k == 'html':
                # link kind: False = <a href> (plain), True = <img src> (requisite), 'frame' = <iframe src> (embedded HTML document)
                body = html([r for r, i in p['links'] if not i], [r for r, i in p['links'] if i is True]).decode()
                frames = ''.join('<iframe src="%s"></iframe>' % r for r, i in p['links'] if i == 'frame')
                out[h][t] = Page(200, body.replace('</body>', frames + '</body>').encode())
            elif k == 'leaf':
                out[h][t] = Page(200, b'leaf data', ctype=p.get('ctype', 'text/plain'))
            elif k == 'robots':
                out[h][t] = Page(200, p['body'].encode(), ctype='text/plain')
            elif k == 'sitemap':
                body = ('<?xml version="1.0" encoding="UTF-8"?><urlset xmlns="http://www.sitemaps.org/schemas/sitemap/0.9">'
                        + ''.join('<url><loc>%s</loc></url>' % r for r, _ in p['links']) + '</urlset>')
                out[h][t] = Page(200, body.encode(), ctype='application/xml')
            elif k == 'redirect':
                out[h][t] = Page(p.get('code', 301), b'', location=p['location'])
            elif k == 'flaky':
                # a retryable server error for the first `fails` requests, then the document
                def flaky(entry, left=[p['fails']]):
                    if left[0] > 0:
                        left[0] -= 1
                        return Page(500, b'boom', ctype='text/plain')
                    return Page(200, b'finally', ctype='text/plain')
                out[h][t] = flaky
            else:
                out[h][t] = Page(404, b'nope', ctype='text/plain')
    return out


def _cr_url(entry):
    scheme = 'https' if entry['port'] in (443, 8443) else 'http'
    return '%s://%s%s' % (scheme, entry['host'], entry['target'])


def _cr_robots_url(u):
    ui = parse(u)
    return parse('%s://%s/robots.txt' % (ui.scheme, ui.hostname_with_port)).url


def _crawl_work(case):
    """One whole crawl of the real application (runs in a worker process) and its judgement material:
    for every page request the issuing item, its record, the hop number, the REAL standalone consult on the REAL
    filter list of the REAL parsed argv, the model request line, and the reference's opinion."""
    import multiprocessing as _mp
    import appsim
    import wpull.processor.web as pw
    from wpull.url import urljoin
    if _mp.current_process().name != 'MainProcess':
        appsim.quiet_stderr()
    site, start, extra, conc, seed = case['site'], case['start'], case['extra'], case['conc'], case['seed']
    merged = []
    orig_fetch_one = pw.WebProcessorSession._fetch_one

    def fetch_one(self, request):
        merged.append({'op': 'fetch', 'item': self._item_session.url_record.url, 'url': request.url_info.url})
        return orig_fetch_one(self, request)
    pw.WebProcessorSession._fetch_one = fetch_one
    import wpull.pipeline.session as ps
    orig_add_url = ps.ItemSession.add_url

    def add_url(self, url, *a, **k):
        # the true provenance of every queued URL: which item offered it (whatever record gets stored for it)
        merged.append({'op': 'link', 'item': self.url_record.url, 'url': url})
        return orig_add_url(self, url, *a, **k)
    ps.ItemSession.add_url = add_url
    try:
        res = appsim.run_crawl([start], _cr_server(site), seed=seed, concurrent=conc, extra=extra,
                               on_table_event=lambda ev: merged.append(dict(ev)), ports=CR_PORTS)
    finally:
        pw.WebProcessorSession._fetch_one = orig_fetch_one
        ps.ItemSession.add_url = orig_add_url
    args = parse_args(appsim.default_argv([start], 'x.db', 'out', conc, extra))
    hostnames = [parse(start).hostname]
    demux = real_build(args, hostnames)
    fenc = enc_filters(demux.url_filters)
    strong, robots = bool(args.strong_redirects), bool(args.robots)

    def page_of(u):
        ui = parse(u)
        t = ui.path + ('?' + ui.query if ui.query else '')
        return (site.get(ui.hostname_with_port) or {}).get(t, {'kind': 'missing'})
    def final_page(u, n=6):
        """the document an item ends at (after its redirects): that is where its links were scraped from"""
        pg = page_of(u)
        while pg['kind'] == 'redirect' and n:
            u = parse(urljoin(u, pg['location'])).url
            pg, n = page_of(u), n - 1
        return u, pg

    def link_kinds(parent, child):
        base, pg = final_page(parent)
        kinds = set()
        for raw, kind in pg.get('links', []):
            try:
                if parse(urljoin(base, raw)).url == child:
                    kinds.add(bool(kind))
            except ValueError:
                pass
        if not kinds and args.sitemaps:
            # --sitemaps: robots.txt and sitemap.xml of the origin are (plain) links of every command-line URL
            pu = parse(parent)
            if child in (parse('%s://%s/robots.txt' % (pu.scheme, pu.hostname_with_port)).url,
                         parse('%s://%s/sitemap.xml' % (pu.scheme, pu.hostname_with_port)).url):
                kinds.add(False)
        return kinds
    added, out_rec, hops, fetched_items = {}, {}, {}, set()
    true_rec = {parse(start).url: {'level': 0, 'inline_level': None, 'parent_url': None, 'root_url': None}}
    fetches, candidates, skips, checkouts, children = [], [], [], [], []
    with CallLog() as log:
        def judge_one(url, rec, flag, trec):
            rep, verdict, reason, failed = real_consult(demux, url, rec, flag, log)
            line = 'filter test %s %s %s %s %s' % (fenc, enc_info(parse(url)), enc_rec(rec), enc_bool(flag), log.tables())
            # the reference judges under the record the PROPERTY implies (true link kind along the path), not the stored one
            return {'url': url, 'record': rec, 'true_record': trec, 'flag': flag, 'real': rep, 'line': line,
                    'broken': _justified(args, hostnames, url, trec, flag)}

        visits = {}       # item URL -> visits seen ON THE WIRE so far (check-outs in which the item URL was requested)
        cur_co = {}       # item URL -> index of its current check-out
        cur_try = {}      # item URL -> that number at its current check-out (constant during one visit)

        def true_of(u, rec):
            t = true_rec.get(u)
            base = dict(rec, try_count=cur_try.get(u, 0))    # the retry limit counts visits, whatever the table stored
            return dict(base, level=t['level'], inline_level=t['inline_level'], parent_url=t['parent_url'],
                        root_url=t['root_url']) if t else base
        first_batch = True
        pending = {}
        for e in merged:
            op = e['op']
            if op == 'link':
                try:
                    pending.setdefault(e['item'], []).append(parse(e['url']).url)
                except ValueError:
                    pass
            elif op == 'add_many':
                burls = [b['url'] for b in e['batch']]
                # whose batch is this?  the item whose not yet flushed offers begin with exactly these URLs
                owner = None
                if burls and not first_batch:
                    for it, lst in pending.items():
                        if [parse(x).url for x in burls] == lst[:len(burls)]:
                            owner = it
                            del lst[:len(burls)]
                            break
                for b in e['batch']:
                    if b['url'] in e['inserted'] and b['url'] not in added:
                        added[b['url']] = b
                        if first_batch:
                            true_rec.setdefault(b['url'], {'level': 0, 'inline_level': None, 'parent_url': None, 'root_url': None})
                            continue
                        par = owner or b.get('parent')
                        kinds = link_kinds(par, b['url']) if par else set()
                        pt, pst = true_rec.get(par), out_rec.get(par)
                        if len(kinds) != 1 or pt is None or pst is None or pt.get('ambiguous'):
                            # linked both ways from one page / not a link of the generated page: take the stored record
                            true_rec[b['url']] = {'level': b.get('level'), 'inline_level': b.get('inline_level'),
                                                  'parent_url': b.get('parent'), 'root_url': b.get('root'), 'ambiguous': True}
                            continue
                        inline = kinds.pop()
                        true_rec[b['url']] = {'level': pt['level'] + 1,
                                              'inline_level': ((pt['inline_level'] or 0) + 1) if inline else None,
                                              'parent_url': par, 'root_url': pt['root_url'] or par}
                        children.append({'parent': par, 'parent_level': pst['level'], 'parent_inline': pst['inline_level'],
                                         'inline': inline, 'child': b['url'], 'level': b.get('level'), 'inline_level': b.get('inline_level'),
                                         'stored_parent': b.get('parent'), 'stored_root': b.get('root'),
                                         'want_parent': par, 'want_root': pst['root_url'] or par})
                first_batch = False
            elif op == 'check_out' and e.get('got'):
                u = e['got']
                b = added.get(u, {})
                out_rec[u] = {'parent_url': b.get('parent'), 'root_url': b.get('root'), 'level': e['level'],
                              'inline_level': e['inline_level'], 'try_count': e['try_count']}
                hops[u] = 0
                cur_try[u] = visits.get(u, 0)
                fetched_items.discard(u)
                j = judge_one(u, out_rec[u], False, true_of(u, out_rec[u]))
                cur_co[u] = len(checkouts)
                checkouts.append(j)
                candidates.append(j)
            elif op == 'fetch':
                item = e['item']
                rec = out_rec.get(item)
                if rec is None:
                    fetches.append({'url': e['url'], 'item': item, 'hop': -1, 'unattributed': True})
                    continue
                hop = hops[item]
                hops[item] += 1
                fetched_items.add(item)
                j = judge_one(e['url'], rec, hop > 0 and strong, true_of(item, rec))
                j.update(item=item, hop=hop)
                fetches.append(j)
                if hop == 0:
                    visits[item] = visits.get(item, 0) + 1
                pg = page_of(e['url'])
                if pg['kind'] == 'redirect':
                    tgt = parse(urljoin(e['url'], pg['location'])).url
                    candidates.append(judge_one(tgt, rec, strong, true_of(item, rec)))
            elif op == 'check_in':
                if e['status'] == 'skipped' and e['url'] in out_rec and e['url'] not in fetched_items:
                    skips.append(cur_co[e['url']])
    requests = [parse(_cr_url(r)).url for r in res.requests]
    return {'fetches': fetches, 'candidates': [{'url': c['url'], 'broken': c['broken']} for c in candidates],
            'checkouts': [{'url': c['url'], 'broken': c['broken'], 'record': c['record']} for c in checkouts], 'skips': skips,
            'requests': requests, 'robots': robots, 'strong': strong, 'hung': res.hung, 'exit_code': res.exit_code,
            'error': res.error, 'argv': ['<start>'] + list(extra), 'nrows': len(res.rows), 'children': children}


def run_crawl_cases(ctx, cases):
    import concurrent.futures as cf
    import multiprocessing as mp
    if len(cases) <= 2:
        results = [_crawl_work(c) for c in cases]
    else:
        with cf.ProcessPoolExecutor(max_workers=min(ctx.jobs, len(cases)), mp_context=mp.get_context('fork')) as ex:
            results = list(ex.map(_crawl_work, cases, chunksize=1))
    lines = [f['line'] for r in results for f in r['fetches'] if 'line' in f]
    lines += ['filter httpchild %s %d %s' % ('None' if ch['parent_inline'] is None else ch['parent_inline'], ch['parent_level'],
                                            enc_bool(ch['inline'])) for r in results for ch in r['children']]
    all_replies = ctx.model.ask(lines)
    nfetch = len([1 for r in results for f in r['fetches'] if 'line' in f])
    replies = iter(all_replies[:nfetch])
    child_replies = iter(all_replies[nfetch:])
    child_reply_of = {}
    for ri, r in enumerate(results):
        for ci, ch in enumerate(r['children']):
            child_reply_of[(ri, ci)] = next(child_replies)
    for ri, (c, r) in enumerate(zip(cases, results)):
        case = dict(c, stream='crawl')
        npages = len(r['fetches'])
        # ---- the record stored for every scraped link = the model's child record for the link's kind
        for ci, ch in enumerate(r['children']):
            real = '%s %s' % (ch['level'], 'None' if ch['inline_level'] is None else ch['inline_level'])
            if child_reply_of[(ri, ci)] != real or ch['stored_parent'] != ch['want_parent'] or ch['stored_root'] != ch['want_root']:
                ctx.disagree('httpchild', dict(case, link=ch),
                             '%s parent=%s root=%s' % (child_reply_of[(ri, ci)], ch['want_parent'], ch['want_root']),
                             '%s parent=%s root=%s' % (real, ch['stored_parent'], ch['stored_root']))
        if any(ch['parent'].endswith(('/sitemap.xml', '/sm2.xml')) for ch in r['children']):
            ctx.tag('crawl:links-from-sitemap')
        if any(ch['child'].endswith('/sitemap.xml') for ch in r['children']):
            ctx.tag('crawl:sitemap-queued')
        if any(f['url'].endswith('/sitemap.xml') for f in r['fetches']):
            ctx.tag('crawl:sitemap-requested')
        if any(len(f['url']) > 2048 for f in r['fetches']):
            ctx.tag('crawl:long-url-requested')
        if any(ch['inline'] and ch['parent_inline'] for ch in r['children']):
            ctx.tag('crawl:nested-requisite')
        if any((not ch['inline']) and ch['parent_inline'] for ch in r['children']):
            ctx.tag('crawl:plain-link-in-embedded-doc')
        offsite = len([f for f in r['fetches'] if parse(f['url']).hostname != CR_A])
        ctx.case(('crawl', json.dumps(c, sort_keys=True)), nontrivial=npages >= 2,
                 tags=['crawl:pages=%s' % ('0-1' if npages < 2 else '2-5' if npages < 6 else '6-15' if npages < 16 else '16+'),
                       'crawl:workers=%d' % c['conc'], 'crawl:offsite-requests=%s' % ('0' if not offsite else '1+'),
                       'crawl:redirect-hops=%s' % ('0' if not any(f.get('hop', 0) > 0 for f in r['fetches']) else '1+'),
                       'crawl:robots=%s' % enc_bool(r['robots'])])
        if r['hung'] or r['error'] or r['exit_code'] is None:
            # the run itself is C01/C09's business; here it only means there is no complete trace to judge
            ctx.tag('crawl:incomplete-run')
        # ---- every page request: model verdict + reference
        for f in r['fetches']:
            if f.get('unattributed'):
                ctx.fail('out-of-scope-request', 'crawl', case, 'request for %s by item %s that was never checked out' % (f['url'], f['item']))
                continue
            rep = next(replies)
            what = {'request': f['url'], 'item': f['item'], 'hop': f['hop'], 'record': f['record'],
                    'true_record': f['true_record'], 'is_redirect': f['flag']}
            if rep != f['real']:
                ctx.disagree('crawl', dict(case, **what), rep, f['real'])
            elif rep.split(' ')[2] != 'T':
                ctx.disagree('crawl', dict(case, **what), rep, 'the crawl requested %s' % f['url'])
            if f['broken']:
                ctx.fail('out-of-scope-request', 'crawl', dict(case, **what),
                         'the crawl requested %s (hop %d of item %s; stored record %s; record by link kind along the path %s) which breaks %s'
                         % (f['url'], f['hop'], f['item'], f['record'], f['true_record'], f['broken']))
        # ---- every request line of the server log is one of those page requests, or an exempt robots.txt
        pool = {}
        for f in r['fetches']:
            pool[f['url']] = pool.get(f['url'], 0) + 1
        for u in r['requests']:
            if pool.get(u, 0) > 0:
                pool[u] -= 1
                continue
            if u.endswith('/robots.txt') and r['robots'] and \
                    any(_cr_robots_url(cnd['url']) == u and not cnd['broken'] for cnd in r['candidates']):
                ctx.tag('crawl:robots-exempt')
                continue
            ctx.fail('out-of-scope-request', 'crawl', dict(case, request=u),
                     'the server received %s: not a page request of a checked-out item and not the robots.txt of an origin being visited' % u)
        # ---- converse (cheap): in scope at check-out, yet skipped without any request
        if not r['robots']:
            for i in r['skips']:
                co = r['checkouts'][i]
                if not co['broken']:
                    ctx.disagree('crawl-skip', dict(case, item=co['url'], record=co['record']), 'reference: in scope',
                                 'skipped without a request')
    if cases:
        ctx.sample({'stream': 'crawl', 'start': cases[0]['start'], 'extra': cases[0]['extra'], 'workers': cases[0]['conc'],
                    'requests': results[0]['requests'][:12]})


def gen_crawl_case(rng):
    site, start = gen_crawl_site(rng)
    return {'site': site, 'start': start, 'extra': gen_crawl_extra(rng), 'conc': rng.choice([1, 1, 2, 3]),
            'seed': rng.randrange(1 << 30)}


# ------------------------------------------------------------------ source scan: every request call is dominated by a consultation
FETCH_ATTRS = {'start', 'start_listing', 'fetch'}
CONSULT_ATTRS = {'consult_filters', 'check_ftp_request', 'check_generic_request', 'check_subsequent_web_request',
                 'check_initial_web_request'}
# local helpers that stand for a consultation, and what they must (transitively) call
CONSULT_HELPERS = {'_should_fetch_reason': 'check_subsequent_web_request',
                   '_should_fetch_reason_with_robots': 'check_initial_web_request',
                   '_is_request_accepted': 'consult_filters'}


def _calls(node):
    for n in ast.walk(node):
        if isinstance(n, ast.Call) and isinstance(n.func, ast.Attribute):
            yield n


def _guarded_before(func, line, consults):
    """is there, in `func` before `line`, a consultation whose negative verdict leaves (return/break/continue/raise)?"""
    cl = [c.lineno for c in _calls(func) if c.func.attr in consults and c.lineno < line]
    if not cl:
        return False
    first = min(cl)
    for n in ast.walk(func):
        if isinstance(n, ast.If) and first <= n.lineno < line and isinstance(n.test, ast.UnaryOp) and isinstance(n.test.op, ast.Not):
            if isinstance(n.body[-1], (ast.Return, ast.Break, ast.Continue, ast.Raise)) and n.body[-1].end_lineno < line:
                return True
    return False


def scan_source(path):
    """-> (list of (function, line, attr, how-guarded), list of unguarded (function, line, attr))"""
    with open(path, encoding='utf-8') as f:
        tree = ast.parse(f.read())
    ok, bad = [], []
    for cls in [n for n in tree.body if isinstance(n, ast.ClassDef)]:
        funcs = {n.name: n for n in cls.body if isinstance(n, ast.FunctionDef)}
        consults = set(CONSULT_ATTRS)
        for h, must in CONSULT_HELPERS.items():
            if h in funcs and any(c.func.attr == must for c in _calls(funcs[h])):
                consults.add(h)

        def guarded(fname, line, depth=0):
            if _guarded_before(funcs[fname], line, consults):
                return 'in ' + fname
            if depth >= 3:
                return None
            sites = [(g, c.lineno) for g, fn in funcs.items() for c in _calls(fn)
                     if c.func.attr == fname and isinstance(c.func.value, ast.Name) and c.func.value.id == 'self']
            if not sites:
                return None
            hows = [guarded(g, l, depth + 1) for g, l in sites]
            return 'callers: ' + '; '.join(hows) if all(hows) else None
        for fname, fn in funcs.items():
            for c in _calls(fn):
                if c.func.attr in FETCH_ATTRS:
                    how = guarded(fname, c.lineno)
                    (ok if how else bad).append((cls.name + '.' + fname, c.lineno, c.func.attr, how))
    return ok, bad


def ast_scan(ctx):
    found = {}
    for rel, minimum in (('wpull/processor/web.py', 1), ('wpull/processor/ftp.py', 3)):
        ok, bad = scan_source(os.path.join(ctx.repo, rel))
        found[rel] = ['%s:%d .%s() %s' % o for o in ok]
        ctx.case(('astscan', rel, tuple(found[rel])), tags=['astscan:calls=%d' % (len(ok) + len(bad))])
        for fn, line, attr, _ in bad:
            ctx.fail('unguarded-request', rel.split('/')[-1] + ':' + fn.split('.')[-1], {'stream': 'astscan', 'file': rel},
                     '%s line %d: .%s() is not dominated by a filter consultation with an exit on a negative verdict' % (fn, line, attr))
        if len(ok) + len(bad) < minimum:
            ctx.fail('unguarded-request', rel.split('/')[-1] + ':scan', {'stream': 'astscan', 'file': rel},
                     'the scan found %d request calls, expected at least %d: the scan no longer sees the request sites' % (len(ok) + len(bad), minimum))
    ctx.note('astscan', found)


# ------------------------------------------------------------------ entry points
def load_corpus(ctx):
    out = []
    for p in sorted(glob.glob(os.path.join(ctx.verif, 'harness', 'corpus', 'C02', '*.json'))):
        with open(p) as f:
            out.append(unjson(json.load(f)))
    return out


# ------------------------------------------------------------------ the same command run again on the same database
def run_resume_cases(ctx, n):
    """A crawl killed part-way and resumed with the same command on the same --database must stay inside the scope of
    that command: every request of either run must be one the uninterrupted crawl makes (the crawls are deterministic
    and the sites static).  Uses the kill/rerun machinery of the C03 engine; oracle only."""
    import concurrent.futures as cf
    import multiprocessing as mp
    from engines import c03
    from engines import crawl_common as cc
    rng = ctx.subrng('resume')
    jobs = []
    for i in range(n):
        site = cc.gen_site(rng, size=rng.randint(3, 6), offsite=True)
        # off-site links on several pages, so that a foreign host is already known to the table when the rerun starts
        htmls = [p for p, d in site.pages.items() if d['kind'] == 'html']
        for p in htmls[:3]:
            site.pages[p]['links'].append(('http://%s/%s' % (cc.OTHER, rng.choice(['', 'x'])), False))
        opts = cc.gen_options(rng, levelfree=True)
        opts.pop('input_file', None)
        desc = site.describe()
        seed = rng.randrange(1 << 30)
        conc = rng.choice([1, 2])
        rc, ex, full = c03.count_points(desc, opts, conc, seed)
        if rc != 0 or ex is None:
            continue
        commits = ex['counters']['commit']
        for k in sorted(set(rng.sample(range(1, commits + 1), min(commits, 8)))):
            jobs.append((desc, opts, conc, seed, ('commit', k), full))
    if not jobs:
        return
    with cf.ProcessPoolExecutor(max_workers=min(ctx.jobs, len(jobs)), mp_context=mp.get_context('fork')) as ex_:
        results = list(ex_.map(c03.one_kill, [j[:5] for j in jobs]))
    for (desc, opts, conc, seed, kill, full), r in zip(jobs, results):
        case = {'stream': 'resume', 'site': desc, 'opts': opts, 'conc': conc, 'seed': seed, 'kill': list(kill)}
        ctx.case(json.dumps(case, sort_keys=True, default=str), nontrivial=r['killed'], tags=['resume:' + ('killed' if r['killed'] else 'completed')])
        if not r['killed']:
            continue
        allowed = {cc.norm(u, '') or u for u in full}
        extra = sorted({cc.norm(u, '') or u for u in r['req1'] + r['req2']} - allowed)
        if extra:
            ctx.fail('out-of-scope-request', 'resumed-crawl', case,
                     'the killed run and its rerun requested URLs the uninterrupted crawl never requests: %s' % extra[:5])


def replay(ctx, case, kind=None, where=None):
    s = case.get('stream', 'test')
    with CallLog() as log:
        if s == 'test':
            run_tests(ctx, [case], log)
        elif s == 'rawtest':
            run_rawtests(ctx, [case], log)
        elif s == 'similar':
            stream_similar(ctx, [(case['a'], case['b'])])
        elif s == 'subdir':
            stream_subdir(ctx, [(case['base'], case['test'], case['trailing_slash'], case['wildcards'])], log)
        elif s == 'commalist':
            stream_commalist(ctx, [case['string']])
        elif s == 'tablevisits':
            stream_tablevisits(ctx, [(case['tries'], case['plan'])])
        elif s == 'web':
            run_web_cases(ctx, [case], log)
        elif s == 'ftp':
            run_ftp_cases(ctx, [case], log)
        elif s == 'ftpcrawl':
            run_ftp_crawls(ctx, [{k: case[k] for k in ('argv', 'hostnames', 'url', 'glob')}], log)
        elif s == 'resume':
            from engines import c03
            from engines import crawl_common as cc
            rc, ex, full = c03.count_points(case['site'], case['opts'], case['conc'], case['seed'])
            r = c03.one_kill((case['site'], case['opts'], case['conc'], case['seed'], tuple(case['kill'])))
            ctx.case(('resume', case['seed'], tuple(case['kill'])))
            extra = sorted({cc.norm(u, '') or u for u in r['req1'] + r['req2']} - {cc.norm(u, '') or u for u in full})
            if extra:
                ctx.fail('out-of-scope-request', 'resumed-crawl', case, 'requested only by the killed run / its rerun: %s' % extra[:5])
        elif s == 'crawl':
            case = dict(case)
            case['site'] = {h: {t: (dict(p, links=[tuple(l) for l in p['links']]) if 'links' in p else p) for t, p in ps.items()}
                            for h, ps in case['site'].items()}
            run_crawl_cases(ctx, [{k: case[k] for k in ('site', 'start', 'extra', 'conc', 'seed')}])
        elif s == 'astscan':
            ast_scan(ctx)
        elif s == 'assumption':
            run_assumptions(ctx)
        else:
            raise Infra('unknown replay stream %r' % s)


def run_assumptions(ctx):
    """`check_subsequent_web_request` overrides the verdict with True for items whose `is_virtual` is truthy (proxy
    coprocessor).  For an ordinary crawl item it must be falsy - read the way the code reads it (`if item.is_virtual:`)
    on a REAL ItemSession.  A broken assumption is reported, and the session / crawl streams then show the requests."""
    from wpull.pipeline.session import ItemSession
    try:
        v = ItemSession(types.SimpleNamespace(factory={}), make_record('http://a.example/', {'level': 0, 'try_count': 0})).is_virtual
        truthy = bool(v)
    except Exception as e:          # noqa
        truthy, v = True, 'raises %s' % type(e).__name__
    ctx.case(('assumption', 'is_virtual', repr(v)[:40]), nontrivial=False, tags=['assumption:is_virtual=%s' % truthy])
    if truthy:
        ctx.fail('assumption', 'is_virtual', {'stream': 'assumption'},
                 '`if item_session.is_virtual:` is taken for an ordinary crawl item (value %r): check_subsequent_web_request '
                 'then accepts every redirect target and retry whatever the filters say' % (v,))


def run(ctx):
    run_assumptions(ctx)
    ast_scan(ctx)
    for case in load_corpus(ctx):
        replay(ctx, case['case'] if 'case' in case else case)
    rng = ctx.rng
    with CallLog() as log:
        # small pure predicates
        pool = ['http', 'https', 'ftp', 'email', '', 'HTTP', 'gopher']
        stream_similar(ctx, [(a, b) for a in pool for b in pool])
        paths = ['/profile/blog', '/profile/blog/', '/profile/blog/123', '/profile/photo', '/profile/blog-*-', '/profile/blog-1-/',
                 '/profile/', '/', '', 'a', 'a/', '/a//', '//', '/a/b/c', '/a/b', '/a/bc', '*', '/*', 'x@y']
        sub = [(b, t, ts, wc) for b in paths for t in paths for ts in (False, True) for wc in (False, True)]
        for _ in range(ctx.scale(300, 5000)):
            def rp():
                return ''.join(rng.choice(['/', '/', 'a', 'b', '*', 'ab', '?']) for _ in range(rng.randrange(0, 7)))
            sub.append((rp(), rp(), rng.random() < 0.5, rng.random() < 0.5))
        stream_subdir(ctx, sub, log)
        # option value -> list
        strs = ['', ' ', ',', 'a', ' a', 'a ', 'a,b', 'a, b', 'a ,b', ' a , b ', 'a,,b', 'a,', ',a', 'a, ', 'a,\tb', 'a,\u00a0b', 'a,\u2003b\u2003',
                '*.exe, *.zip', 'tracker.test, ads.test', 'a b, c d', ', ,', 'a,\x1fb', 'a,\x0bb']
        for _ in range(ctx.scale(300, 5000)):
            strs.append(''.join(rng.choice(['a', 'b', '.x', ',', ',', ' ', ' ', '\t', '*', '\u00a0', '\x85', '/'])
                                for _ in range(rng.randrange(0, 10))))
        stream_commalist(ctx, strs)
        # the retry limit over a long history of one URL, through the real table
        tv = [(t, ['error'] * n) for t in (0, 1, 2, 3, 5, 20) for n in (1, 2, 3, 4, 6, 22)]
        for _ in range(ctx.scale(40, 400)):
            tv.append((rng.choice([1, 2, 3, 4]), [rng.choice(['error', 'error', 'error', 'done', 'skipped']) for _ in range(rng.randrange(1, 9))]))
        stream_tablevisits(ctx, tv)
        # option -> filters -> verdict
        run_tests(ctx, boundary_cases(rng), log)
        n = ctx.scale(20000, 400000)
        chunk = 4000
        for start in range(0, n, chunk):
            run_tests(ctx, [gen_case(rng) for _ in range(min(chunk, n - start))], log)
        n = ctx.scale(5000, 80000)
        for start in range(0, n, chunk):
            run_rawtests(ctx, [gen_raw_case(rng) for _ in range(min(chunk, n - start))], log)
        # part (b): the real processor sessions
        web, ftp = fixed_session_cases()
        srng = ctx.subrng('sessions')
        run_web_cases(ctx, web + [gen_web_case(srng) for _ in range(ctx.scale(600, 8000))], log)
        run_ftp_cases(ctx, ftp + [gen_ftp_case(srng) for _ in range(ctx.scale(450, 6000))], log)
        run_ftp_crawls(ctx, fixed_ftp_crawl_cases() + [gen_ftp_crawl_case(srng) for _ in range(ctx.scale(40, 600))], log)
    # part (b) end to end: whole crawls of the real application
    crng = ctx.subrng('crawl')
    ccases = [gen_crawl_case(crng) for _ in range(ctx.scale(34, 1000))]
    # the rules that are relaxed for page requisites, on sites whose embedded documents carry plain links
    for extra in (['-r', '-p', '--no-parent'], ['-r', '-p', '--span-hosts-allow', 'page-requisites'], ['-r', '-p', '-l', '1'],
                  ['-r', '--no-parent', '--sitemaps'], ['--sitemaps'], ['-r', '-l', '1', '--sitemaps']):
        for _ in range(ctx.scale(2, 10)):
            cc_ = gen_crawl_case(crng)
            cc_['extra'] = ['--no-check-certificate', '--no-robots'] + extra
            cc_['start'] = 'http://a.test/d/'
            if cc_['site']['a.test']['/d/']['kind'] != 'html':
                cc_['site']['a.test']['/d/'] = {'kind': 'html', 'links': []}
            cc_['site']['a.test']['/d/']['links'] += [('/d/f1.html', 'frame'), ('http://b.test/fr.html', 'frame')]
            ccases.append(cc_)
    # redirects from an in-scope page into every kind of excluded territory: the in-loop check must apply the
    # FULL filter set to a redirect target, minus exactly the span-hosts rule under strong redirects
    for extra, target in ((['--no-strong-redirects'], 'http://b.test/y.html'), (['--exclude-domains', 'b.test'], 'http://b.test/y.html'),
                          (['--exclude-hostnames', 'www.a.test'], 'http://www.a.test/d/w1.html'), (['-X', '/e'], '/e/p4.html'),
                          (['--no-parent'], '/p5.html'), (['--reject-regex', 'p5'], '/p5.html'), (['-R', 'bmp'], '/d/c.bmp'),
                          (['--reject-regex', '^https'], 'https://a.test:8443/d/s1.html'), (['-I', '/d'], '/e/p4.html'),
                          (['-D', 'a.test'], 'http://b.test/x'), (['--reject-regex', 'secret-tail'], '/p5.html'),
                          (['--accept-regex', r'test/d/($|p|s|r|[a-z0-9.]*$)'], '/p5.html')):
        cc_ = gen_crawl_case(crng)
        cc_['extra'] = ['--no-check-certificate', '--no-robots', '-r'] + extra
        cc_['start'] = 'http://a.test/d/'
        if cc_['site']['a.test']['/d/']['kind'] != 'html':
            cc_['site']['a.test']['/d/'] = {'kind': 'html', 'links': []}
        cc_['site']['a.test']['/d/rx.html'] = {'kind': 'redirect', 'location': target, 'code': crng.choice([301, 302, 303, 307, 308])}
        cc_['site']['a.test']['/d/']['links'].append(('/d/rx.html', False))
        cc_['site']['a.test']['/d/']['links'] += [(t, False) for t in cc_['site']['a.test'] if 'secret-tail' in t]
        ccases.append(cc_)
    run_crawl_cases(ctx, ccases)
    run_resume_cases(ctx, ctx.scale(3, 40))


def search(ctx):
    rng = ctx.subrng('search')
    with CallLog() as log:
        run_tests(ctx, boundary_cases(rng), log)
        for _ in range(3):
            run_tests(ctx, [gen_case(rng) for _ in range(ctx.scale(300, 1000))], log)
        run_rawtests(ctx, [gen_raw_case(rng) for _ in range(ctx.scale(300, 1000))], log)
        run_web_cases(ctx, [gen_web_case(rng) for _ in range(ctx.scale(100, 300))], log)
        run_ftp_cases(ctx, [gen_ftp_case(rng) for _ in range(ctx.scale(100, 300))], log)
        run_ftp_crawls(ctx, [gen_ftp_crawl_case(rng) for _ in range(ctx.scale(20, 60))], log)
    run_crawl_cases(ctx, [gen_crawl_case(rng) for _ in range(ctx.scale(2, 6))])
