"""C02 — No request is ever made for a URL outside the configured scope.

Streams (model `Wpull.Filter` vs the real code in the wpull checkout):
  similar   wpull.url.schemes_similar                                   function level
  subdir    wpull.url.is_subdir (fnmatch result logged from the real call)
  build     real AppArgumentParser -> real URLFiltersSetupTask._build_url_filters +
            real URLFiltersPostURLImportSetupTask  vs  model buildFilters
  test      real FetchRule.consult_filters / DemuxURLFilter.test_info on the REAL filter
            list built from a generated command line, generated (url, record, is_redirect)
  rawtest   the same on hand-assembled filter lists (duplicates, no span-hosts filter, ...)
  web/ftp   the real WebProcessorSession / FTPProcessorSession driven over an in-memory
            network; requests seen by the servers vs the model's session skeleton
  astscan   every fetch/start call in processor/web.py, processor/ftp.py is dominated
            by a filter consultation (source scan)
Direct oracle: `reference_scope`, an independent predicate written from the
property's wording, evaluated on every accepted (url, record, options).
"""
import ast
import asyncio
import fnmatch as _fnmatch
import glob
import json
import os
import re as _re
import types

import compat  # noqa: F401
import fakenet
from runner import enc, Infra, unjson

RULE = ('test: command lines generated option by option (each scope option on/off, parameters from pools with '
        'suffix/prefix traps and wildcard patterns) parsed by the real AppArgumentParser; URLs from a small host/path '
        'grammar (3 schemes + non-network ones, ports, sub-domains, look-alike hosts, directories/files/suffixes); '
        'records with level / inline level / try count placed on the boundaries of the chosen limits (n-1, n, n+1, n+2, n+3), '
        'parent and root URLs on same / other hosts and schemes. non-trivial = at least one non-default scope option or a '
        'record beyond level 0; distinct by (argv, hostnames, url, record, is_redirect). '
        'web/ftp: real processor sessions against scripted servers with redirects to other hosts and out-of-scope paths.')
TRUSTED = ['the `re` engine and `fnmatch` are oracles of the model: their results are logged from the real calls and handed to the model',
           'URL parsing (URLInfo.parse) is engine Url\'s business: filters receive the parsed fields',
           'harness/fakenet.py in-memory transports (web/ftp session streams)']
ASSUMPTIONS = ['the plugin hook accept_url is disconnected (default); a connected hook may override any verdict by design',
               'ItemSession.is_virtual is False for crawl items (checked on the real class each run)',
               'robots.txt fetches (including their own redirects) are the documented exception and belong to C20',
               'records come from the URL table: level and try_count are ints, parent_url/root_url are None or parseable URLs']
UNPROVED = []

HOSTS = ['a.example', 'www.a.example', 'xa.example', 'b.example', 'sub.b.example', 'c.test', 'a.example.evil.test']
SCHEMES = ['http', 'http', 'http', 'https', 'ftp']
SEGS = ['a', 'b', 'blog', 'blog-1-', 'img', 'cgi-bin', 'a.b', 'private', 'x y']
FILES = ['', '', 'x.html', 'y.png', 'z.bmp', 'image.123.png', 'image.1003.png', 'pic.jpe', 'pic.jpg', 'f.php', 'tmpa', 'tmp1',
         'index', 'a*b', 'q.html.bmp', 'xyz', 'Xb']
DOMAIN_POOL = ['a.example', 'example', '.example', 'b.example', 'c.test', 'test', '', 'evil.test', 'sub.b.example']
REGEX_POOL = [r'\.html$', 'blog', '^https', '/img/', r'a\.example', '[0-9]+', '(?i)PNG', r'^ftp://', '/$', r'\?', 'example/(a|b)/', '.']
DIR_POOL = ['/blog', '/blog/', '/img*', '/a/b', '*/cgi-bin', '/blog-*-', '', '/', '/a', 'a', '/private*', '/*/b', '/[ab]']
SUFFIX_POOL = ['html', 'png', 'bmp', 'jp[eg]', 'image.*.png', '*.php', 'tmp[!0-9]', 'x?z', '', 'b', '.html', 'HTML', '[!a]']


# ------------------------------------------------------------------ encoding for the driver
def enc_opt_str(s):
    return 'None' if s is None else '=' + enc(s)


def enc_lists(l):
    l = list(l or [])
    return '~' if not l else '/'.join(enc(x) for x in l)


def enc_bool(b):
    return 'T' if b else 'F'


def info_fields(ui):
    return {'scheme': ui.scheme, 'hostname': ui.hostname, 'port': ui.port, 'path': ui.path, 'url': ui.url}


def enc_info(ui):
    if ui is None:
        return 'None'
    f = ui if isinstance(ui, dict) else info_fields(ui)
    return ','.join([enc(f['scheme'] or ''), enc_opt_str(f['hostname']),
                     'None' if f['port'] is None else str(f['port']), enc(f['path'] or ''), enc(f['url'])])


def parse(url):
    from wpull.url import URLInfo
    return URLInfo.parse(url)


def enc_rec(rec):
    p = parse(rec['parent_url']) if rec.get('parent_url') else None
    r = parse(rec['root_url']) if rec.get('root_url') else None
    il = rec.get('inline_level')
    return '|'.join([enc_info(p), enc_info(r), str(rec['level']), 'None' if il is None else str(il), str(rec['try_count'])])


def make_record(url, rec):
    from wpull.pipeline.item import URLRecord
    r = URLRecord()
    r.url = url
    r.parent_url = rec.get('parent_url')
    r.root_url = rec.get('root_url')
    r.level = rec['level']
    r.inline_level = rec.get('inline_level')
    r.try_count = rec['try_count']
    return r


def _elems(x):
    """the elements Python iterates over (a str option value iterates as characters)"""
    return [] if x is None else list(x)


def enc_filter(f):
    """canonical protocol form of a REAL filter object (reads its private fields)"""
    n = type(f).__name__
    d = f.__dict__
    if n == 'SchemeFilter':
        return 'scheme:' + enc_lists(d['_allowed'])
    if n == 'HTTPSOnlyFilter':
        return 'https'
    if n == 'FollowFTPFilter':
        return 'ftp:' + enc_bool(d['_follow'])
    if n == 'BackwardDomainFilter':
        return 'bd:%s:%s' % (enc_lists(d['_accepted']), enc_lists(d['_rejected']))
    if n == 'HostnameFilter':
        return 'hn:%s:%s' % (enc_lists(d['_accepted']), enc_lists(d['_rejected']))
    if n == 'RecursiveFilter':
        return 'rec:%s:%s' % (enc_bool(d['_enabled']), enc_bool(d['_page_requisites']))
    if n == 'LevelFilter':
        return 'lvl:%d:%d' % (d['_depth'] or 0, d['_inline_max_depth'] or 0)
    if n == 'TriesFilter':
        return 'tries:%d' % (d['_tries'] or 0)
    if n == 'ParentFilter':
        return 'parent'
    if n == 'SpanHostsFilter':
        return 'span:%s:%s:%s:%s' % (enc_lists(d['_hostnames']), enc_bool(d['_enabled']),
                                     enc_bool(d['_page_requisites']), enc_bool(d['_linked_pages']))
    if n == 'RegexFilter':
        return 're:%s:%s' % (enc(d['_accepted'] or ''), enc(d['_rejected'] or ''))
    if n == 'DirectoryFilter':
        return 'dir:%s:%s' % (enc_lists(d['_accepted']), enc_lists(d['_rejected']))
    if n == 'BackwardFilenameFilter':
        return 'bf:%s:%s' % (enc_lists(_elems(d['_accepted'])), enc_lists(_elems(d['_rejected'])))
    return 'unknown-' + n


def enc_filters(fs):
    fs = list(fs)
    return '~' if not fs else ';'.join(enc_filter(f) for f in fs)


# ------------------------------------------------------------------ logging of the oracle calls
class _Translated(str):
    suffix = None


class CallLog:
    """Replaces the names `re` / `fnmatch` inside wpull.urlfilter and `fnmatch` inside wpull.url
    by logging pass-through proxies (module-namespace override; wpull's code is untouched)."""

    def __init__(self):
        self.re, self.fn, self.sfx = [], [], []

    def clear(self):
        self.re, self.fn, self.sfx = [], [], []

    def tables(self):
        def t(l):
            return '~' if not l else ';'.join('%s,%s,%s' % (enc(a), enc(b), enc_bool(v)) for (a, b, v) in l)
        return '|'.join([t(self.re), t(self.fn), t(self.sfx)])

    def install(self):
        import wpull.urlfilter
        import wpull.url
        log = self

        class ReProxy:
            def __getattr__(self, n):
                return getattr(_re, n)

            def search(self, pattern, string, *a):
                m = _re.search(pattern, string, *a)
                if isinstance(pattern, _Translated):
                    log.sfx.append((pattern.suffix, string, bool(m)))
                else:
                    log.re.append((pattern, string, bool(m)))
                return m

        class FnProxyFilter:
            def __getattr__(self, n):
                return getattr(_fnmatch, n)

            def translate(self, s):
                t = _Translated(_fnmatch.translate(s))
                t.suffix = s
                return t

        class FnProxyUrl:
            def __getattr__(self, n):
                return getattr(_fnmatch, n)

            def fnmatchcase(self, name, pat):
                v = _fnmatch.fnmatchcase(name, pat)
                log.fn.append((name, pat, bool(v)))
                return v

        self._saved = (wpull.urlfilter.re, wpull.urlfilter.fnmatch, wpull.url.fnmatch)
        wpull.urlfilter.re = ReProxy()
        wpull.urlfilter.fnmatch = FnProxyFilter()
        wpull.url.fnmatch = FnProxyUrl()
        return self

    def uninstall(self):
        import wpull.urlfilter
        import wpull.url
        wpull.urlfilter.re, wpull.urlfilter.fnmatch, wpull.url.fnmatch = self._saved

    def __enter__(self):
        return self.install()

    def __exit__(self, *a):
        self.uninstall()


# ------------------------------------------------------------------ real code adapters
_PARSER = None


def parse_args(argv):
    global _PARSER
    from wpull.application.options import AppArgumentParser
    if _PARSER is None:
        _PARSER = AppArgumentParser()
    return _PARSER.parse_args(list(argv))


class _Table:
    def __init__(self, hostnames):
        self._h = list(hostnames)

    def get_hostnames(self):
        return list(self._h)


def real_build(args, hostnames):
    """The REAL option -> filter construction: URLFiltersSetupTask._build_url_filters followed by
    URLFiltersPostURLImportSetupTask.process on a session that only carries args + factory."""
    from wpull.application.tasks.rule import URLFiltersSetupTask, URLFiltersPostURLImportSetupTask
    from wpull.urlfilter import DemuxURLFilter
    session = types.SimpleNamespace(args=args, factory={})
    filters = URLFiltersSetupTask._build_url_filters(session)
    demux = DemuxURLFilter(filters)
    session.factory = {'URLTable': _Table(hostnames), 'DemuxURLFilter': demux}
    compat.run(URLFiltersPostURLImportSetupTask().process(session))
    return demux


def option_tokens(args, hostnames):
    allow = args.span_hosts_allow or []
    return ' '.join([
        enc_bool(args.https_only), enc_bool(args.recursive), enc_bool(args.page_requisites),
        enc_bool(args.follow_ftp), enc_bool(args.no_parent),
        enc_lists(args.domains), enc_lists(args.exclude_domains),
        enc_lists(args.hostnames), enc_lists(args.exclude_hostnames),
        str(args.tries or 0), str(args.level or 0), str(args.page_requisites_level or 0),
        enc(args.accept_regex or ''), enc(args.reject_regex or ''),
        enc_lists(args.include_directories), enc_lists(args.exclude_directories),
        enc_lists(_elems(args.accept)), enc_lists(_elems(args.reject)),
        enc_bool(args.span_hosts), enc_bool('page-requisites' in allow), enc_bool('linked-pages' in allow),
        enc_lists(hostnames)])


def real_consult(demux, url, rec, is_redirect, log):
    """-> (canonical reply string, verdict, reason, failed names)"""
    from wpull.processor.rule import FetchRule
    rule = FetchRule(url_filter=demux)
    ui = parse(url)
    record = make_record(url, rec)
    log.clear()
    try:
        verdict, reason, info = rule.consult_filters(ui, record, is_redirect=is_redirect)
    except Exception as e:
        return 'exc ' + type(e).__name__, None, None, None
    order = {id(f): i for i, f in enumerate(demux.url_filters)}
    failed = [type(f).__name__ for f in sorted(info['failed'], key=lambda f: order[id(f)])]
    passed = [type(f).__name__ for f in sorted(info['passed'], key=lambda f: order[id(f)])]
    mp = ','.join('%s=%s' % (k, enc_bool(v)) for k, v in info['map'].items()) or '-'
    if info['verdict'] != (len(info['failed']) == 0):
        raise Infra('test_info verdict field inconsistent')
    rep = 'ok %s %s %s %s %s %s' % (enc_bool(info['verdict']), enc_bool(verdict), reason,
                                    ','.join(failed) or '-', ','.join(passed) or '-', mp)
    return rep, verdict, reason, failed


# ------------------------------------------------------------------ the property's own wording (direct oracle)
def reference_scope(args, hostnames, url, rec):
    """Independent reading of the property sentence: the list of scope rules the URL breaks.
    args: parsed command line; hostnames: hosts of the start URLs; rec: the link record."""
    from urllib.parse import urlsplit
    broken = []
    ui = parse(url)
    scheme, host, path = ui.scheme, ui.hostname, ui.path or ''
    inline = bool(rec.get('inline_level'))
    level = rec['level']
    parent = parse(rec['parent_url']) if rec.get('parent_url') else None

    # scheme
    if args.https_only:
        if scheme != 'https':
            broken.append('scheme')
    elif scheme not in ('http', 'https', 'ftp'):
        broken.append('scheme')
    if scheme == 'ftp' and parent is not None and parent.scheme in ('http', 'https') and not args.follow_ftp:
        broken.append('scheme')
    # recursion
    if level > 0:
        if inline and not args.page_requisites:
            broken.append('recursion')
        if not inline and not args.recursive:
            broken.append('recursion')
    # depth limit (a limit on recursion: only while recursing; requisites get the documented +2)
    if args.recursive and args.level:
        if level > args.level + (2 if inline else 0):
            broken.append('depth')
    # page-requisite depth
    if args.page_requisites_level and inline and rec['inline_level'] > args.page_requisites_level:
        broken.append('page-requisite-depth')
    # no-parent
    if args.no_parent and not inline:
        top = parse(rec['root_url']) if rec.get('root_url') else ui
        web = ('http', 'https')
        same_family = scheme == top.scheme or (scheme in web and top.scheme in web)
        if same_family and host == top.hostname and (scheme != top.scheme or ui.port == top.port):
            top_dir = top.path[:top.path.rfind('/') + 1] if '/' in top.path else top.path + '/'
            my_dir = path[:path.rfind('/') + 1] if '/' in path else path + '/'
            if not my_dir.startswith(top_dir):
                broken.append('no-parent')
    # domain lists (hostname suffixes) and host lists (exact)
    if args.domains and not (host and any(host.endswith(d) for d in args.domains)):
        broken.append('domains')
    if args.exclude_domains and host and any(host.endswith(d) for d in args.exclude_domains):
        broken.append('domains')
    if args.hostnames and host not in args.hostnames:
        broken.append('hostnames')
    if args.exclude_hostnames and host in args.exclude_hostnames:
        broken.append('hostnames')
    # span hosts
    allow = args.span_hosts_allow or []
    if not args.span_hosts and host not in hostnames:
        ok = ('page-requisites' in allow and inline) or \
             ('linked-pages' in allow and parent is not None and parent.hostname in hostnames)
        if not ok:
            broken.append('span-hosts')
    # regex
    if args.accept_regex and not _re.search(args.accept_regex, ui.url):
        broken.append('regex')
    if args.reject_regex and _re.search(args.reject_regex, ui.url):
        broken.append('regex')
    # directory lists: the path, read as a directory, matches a listed directory pattern
    as_dir = path if path.endswith('/') else path + '/'

    def dmatch(d):
        return _fnmatch.fnmatchcase(as_dir, d if d.endswith('/') else d + '/')
    if args.include_directories and not any(dmatch(d) for d in args.include_directories):
        broken.append('directories')
    if args.exclude_directories and any(dmatch(d) for d in args.exclude_directories):
        broken.append('directories')
    # file-name suffix lists (a comma separated LIST of suffix patterns; directories are exempt)
    filename = path.rsplit('/', 1)[-1]

    def as_list(v):
        if v is None:
            return []
        if isinstance(v, str):
            return [x.strip() for x in v.split(',')]
        return list(v)

    def smatch(s):
        return _fnmatch.fnmatchcase(filename, '*' + s)
    if filename:
        acc, rej = as_list(args.accept), as_list(args.reject)
        if acc and not any(smatch(s) for s in acc):
            broken.append('suffix')
        if rej and any(smatch(s) for s in rej):
            broken.append('suffix')
    # retry limit
    if args.tries and rec['try_count'] >= args.tries:
        broken.append('tries')
    return broken


# ------------------------------------------------------------------ generators
def gen_url(rng, hosts=HOSTS):
    r = rng.random()
    if r < 0.03:
        return rng.choice(['mailto:x@a.example', 'javascript:void(0)', 'gopher://a.example/blog/x.html', 'file:///a/b'])
    scheme = rng.choice(SCHEMES)
    host = rng.choice(hosts)
    port = ''
    if rng.random() < 0.12:
        port = ':' + rng.choice(['80', '443', '8080', '21', '8443'])
    segs = [rng.choice(SEGS) for _ in range(rng.choice([0, 0, 1, 1, 2, 3]))]
    f = rng.choice(FILES)
    path = '/' + '/'.join(segs + [f]) if (segs or f) else '/'
    if not f and segs and rng.random() < 0.3:
        path = path.rstrip('/')
    q = rng.choice(['', '', '', '?q=1', '?a=b&c=png'])
    return '%s://%s%s%s%s' % (scheme, host, port, path, q)


def near(rng, n, lo=0):
    return max(lo, n + rng.choice([-1, 0, 0, 1, 2, 3, 4]))


def gen_record(rng, args, url):
    level_limit = args.level or rng.choice([1, 5])
    pr = args.page_requisites_level or rng.choice([1, 5])
    tries = args.tries or rng.choice([1, 20])
    r = rng.random()
    level = 0 if r < 0.2 else (near(rng, level_limit) if r < 0.8 else rng.randrange(0, 12))
    r = rng.random()
    inline = None if r < 0.45 else (0 if r < 0.5 else (near(rng, pr) if r < 0.9 else rng.randrange(1, 9)))
    r = rng.random()
    tc = 0 if r < 0.4 else (near(rng, tries) if r < 0.9 else rng.randrange(0, 25))
    parent = None
    if level > 0 or rng.random() < 0.15:
        parent = gen_url(rng) if rng.random() < 0.95 else None
    root = None
    if rng.random() < 0.8:
        r = rng.random()
        if r < 0.4:
            # root on the same host, path related to url's
            ui = parse(url)
            if ui.hostname:
                base = '%s://%s' % (rng.choice([ui.scheme, ui.scheme, 'http', 'https', 'ftp']), ui.hostname_with_port)
                p = ui.path or '/'
                cut = rng.choice([p, p.rsplit('/', 1)[0] + '/', p.rsplit('/', 1)[0], p + '/', p + 'x', '/', p.rsplit('/', 2)[0] + '/'])
                root = base + (cut if cut.startswith('/') else '/' + cut)
            else:
                root = gen_url(rng)
        else:
            root = gen_url(rng)
    return {'parent_url': parent, 'root_url': root, 'level': level, 'inline_level': inline, 'try_count': tc}


def pick_list(rng, pool, k=None):
    k = k or rng.choice([1, 1, 2, 3])
    return ','.join(rng.choice(pool) for _ in range(k))


def gen_argv(rng):
    """A command line: each scope option independently on/off."""
    argv = ['http://a.example/']
    p = rng.choice([0.15, 0.3, 0.5])

    def on(q=None):
        return rng.random() < (q if q is not None else p)
    if on(0.1):
        argv.append('--https-only')
    if on(0.6):
        argv.append('-r')
    if on(0.5):
        argv.append('-p')
    if on():
        argv.append('--follow-ftp')
    if on():
        argv.append('--no-parent')
    if on():
        argv += ['-D', pick_list(rng, DOMAIN_POOL)]
    if on():
        argv += ['--exclude-domains', pick_list(rng, DOMAIN_POOL)]
    if on():
        argv += ['--hostnames', pick_list(rng, HOSTS)]
    if on():
        argv += ['--exclude-hostnames', pick_list(rng, HOSTS)]
    if on(0.5):
        argv += ['-t', rng.choice(['0', 'inf', '1', '2', '3', '20'])]
    if on(0.5):
        argv += ['-l', rng.choice(['0', 'inf', '1', '2', '3', '5'])]
    if on(0.4):
        argv += ['--page-requisites-level', rng.choice(['0', 'inf', '1', '2', '5'])]
    if on():
        argv += ['--accept-regex', rng.choice(REGEX_POOL)]
    if on():
        argv += ['--reject-regex', rng.choice(REGEX_POOL)]
    if on():
        argv += ['-I', pick_list(rng, DIR_POOL)]
    if on():
        argv += ['-X', pick_list(rng, DIR_POOL)]
    if on():
        argv += ['-A', pick_list(rng, SUFFIX_POOL)]
    if on():
        argv += ['-R', pick_list(rng, SUFFIX_POOL)]
    r = rng.random()
    if r < 0.2:
        argv.append('-H')
    elif r < 0.5:
        argv += ['--span-hosts-allow', rng.choice(['page-requisites', 'linked-pages', 'linked-pages,page-requisites'])]
    return argv


def gen_hostnames(rng):
    return sorted(set(rng.sample(HOSTS, rng.choice([1, 1, 2, 3]))))


# ------------------------------------------------------------------ streams
def stream_similar(ctx, cases):
    from wpull.url import schemes_similar
    reps = ctx.model.ask(['filter similar %s %s' % (enc(a), enc(b)) for a, b in cases])
    for (a, b), rep in zip(cases, reps):
        real = enc_bool(schemes_similar(a, b))
        ctx.case(('similar', a, b), nontrivial=a != b, tags=['similar:' + real])
        if real != rep:
            ctx.disagree('similar', {'stream': 'similar', 'a': a, 'b': b}, rep, real)


def stream_subdir(ctx, cases, log):
    from wpull.url import is_subdir
    reqs, reals = [], []
    for base, test, ts, wc in cases:
        log.clear()
        v = is_subdir(base, test, trailing_slash=ts, wildcards=wc)
        reals.append(enc_bool(v))
        reqs.append('filter subdir %s %s %s %s %s' % (enc(base), enc(test), enc_bool(ts), enc_bool(wc), log.tables()))
    reps = ctx.model.ask(reqs)
    for c, rep, real in zip(cases, reps, reals):
        ctx.case(('subdir',) + tuple(c), tags=['subdir:%s:ts=%s:wc=%s' % (real, enc_bool(c[2]), enc_bool(c[3]))])
        if rep != real:
            ctx.disagree('subdir', {'stream': 'subdir', 'base': c[0], 'test': c[1], 'trailing_slash': c[2], 'wildcards': c[3]}, rep, real)


def run_tests(ctx, cases, log):
    """cases: dicts {argv, hostnames, url, record, is_redirect}.  build + test streams + oracle."""
    reqs, metas = [], []
    for c in cases:
        try:
            args = parse_args(c['argv'])
        except SystemExit:
            raise Infra('generated command line rejected by the real parser: %r' % (c['argv'],))
        demux = real_build(args, c['hostnames'])
        breq = 'filter build ' + option_tokens(args, c['hostnames'])
        breal = enc_filters(demux.url_filters)
        rep, verdict, reason, failed = real_consult(demux, c['url'], c['record'], c['is_redirect'], log)
        treq = 'filter test %s %s %s %s %s' % (breal, enc_info(parse(c['url'])), enc_rec(c['record']),
                                                enc_bool(c['is_redirect']), log.tables())
        reqs += [breq, treq]
        metas.append((c, args, breal, rep, verdict, reason, failed))
    reps = ctx.model.ask(reqs)
    for i, (c, args, breal, rep, verdict, reason, failed) in enumerate(metas):
        mbuild, mtest = reps[2 * i], reps[2 * i + 1]
        if mbuild != breal:
            ctx.disagree('build', dict(c, stream='test'), mbuild, breal)
        if mtest != rep:
            ctx.disagree('test', dict(c, stream='test'), mtest, rep)
        tags = ['test:' + ('exc' if verdict is None else 'accept' if verdict else 'reject'), 'test:nfilters=%d' % (breal.count(';') + 1)]
        if verdict is not None:
            tags.append('test:reason=' + reason)
            for f in failed:
                tags.append('failed:' + f)
            if len(failed) > 1:
                tags.append('test:multi-failed')
        nontrivial = len(c['argv']) > 1 or c['record']['level'] > 0
        ctx.case(('test', tuple(c['argv']), tuple(c['hostnames']), c['url'], tuple(sorted(c['record'].items(), key=str)), c['is_redirect']),
                 nontrivial=nontrivial, tags=tags)
        if verdict is None:
            continue
        # ---- the property itself, on the real verdict
        broken = reference_scope(args, c['hostnames'], c['url'], c['record'])
        if verdict:
            if reason == 'redirect':
                rest = [b for b in broken if b != 'span-hosts']
                if not c['is_redirect'] or rest:
                    ctx.fail('waiver-too-wide', 'consult_filters', dict(c, stream='test'),
                             'accepted as a redirect although is_redirect=%s and the URL also breaks %s' % (c['is_redirect'], rest))
            elif broken:
                ctx.fail('out-of-scope-accepted', broken[0], dict(c, stream='test'),
                         'the filters accept %s although it breaks the scope rule(s) %s (failed filters: %s)' % (c['url'], broken, failed))
        elif not broken:
            ctx.tag('stricter-than-wording:' + ','.join(failed))
    if cases:
        ctx.sample(dict(cases[0], stream='test'))


RAW_KINDS = ['scheme', 'https', 'ftp', 'bd', 'hn', 'rec', 'lvl', 'tries', 'parent', 'span', 're', 'dir', 'bf']


def gen_raw_spec(rng):
    k = rng.choice(RAW_KINDS + ['span', 'span'])

    def lst(pool):
        return None if rng.random() < 0.3 else [rng.choice(pool) for _ in range(rng.choice([0, 1, 2]))]
    if k == 'scheme':
        return [k, rng.choice([['http', 'https', 'ftp'], ['http'], [], ['ftp', 'gopher']])]
    if k in ('https', 'parent'):
        return [k]
    if k == 'ftp':
        return [k, rng.random() < 0.5]
    if k == 'bd':
        return [k, lst(DOMAIN_POOL), lst(DOMAIN_POOL)]
    if k == 'hn':
        return [k, lst(HOSTS), lst(HOSTS)]
    if k == 'rec':
        return [k, rng.random() < 0.5, rng.random() < 0.5]
    if k == 'lvl':
        return [k, rng.choice([0, 1, 2, 5]), rng.choice([0, 1, 2, 5])]
    if k == 'tries':
        return [k, rng.choice([0, 1, 2, 20])]
    if k == 'span':
        return [k, rng.sample(HOSTS, rng.choice([0, 1, 2])), rng.random() < 0.2, rng.random() < 0.4, rng.random() < 0.4]
    if k == 're':
        return [k, rng.choice([None, ''] + REGEX_POOL), rng.choice([None, ''] + REGEX_POOL)]
    if k == 'dir':
        return [k, lst(DIR_POOL), lst(DIR_POOL)]
    return [k, lst(SUFFIX_POOL), lst(SUFFIX_POOL)]


def make_raw(spec):
    import wpull.urlfilter as uf
    k = spec[0]
    a = spec[1:]
    return {'scheme': lambda: uf.SchemeFilter(tuple(a[0])), 'https': uf.HTTPSOnlyFilter, 'ftp': lambda: uf.FollowFTPFilter(a[0]),
            'bd': lambda: uf.BackwardDomainFilter(a[0], a[1]), 'hn': lambda: uf.HostnameFilter(a[0], a[1]),
            'rec': lambda: uf.RecursiveFilter(a[0], a[1]), 'lvl': lambda: uf.LevelFilter(a[0], a[1]),
            'tries': lambda: uf.TriesFilter(a[0]), 'parent': uf.ParentFilter,
            'span': lambda: uf.SpanHostsFilter(tuple(a[0]), a[1], a[2], a[3]),
            're': lambda: uf.RegexFilter(a[0], a[1]), 'dir': lambda: uf.DirectoryFilter(a[0], a[1]),
            'bf': lambda: uf.BackwardFilenameFilter(a[0], a[1])}[k]()


def run_rawtests(ctx, cases, log):
    """cases: {specs, url, record, is_redirect}: consult on arbitrary hand-assembled filter lists."""
    from wpull.urlfilter import DemuxURLFilter
    reqs, metas = [], []
    for c in cases:
        demux = DemuxURLFilter([make_raw(s) for s in c['specs']])
        rep, verdict, reason, failed = real_consult(demux, c['url'], c['record'], c['is_redirect'], log)
        reqs.append('filter test %s %s %s %s %s' % (enc_filters(demux.url_filters), enc_info(parse(c['url'])),
                                                     enc_rec(c['record']), enc_bool(c['is_redirect']), log.tables()))
        metas.append((c, rep, verdict, reason, failed))
    reps = ctx.model.ask(reqs)
    for (c, rep, verdict, reason, failed), m in zip(metas, reps):
        if m != rep:
            ctx.disagree('rawtest', dict(c, stream='rawtest'), m, rep)
        tags = ['rawtest:' + ('exc' if verdict is None else 'accept' if verdict else 'reject')]
        if verdict is not None:
            tags.append('rawtest:reason=' + reason)
            # the waiver, directly: accepted => nothing failed, or redirect and the one failure is a span-hosts filter
            if verdict and failed and not (c['is_redirect'] and failed == ['SpanHostsFilter']):
                ctx.fail('waiver-too-wide', 'consult_filters', dict(c, stream='rawtest'),
                         'accepted with failed filters %s (is_redirect=%s)' % (failed, c['is_redirect']))
        ctx.case(('rawtest', json.dumps(c, sort_keys=True, default=str)), tags=tags)


def gen_raw_case(rng):
    class A:
        level = rng.choice([0, 1, 2, 5])
        page_requisites_level = rng.choice([0, 1, 2, 5])
        tries = rng.choice([0, 1, 2, 20])
    url = gen_url(rng)
    return {'specs': [gen_raw_spec(rng) for _ in range(rng.choice([0, 1, 2, 3, 4, 6]))], 'url': url,
            'record': gen_record(rng, A, url), 'is_redirect': rng.random() < 0.5}


def gen_case(rng):
    argv = gen_argv(rng)
    args = parse_args(argv)
    hostnames = gen_hostnames(rng)
    url = gen_url(rng)
    rec = gen_record(rng, args, url)
    return {'argv': argv, 'hostnames': hostnames, 'url': url, 'record': rec, 'is_redirect': rng.random() < 0.35}


def boundary_cases(rng):
    """every limit at n-1 .. n+3, alone and with one other failing rule (targets: <= vs <, +2 vs +3, waiver width)"""
    out = []
    base = {'parent_url': 'http://a.example/', 'root_url': 'http://a.example/', 'level': 1, 'inline_level': None, 'try_count': 0}
    for n in (1, 2, 3, 5):
        for d in (-1, 0, 1, 2, 3, 4):
            for inline in (None, 0, 1):
                out.append({'argv': ['http://a.example/', '-r', '-p', '-l', str(n)], 'hostnames': ['a.example'],
                            'url': 'http://a.example/blog/x.html',
                            'record': dict(base, level=max(0, n + d), inline_level=inline), 'is_redirect': False})
            out.append({'argv': ['http://a.example/', '-r', '-p', '--page-requisites-level', str(n)], 'hostnames': ['a.example'],
                        'url': 'http://a.example/img/y.png',
                        'record': dict(base, level=1, inline_level=max(0, n + d)), 'is_redirect': False})
            out.append({'argv': ['http://a.example/', '-r', '-t', str(n)], 'hostnames': ['a.example'],
                        'url': 'http://a.example/blog/x.html',
                        'record': dict(base, try_count=max(0, n + d)), 'is_redirect': False})
    # redirect waiver: span-hosts alone / with each other rule also failing
    extra = [[], ['--reject-regex', 'blog'], ['-R', 'html'], ['-X', '/blog/x.html'], ['--exclude-domains', 'b.example'],
             ['--exclude-hostnames', 'b.example'], ['-t', '1'], ['-l', '1'], ['--https-only'], ['--no-parent'], ['-A', 'png'],
             ['-I', '/img'], ['--accept-regex', 'img'], ['-D', 'a.example'], ['--hostnames', 'a.example']]
    for e in extra:
        for red in (False, True):
            for lvl, tc in ((1, 0), (2, 1)):
                out.append({'argv': ['http://a.example/', '-r'] + e, 'hostnames': ['a.example'],
                            'url': 'http://b.example/blog/x.html',
                            'record': dict(base, level=lvl, try_count=tc, root_url='http://b.example/blog/sub/'), 'is_redirect': red})
    # suffix lists given as comma separated LISTs
    for opt in ('-A', '-R'):
        for lst in ('html', 'html,png', 'tmp[!0-9]', 'bmp,jp[eg]', 'x?z', '[!a]', 'image.*.png'):
            for f in FILES:
                out.append({'argv': ['http://a.example/', '-r', opt, lst], 'hostnames': ['a.example'],
                            'url': 'http://a.example/blog/' + f, 'record': dict(base), 'is_redirect': False})
    return out


# ------------------------------------------------------------------ entry points
def load_corpus(ctx):
    out = []
    for p in sorted(glob.glob(os.path.join(ctx.verif, 'harness', 'corpus', 'C02', '*.json'))):
        with open(p) as f:
            out.append(unjson(json.load(f)))
    return out


def replay(ctx, case, kind=None, where=None):
    s = case.get('stream', 'test')
    with CallLog() as log:
        if s == 'test':
            run_tests(ctx, [case], log)
        elif s == 'rawtest':
            run_rawtests(ctx, [case], log)
        elif s == 'similar':
            stream_similar(ctx, [(case['a'], case['b'])])
        elif s == 'subdir':
            stream_subdir(ctx, [(case['base'], case['test'], case['trailing_slash'], case['wildcards'])], log)
        else:
            raise Infra('unknown replay stream %r' % s)


def run(ctx):
    from wpull.pipeline.session import ItemSession
    if ItemSession.is_virtual.fget(object()) is not False:
        ctx.fail('assumption', 'is_virtual', {'stream': 'assumption'}, 'ItemSession.is_virtual is no longer False')
    for case in load_corpus(ctx):
        replay(ctx, case['case'] if 'case' in case else case)
    rng = ctx.rng
    with CallLog() as log:
        # small pure predicates
        pool = ['http', 'https', 'ftp', 'email', '', 'HTTP', 'gopher']
        stream_similar(ctx, [(a, b) for a in pool for b in pool])
        paths = ['/profile/blog', '/profile/blog/', '/profile/blog/123', '/profile/photo', '/profile/blog-*-', '/profile/blog-1-/',
                 '/profile/', '/', '', 'a', 'a/', '/a//', '//', '/a/b/c', '/a/b', '/a/bc', '*', '/*', 'x@y']
        sub = [(b, t, ts, wc) for b in paths for t in paths for ts in (False, True) for wc in (False, True)]
        for _ in range(ctx.scale(300, 5000)):
            def rp():
                return ''.join(rng.choice(['/', '/', 'a', 'b', '*', 'ab', '?']) for _ in range(rng.randrange(0, 7)))
            sub.append((rp(), rp(), rng.random() < 0.5, rng.random() < 0.5))
        stream_subdir(ctx, sub, log)
        # option -> filters -> verdict
        run_tests(ctx, boundary_cases(rng), log)
        n = ctx.scale(12000, 300000)
        chunk = 4000
        for start in range(0, n, chunk):
            run_tests(ctx, [gen_case(rng) for _ in range(min(chunk, n - start))], log)
        n = ctx.scale(3000, 60000)
        for start in range(0, n, chunk):
            run_rawtests(ctx, [gen_raw_case(rng) for _ in range(min(chunk, n - start))], log)


def search(ctx):
    rng = ctx.subrng('search')
    with CallLog() as log:
        run_tests(ctx, boundary_cases(rng), log)
        for _ in range(5):
            run_tests(ctx, [gen_case(rng) for _ in range(ctx.scale(400, 2000))], log)
        run_rawtests(ctx, [gen_raw_case(rng) for _ in range(ctx.scale(300, 1000))], log)
