"""C04 — WARC records hold exactly the bytes exchanged on the wire.

Streams (model `Wpull.HttpWire` vs the real code in the wpull tree under test):
  decode   (shared with C08) lock-step co-simulation of Stream.read_response/read_body;
           for C04 the compared component is `notified` = concatenation of the
           notify_read data = what the recorder appends to the response block
  appcrawl the WHOLE application (harness/appsim.py run_crawl: argv -> Builder -> Application.run)
           crawling recursively with robots.txt handling and --warc-file: the WARC vs EVERY
           exchange the servers saw                                               oracle only
  interleave 2-3 sessions of one Client open at the same time on one recorder, interleaved at
           every event boundary, on one and on several connections                oracle only
  redirect the recorder behind the REAL WebClient/WebSession following redirects whose Location
           is not normalised: record URIs == the URL on the wire                  oracle only
  fault    the recorder's block file / write_record raises OSError(ENOSPC) once at the k-th
           response_data / request_data write or end_request / end_response      oracle only
  overlap  two REAL WebSessions over ONE real ConnectionPool (worker A still inside its `with`
           block, its connection recycled, while worker B reads on that connection)   oracle only
  tworuns  run 1 writes WARC + CDX, run 2 loads the CDX through the REAL WARCVisitsTask into a
           REAL SQLite URL table (--warc-dedup), digests on/off in either run, page
           changed/unchanged; the model decides revisit-or-response (`http dedup`)
  warc     the REAL Client/Session with the REAL WARCRecorder listening to it, against a
           reactive in-memory server; the WARC file is parsed by an independent strict
           reader; request/response blocks are compared byte for byte with what the fake
           server received / sent, and with the model (`http session`, `http request`)
"""
import os
import shutil
import tempfile

import compat  # noqa: F401
import fakenet
from runner import enc, Infra
from engines import http_common as H
from engines import c08

RULE = ('warc: sequences of 2-5 exchanges (message grammar of C08: header formattings, Content-Length, chunked with '
        'extensions and trailers, read-until-close, overrun/surplus, content codings, no-body statuses, HEAD, POST with '
        'a body) x Stream options x status codes x whitespace-only / folded header lines x a de-duplication table answering "seen" for some URLs (revisit records) x random segmentations x {plain, gzip} x {digests on, off} WARC files, read strictly by Content-Length; decode: as C08 with the notified bytes compared. '
        'overlap: 5 response shapes x 8 cut positions x {A leaves its web session before / while / after B reads} x pool limit; tworuns: '
        '{digests on, off}^2 x {page unchanged, same payload under another header block, changed} through WARCVisitsTask + SQLiteURLTable. '
        'non-trivial = at least one exchange completed; distinct by (exchange bytes, segmentation, request)')
TRUSTED = c08.TRUSTED + ['harness WARC reader (WARC/1.0 framing by Content-Length, per-record gzip members)']
ASSUMPTIONS = c08.ASSUMPTIONS + ['the URL table (--warc-dedup) is a stub that reports chosen URLs as seen; digests and '
                                 'the remaining record fields are C05']
UNPROVED = []

C04_KINDS = {'notified-not-message', 'segmentation-dependent'}


REVISIT_ID = '<urn:uuid:11111111-2222-3333-4444-555555555555>'


class DedupTable:
    """What HTTPWARCRecorderSession needs of the URL table (--warc-dedup): for the URLs in
    `seen` it answers 'this payload was archived before' with the id of that record."""

    def __init__(self, seen):
        self.seen = set(seen)
        self.calls = []

    def get_revisit_id(self, url, digest):
        self.calls.append((url, digest))
        return REVISIT_ID if url in self.seen else None


def keeps_alive(e, opts=(True, False)):
    """after this exchange the connection goes back to the pool open"""
    m = e['msg']
    return (opts[0] and not opts[1] and not e['eof'] and not e['surplus'] and m.framing in ('length', 'chunked', 'none')
            and m.conn_close is None and m.version == 'HTTP/1.1' and b'HTTP/1.1' in m.head[:9] and m.coding != 'gzip-bad')


def add_dying_connections(rng, exs, opts=(True, False), p=0.5):
    """a reused keep-alive connection that dies part-way through the NEXT response head (after 1..k
    bytes); the server answers a repeated request normally.  The exchange fails; it has no response
    record, and no later record holds the fragment."""
    for k in range(1, len(exs)):
        e = exs[k]
        if keeps_alive(exs[k - 1], opts) and e.get('req_body') is None and not e['surplus'] and rng.random() < p:
            head = e['msg'].head
            e['die_after'] = rng.choice([1, 2, 9, len(head) // 2, max(1, len(head) - 3), max(1, len(head) - 1)])
            e['die_after'] = max(1, min(e['die_after'], len(head) - 1))
    return exs


NOTICE_408 = b'HTTP/1.1 408 Request Timeout\r\nContent-Length: 0\r\nConnection: close\r\n\r\n'


def fixed_unsolicited_sequences():
    """bytes nobody asked for arrive on the kept-alive connection between two exchanges (an idle
    408 notice, stray bytes): they must not become the next response record.  Single-stack hosts
    and dual-stack hosts on which the IPv6 connection won."""
    out = []
    for dual in (False, True):
        for junk in (NOTICE_408, b'HTTP/1.1 200 OK\r\nContent-Length: 4\r\n\r\nEVIL', b'\r\n', b'x'):
            exs = []
            for k, body in enumerate((b'first', b'second', b'third')):
                m = c08._mk(b'HTTP/1.1 200 OK\r\nContent-Length: %d\r\n\r\n' % len(body), body)
                exs.append({'segs': [m.message], 'eof': False, 'method': 'GET', 'version': 'HTTP/1.1', 'path': '/p%d' % k, 'msg': m,
                            'surplus': b'', 'marker': b'', 'dedup': False})
            exs[0]['unsolicited'] = junk
            out.append((exs, (True, False), {'dual_stack': dual}))
    return out


def fixed_long_trailer_sequences():
    """a chunked response whose trailer section has a field line longer than the 64 KiB reader limit:
    the exchange fails (no response record) - or is recorded with every byte"""
    out = []
    for n in (65530, 65537, 70000):
        head = b'HTTP/1.1 200 OK\r\nTransfer-Encoding: chunked\r\n\r\n'
        framed = b'5\r\nhello\r\n0\r\nX-Short: 1\r\nX-Long: ' + b'a' * n + b'\r\nX-After: 2\r\n\r\n'
        m = c08._mk(head, framed, b'hello', framing='chunked', wf=False)
        ok = c08._mk(b'HTTP/1.1 200 OK\r\nContent-Length: 5\r\n\r\n', b'after')
        exs = [{'segs': [head, framed[:20], framed[20:]], 'eof': False, 'method': 'GET', 'version': 'HTTP/1.1', 'path': '/p0', 'msg': m,
                'surplus': b'', 'marker': b'', 'dedup': False},
               {'segs': [ok.message], 'eof': False, 'method': 'GET', 'version': 'HTTP/1.1', 'path': '/p1', 'msg': ok,
                'surplus': b'', 'marker': b'', 'dedup': False}]
        out.append((exs, (True, False)))
    return out


def fixed_negative_length_sequences():
    """Content-Length values below zero, no chunked coding: not a length (the reader falls back to
    read-until-close); whatever the reader makes of it, a completed exchange's record holds all the
    bytes the server sent for it"""
    out = []
    for value in (b'-1', b'-5', b'-17', b' -1 ', b'-00012'):
        for body in (b'the body the server sent', b'x'):
            m = c08._mk(b'HTTP/1.1 200 OK\r\nContent-Type: text/plain\r\nContent-Length: ' + value + b'\r\n\r\n', body, body,
                        framing='close', wf=False)
            ok = c08._mk(b'HTTP/1.1 200 OK\r\nContent-Length: 5\r\n\r\n', b'after')
            exs = [{'segs': [m.head, m.framed], 'eof': True, 'method': 'GET', 'version': 'HTTP/1.1', 'path': '/p0', 'msg': m,
                    'surplus': b'', 'marker': b'', 'dedup': False},
                   {'segs': [ok.message], 'eof': False, 'method': 'GET', 'version': 'HTTP/1.1', 'path': '/p1', 'msg': ok,
                    'surplus': b'', 'marker': b'', 'dedup': False}]
            out.append((exs, (True, False)))
    return out


def fixed_die_sequences():
    out = []
    for n in (1, 5, 12, 17, 30, 37):
        exs = []
        for k, body in enumerate((b'first', b'second', b'third')):
            m = c08._mk(b'HTTP/1.1 200 OK\r\nContent-Length: %d\r\n\r\n' % len(body), body)
            exs.append({'segs': [m.message], 'eof': False, 'method': 'GET', 'version': 'HTTP/1.1', 'path': '/p%d' % k, 'msg': m,
                        'surplus': b'', 'marker': b'', 'dedup': False})
        exs[1]['die_after'] = n
        out.append((exs, (True, False)))
    return out


def gen_exchanges(rng, opts=(True, False), dedup=False):
    exs = c08.gen_sequence(rng, opts)
    for e in exs:
        e['dedup'] = bool(dedup) and rng.random() < 0.5
    for k, e in enumerate(exs):
        if e['method'] == 'POST' and rng.random() < 0.7:
            e['req_body'] = bytes(rng.choice(b'abc=&123') for _ in range(rng.choice([0, 1, 7, 5000])))
        if rng.random() < 0.3:
            e['req_fields'] = [('X-Test', 'v%d' % k), ('Accept', '*/*')][:rng.randrange(1, 3)]
    return exs


def stream_warc(ctx, seqs):
    from wpull.warc.recorder import WARCRecorderParams
    tmp = tempfile.mkdtemp(prefix='c04-')
    lines, metas = [], []
    try:
        for i, item in enumerate(seqs):
            wiring = None
            if isinstance(item, tuple) and len(item) == 3:
                exs, opts, wiring = item
                if wiring.get('argv') is not None:
                    opts = H.options_of_argv(wiring['argv'])
            else:
                exs, opts = item if isinstance(item, tuple) else (item, (True, False))
            opts = tuple(opts)
            comp = i % 2 == 1
            prefix = os.path.join(tmp, 'w%d' % i)
            table = None
            if any(e.get('dedup') for e in exs) or (exs and exs[0].get('table')):
                table = DedupTable('http://h' + e['path'] for e in exs if e.get('dedup'))
            params = WARCRecorderParams(compress=comp, log=False, temp_dir=tmp, software_string='verif',
                                        digests=i % 3 != 0, url_table=table)
            results, conns = H.real_session_sequence(exs, recorder_params={'filename': prefix, 'params': params},
                                                     keep_alive=opts[0], ignore_length=opts[1], wiring=wiring)
            path = prefix + ('.warc.gz' if comp else '.warc')
            case = {'stream': 'warc', 'compress': comp, 'opts': list(opts), 'wiring': wiring,
                    'exchanges': [{'segs': e['segs'], 'eof': e['eof'], 'method': e['method'], 'version': e['version'],
                                   'path': e['path'], 'msg': e['msg'].case(), 'surplus': e['surplus'],
                                   'req_body': e.get('req_body'), 'req_fields': e.get('req_fields', []),
                                   'dedup': bool(e.get('dedup')), 'die_after': e.get('die_after'),
                                   'unsolicited': e.get('unsolicited')} for e in exs]}
            try:
                records = H.read_warc(path)
            except H.WarcFormatError as err:
                # read strictly by the declared Content-Length: a wrong length is a failure
                kind = 'revisit-length' if err.rtype == 'revisit' else 'record-length'
                ctx.fail(kind, '_record_revisit' if err.rtype == 'revisit' else 'WARCRecorder', case, str(err))
                continue
            except (Infra, ValueError, KeyError) as err:
                ctx.fail('warc-unreadable', 'WARCRecorder', case, str(err))
                continue
            finally:
                if os.path.exists(path):
                    os.remove(path)
            recs = [(f, b) for f, b in records if f.get('warc-type') != 'warcinfo']
            check_warc(ctx, case, exs, results, recs, opts)
            toks, rl = [], []
            for e, r in zip(exs, results):
                x = r['x']
                data = b''.join(e['segs']) + (e.get('unsolicited') or b'')     # unsolicited bytes: surplus that arrives later
                dying = bool(e.get('die_after')) and x.outcome != 'ok'
                if dying:
                    data = data[:e['die_after']]        # what reached the client before the connection died
                toks += [enc(e['method']), enc(e['version']), 'T' if e['eof'] or dying else 'F', enc(data),
                         '-' if not H.sched_of(x.calls) else '.'.join('%x' % s for s in H.sched_of(x.calls)),
                         ','.join(('o' + enc(v)) if k == 'ok' else ('e' + v) for k, v in x.declog) or '~']
                # field order of the real request: caller's fields, Content-Length (set with the
                # body), then the Host that prepare_for_send adds when the request is written
                fl = list(e.get('req_fields', []))
                if e.get('req_body') is not None:
                    fl.append(('Content-Length', str(len(e['req_body']))))
                fl.append(('Host', 'h'))
                if opts[1]:
                    fl.append(('Connection', 'close'))     # write_request, ignore_length
                flat = []
                for n, v in fl:
                    flat += [enc(n), enc(v)]
                rl.append('http request %s %s %s %s' % (enc(e['method']), enc(e['path']), enc(e['version']), '/'.join(flat)))
            lines.append('http session %s %s ' % ('T' if opts[0] else 'F', 'T' if opts[1] else 'F') + ' '.join(toks))
            lines.extend(rl)
            metas.append((case, exs, results, recs, len(rl)))
        replies = ctx.model.ask(lines)
        pos = 0
        for case, exs, results, recs, nr in metas:
            rep = replies[pos]
            reqs = replies[pos + 1:pos + 1 + nr]
            pos += 1 + nr
            parts = rep.split(' || ') if rep != '~' else []
            m_resp, m_req = [], []
            for e, r, p, q in zip(exs, results, parts, reqs):
                f = p.partition(':')[2].split(' | ')
                if f[0].startswith('ok '):
                    m_resp.append((f[2], bool(e.get('dedup'))))
                m_req.append(enc(bytes(H_dec(q)) + (e.get('req_body') or b'')))
            # a revisit record keeps the header block only: the model cuts the recorded bytes
            cut = ctx.model.ask(['http revisit ' + t for t, d in m_resp if d])
            cut = iter(cut)
            m_resp = [(next(cut) if d else t) for t, d in m_resp]
            real_resp = [enc(b) for f, b in recs if f.get('warc-type') in ('response', 'revisit')]
            real_req = [enc(b) for f, b in recs if f.get('warc-type') == 'request']
            ok = sum(1 for r in results if r['x'].outcome == 'ok')
            ctx.case(('warc', tuple((tuple(e['segs']), e['eof'], e['method'], e.get('req_body')) for e in exs), case['compress']),
                     nontrivial=ok > 0, tags=['warc:exchanges=%d' % len(results), 'warc:gz' if case['compress'] else 'warc:plain',
                                              'warc:opts=%s%s' % ('ka' if case['opts'][0] else 'noka', '+il' if case['opts'][1] else '')]
                     + (['warc:dedup'] if any(e.get('dedup') for e in exs) else []))
            ctx.tag('warc:revisit-records', sum(1 for f, b in recs if f.get('warc-type') == 'revisit'))
            if real_resp != m_resp or real_req != m_req[:len(real_req)]:
                ctx.disagree('warc', {'exchanges': case['exchanges']},
                             {'response_blocks': [s[:300] for s in m_resp], 'request_blocks': [s[:300] for s in m_req]},
                             {'response_blocks': [s[:300] for s in real_resp], 'request_blocks': [s[:300] for s in real_req]})
        if metas:
            ctx.sample({'stream': 'warc', 'exchanges': len(metas[0][1]), 'records': [f.get('warc-type') for f, b in metas[0][3]]})
    finally:
        shutil.rmtree(tmp, ignore_errors=True)


def H_dec(tok):
    return [] if tok == '-' else [int(t, 16) for t in tok.split('.')]


def check_warc(ctx, case, exs, results, recs, opts=(True, False)):
    """Direct oracle: blocks in the file vs the bytes on the fake wire."""
    i = 0
    for k, (e, r) in enumerate(zip(exs, results)):
        x = r['x']
        uri = 'http://h' + e['path']
        if not r['requests']:
            continue
        if i >= len(recs) or recs[i][0].get('warc-type') != 'request':
            ctx.fail('record-sequence', 'HTTPWARCRecorderSession', case, 'exchange %d: expected a request record, found %s'
                     % (k, recs[i][0].get('warc-type') if i < len(recs) else 'end of file'))
            return
        qf, qb = recs[i]
        i += 1
        if qb != r['requests'][0]:
            ctx.fail('request-block-not-wire', 'request_data', case, 'exchange %d: request block %r.. but the server received %r..'
                     % (k, qb[:80], r['requests'][0][:80]))
        if qf.get('warc-target-uri') != uri:
            ctx.fail('record-target', 'begin_request', case, 'exchange %d: request record for %r, requested %r' % (k, qf.get('warc-target-uri'), uri))
        if e.get('die_after') and x.outcome == 'ok' and i < len(recs) and recs[i][0].get('warc-type') in ('response', 'revisit') \
                and recs[i][1] != e['msg'].message:
            ctx.fail('response-block-not-wire', 'Session.start', case,
                     'exchange %d: the reused connection died after %d bytes of the response head and the request was answered on a second '
                     'attempt; the response record has %d bytes (%r..), one answer has %d bytes: it holds bytes of two answers'
                     % (k, e['die_after'], len(recs[i][1]), recs[i][1][:40], len(e['msg'].message)))
            return
        if x.outcome != 'ok':
            if i < len(recs) and recs[i][0].get('warc-type') in ('response', 'revisit'):
                ctx.fail('record-sequence', 'HTTPWARCRecorderSession', case, 'exchange %d did not complete (%s) but has a response record' % (k, x.outcome))
                return
            continue
        if i >= len(recs) or recs[i][0].get('warc-type') not in ('response', 'revisit'):
            ctx.fail('record-sequence', 'HTTPWARCRecorderSession', case, 'exchange %d completed but no response record follows its request record' % k)
            return
        pf, pb = recs[i]
        i += 1
        want = e['msg'].message
        if H.relaxed_by_options(e['msg'], opts):
            want += e['surplus']        # ignore_length: the response extends to the peer's close
        if e.get('dedup'):
            # the table knows this payload: a revisit record, holding the header block the server sent
            if pf.get('warc-type') != 'revisit':
                ctx.fail('revisit-missing', '_record_revisit', case, 'exchange %d: the table reported the payload as seen but a %s '
                         'record was written' % (k, pf.get('warc-type')))
            want = e['msg'].head
            if pf.get('warc-refers-to') != e.get('refers', REVISIT_ID):
                ctx.fail('revisit-fields', '_record_revisit', case, 'exchange %d: WARC-Refers-To %r' % (k, pf.get('warc-refers-to')))
        elif pf.get('warc-type') == 'revisit':
            ctx.fail('revisit-without-identity', '_record_revisit', case,
                     'exchange %d: a revisit record (block cut down to %d of %d bytes) although no earlier capture with the same '
                     'payload digest is known%s' % (k, len(pb), len(want), e.get('why', '')))
            return
        elif pf.get('warc-type') != 'response':
            ctx.fail('record-sequence', 'HTTPWARCRecorderSession', case, 'exchange %d: %s record where a response record belongs'
                     % (k, pf.get('warc-type')))
        if pb != want:
            d = next((j for j, (a, b) in enumerate(zip(pb, want)) if a != b), min(len(pb), len(want)))
            if e.get('dedup'):
                ctx.fail('revisit-block-not-header', '_record_revisit', case,
                         'exchange %d: revisit block (%d bytes) is not the header block the server sent, through its terminating '
                         'empty line (%d bytes); first difference at offset %d' % (k, len(pb), len(want), d))
            else:
                ctx.fail('response-block-not-wire', 'response_data', case,
                         'exchange %d: response block (%d bytes) differs from what the server sent for it (%d bytes) at offset %d'
                         % (k, len(pb), len(want), d))
        if pf.get('warc-target-uri') != uri:
            ctx.fail('record-target', 'begin_response', case, 'exchange %d: response record for %r, requested %r' % (k, pf.get('warc-target-uri'), uri))
        if pf.get('warc-concurrent-to') != qf.get('warc-record-id'):
            ctx.fail('concurrent-to', 'begin_response', case, 'exchange %d: response is concurrent to %r, request id is %r'
                     % (k, pf.get('warc-concurrent-to'), qf.get('warc-record-id')))
    if i != len(recs):
        ctx.fail('record-sequence', 'HTTPWARCRecorderSession', case, '%d surplus records at the end of the file' % (len(recs) - i))


def fixed_dedup_sequences():
    """revisit records between ordinary ones, every framing, with and without digests / gzip
    (stream_warc alternates those by sequence index)"""
    out = []
    shapes = [(b'HTTP/1.1 200 OK\r\nContent-Length: 11\r\n\r\n', b'hello world', b'hello world', 'length'),
              (b'HTTP/1.1 200 OK\nTransfer-Encoding: chunked\n\n', b'5;x\nhello\n0\nT: 1\n\n', b'hello', 'chunked'),
              (b'HTTP/1.1 200 OK\r\nX: a\r\n b\r\nContent-Length: 0\r\n\r\n', b'', b'', 'length'),
              (b'HTTP/1.1 304 NM\r\nContent-Length: 5\r\n\r\n', b'', b'', 'none'),
              # whitespace-only lines inside the header block: they are not the empty line that ends it
              (b'HTTP/1.1 200 OK\r\nX-A: 1\r\n \r\nContent-Length: 4\r\nX-B: 2\r\n\r\n', b'body', b'body', 'length'),
              (b'HTTP/1.1 200 OK\n\t\nX-Fold: a\n \n\tb\nContent-Length: 2\n\x0b\n\n', b'ok', b'ok', 'length'),
              (b'HTTP/1.1 200 OK\r\nTransfer-Encoding: chunked\r\n \r\r\nX: y\r\n\r\n', b'1\r\nz\r\n0\r\n\r\n', b'z', 'chunked')]
    for rep in range(6):       # 6 consecutive indices: both compressions x all three digest phases
        exs = []
        for k, (head, framed, payload, framing) in enumerate(shapes + shapes[:1]):
            m = c08._mk(head, framed, payload, code=304 if framing == 'none' else 200, framing=framing)
            exs.append({'segs': fakenet.segment(m.message, [len(head)] if rep % 2 else []), 'eof': False, 'method': 'GET',
                        'version': 'HTTP/1.1', 'path': '/p%d' % k, 'msg': m, 'surplus': b'', 'marker': b'',
                        'dedup': k < len(shapes)})
        out.append((exs, (True, False)))
    return out


# ------------------------------------------------------------------ two runs: --warc-cdx, then --warc-dedup
def gen_tworuns(rng):
    exs1 = c08.gen_sequence(rng)
    for e in exs1:
        e['surplus_kept'] = e['surplus']
    exs2 = []
    for k, e in enumerate(exs1):
        m = e['msg']
        r = rng.random()
        if r < 0.45:
            m2, how = m, 'unchanged'
        elif r < 0.7:
            # same payload bytes, other header block
            m2 = H.Msg.from_case(m.case())
            nl = m2.head.index(b'\n') + 1
            m2.head = m2.head[:nl] + b'X-Run: 2' + (b'\r\n' if m2.head[nl - 2:nl] == b'\r\n' else b'\n') + m2.head[nl:]
            how = 'unchanged-payload'
        else:
            while True:
                m2 = H.gen_message(rng, allow_malformed=False)
                if m2.wf and m2.coding != 'gzip-bad' and len(m2.message) < 20000:
                    break
            how = 'changed'
        eof = m2.framing == 'close' or rng.random() < 0.15
        exs2.append({'segs': fakenet.segment(m2.message, fakenet.random_cuts(rng, len(m2.message)) if len(m2.message) <= 1500 else []),
                     'eof': eof, 'method': m2.method if how == 'changed' else e['method'], 'version': m2.version if how == 'changed' else e['version'],
                     'path': e['path'], 'msg': m2, 'surplus': b'', 'marker': b'', 'how': how})
    return {'stream': 'tworuns', 'd1': rng.random() < 0.6, 'd2': rng.random() < 0.6, 'exs1': exs1, 'exs2': exs2}


def _case_exs(exs):
    return [{'segs': e['segs'], 'eof': e['eof'], 'method': e['method'], 'version': e['version'], 'path': e['path'],
             'msg': e['msg'].case(), 'surplus': e['surplus'], 'how': e.get('how')} for e in exs]


def stream_tworuns(ctx, cases):
    """State carried from an earlier run: run 1 writes WARC + CDX (digests on/off); run 2 loads that
    CDX through the REAL WARCVisitsTask into a REAL SQLite URL table and fetches the same URLs
    (page unchanged / changed, digests on/off).  Oracle: a revisit record is written only if the
    payload digest recorded by run 1 equals the digest of what the server sent now — never when
    either run has digests off; otherwise the response record holds the whole message."""
    import types
    from wpull.warc.recorder import WARCRecorderParams
    from wpull.application.tasks.warc import WARCVisitsTask
    from wpull.database.sqltable import SQLiteURLTable
    import base64
    import hashlib
    tmp = tempfile.mkdtemp(prefix='c04t-')
    mlines, mmeta = [], []
    try:
        for i, c in enumerate(cases):
            case = {'stream': 'tworuns', 'd1': c['d1'], 'd2': c['d2'], 'exs1': _case_exs(c['exs1']), 'exs2': _case_exs(c['exs2'])}
            p1, p2 = os.path.join(tmp, 'r1_%d' % i), os.path.join(tmp, 'r2_%d' % i)
            params1 = WARCRecorderParams(compress=i % 2 == 1, log=False, temp_dir=tmp, software_string='verif', digests=c['d1'], cdx=True)
            res1, _ = H.real_session_sequence(c['exs1'], recorder_params={'filename': p1, 'params': params1})
            ext = '.warc.gz' if i % 2 == 1 else '.warc'
            try:
                recs1 = [(f, b) for f, b in H.read_warc(p1 + ext) if f.get('warc-type') != 'warcinfo']
            except H.WarcFormatError as err:
                ctx.fail('record-length', 'WARCRecorder', case, str(err))
                continue
            first = {}     # URL -> (record id, payload bytes) of run 1's response record
            for f, b in recs1:
                if f.get('warc-type') == 'response':
                    first.setdefault(f.get('warc-target-uri'), f.get('warc-record-id'))
            table = SQLiteURLTable()
            with open(p1 + '.cdx', 'rb') as cdx:
                app = types.SimpleNamespace(args=types.SimpleNamespace(warc_dedup=cdx, local_encoding=None),
                                            factory={'URLTable': table})
                H.arun(compat._ensure(WARCVisitsTask().process(app)))
            params2 = WARCRecorderParams(compress=False, log=False, temp_dir=tmp, software_string='verif', digests=c['d2'],
                                         url_table=table)
            res2, _ = H.real_session_sequence(c['exs2'], recorder_params={'filename': p2, 'params': params2})
            try:
                recs2 = [(f, b) for f, b in H.read_warc(p2 + '.warc') if f.get('warc-type') != 'warcinfo']
            except H.WarcFormatError as err:
                kind = 'revisit-length' if err.rtype == 'revisit' else 'record-length'
                ctx.fail(kind, 'WARCRecorder', case, str(err))
                continue
            finally:
                for q in (p1 + ext, p1 + '.cdx', p2 + '.warc'):
                    if os.path.exists(q):
                        os.remove(q)
            nrev = 0
            for k, e2 in enumerate(c['exs2']):
                e1 = c['exs1'][k]
                url = 'http://h' + e2['path']
                ok1 = k < len(res1) and res1[k]['x'].outcome == 'ok' and url in first
                same = e1['msg'].framed + e1['surplus'] * H.relaxed_by_options(e1['msg'], (True, False)) == e2['msg'].framed
                e2['dedup'] = bool(ok1 and c['d1'] and c['d2'] and same)
                e2['refers'] = first.get(url)
                e2['why'] = ' (run 1 digests %s, run 2 digests %s, page %s)' % ('on' if c['d1'] else 'off', 'on' if c['d2'] else 'off', e2['how'])
                nrev += e2['dedup']
            check_warc(ctx, case, c['exs2'], res2, recs2)
            # the model's dedup decision (revisitHit) vs the record type actually written
            written = {f.get('warc-target-uri'): f.get('warc-type') for f, b in recs2 if f.get('warc-type') in ('response', 'revisit')}
            for k, e2 in enumerate(c['exs2']):
                url = 'http://h' + e2['path']
                if url not in written or url not in first:
                    continue
                b32 = lambda data: base64.b32encode(hashlib.sha1(data).digest()).decode()
                e1 = c['exs1'][k]
                old = enc(b32(e1['msg'].framed)) if c['d1'] else 'N'
                cur = enc(b32(e2['msg'].framed)) if c['d2'] else 'N'
                mlines.append('http dedup %s %s' % (old, cur))
                mmeta.append((case, k, 'T' if written[url] == 'revisit' else 'F'))
            ctx.case(('tworuns', c['d1'], c['d2'], tuple((tuple(e['segs']), e['how']) for e in c['exs2'])),
                     tags=['tworuns:d1=%s,d2=%s' % (c['d1'], c['d2'])] + ['tworuns:' + e['how'] for e in c['exs2']])
            ctx.tag('tworuns:revisits-expected', nrev)
            ctx.tag('tworuns:revisits-written', sum(1 for f, b in recs2 if f.get('warc-type') == 'revisit'))
        for (case, k, real), rep in zip(mmeta, ctx.model.ask(mlines)):
            if rep != real:
                ctx.disagree('tworuns', {'d1': case['d1'], 'd2': case['d2'], 'exchange': k, 'exs2': case['exs2'][k]}, rep, real)
        if cases:
            ctx.sample({'stream': 'tworuns', 'cases': len(cases)})
    finally:
        shutil.rmtree(tmp, ignore_errors=True)


def fixed_tworuns():
    """all four digest combinations x {unchanged, same payload under another header block, changed}"""
    out = []
    for d1 in (True, False):
        for d2 in (True, False):
            exs1, exs2 = [], []
            pages = [(b'HTTP/1.1 200 OK\r\nContent-Length: 11\r\n\r\n', b'hello world', 'length', 'unchanged'),
                     (b'HTTP/1.1 200 OK\r\nTransfer-Encoding: chunked\r\n\r\n', b'5\r\nhello\r\n0\r\n\r\n', 'chunked', 'unchanged-payload'),
                     (b'HTTP/1.1 200 OK\r\nContent-Length: 3\r\n\r\n', b'old', 'length', 'changed')]
            for k, (head, framed, framing, how) in enumerate(pages):
                m1 = c08._mk(head, framed, framed if framing == 'length' else b'hello', framing=framing)
                if how == 'unchanged':
                    m2 = m1
                elif how == 'unchanged-payload':
                    m2 = c08._mk(head.replace(b'OK\r\n', b'OK\r\nX-Run: 2\r\n'), framed, m1.payload, framing=framing)
                else:
                    m2 = c08._mk(head, b'new', b'new', framing=framing)
                for exs, m in ((exs1, m1), (exs2, m2)):
                    exs.append({'segs': [m.message], 'eof': False, 'method': 'GET', 'version': 'HTTP/1.1', 'path': '/p%d' % k,
                                'msg': m, 'surplus': b'', 'marker': b'', 'how': how})
            out.append({'stream': 'tworuns', 'd1': d1, 'd2': d2, 'exs1': exs1, 'exs2': exs2})
    return out


# ------------------------------------------------------------------ appcrawl: the whole application
def appcrawl_cases(rng, n):
    import appsim
    cases = []
    robots_variants = [('allow', lambda: appsim.Page(200, b'User-agent: *\nDisallow: /private\n', 'text/plain')),
                       ('missing', lambda: appsim.Page(404, b'no robots here', 'text/plain')),
                       ('redirect', lambda: appsim.Page(301, b'moved', 'text/plain', location='/robots2.txt')),
                       ('empty', lambda: appsim.Page(200, b'', 'text/plain'))]
    for name, robots in robots_variants:
        for extra in ([], ['--no-robots'], ['--no-http-keep-alive'], ['--warc-cdx']):
            cases.append({'stream': 'appcrawl', 'robots': name, 'extra': extra, 'seed': len(cases), 'two_hosts': name == 'allow'})
    for i in range(n):
        cases.append({'stream': 'appcrawl', 'robots': rng.choice(robots_variants)[0], 'extra': rng.choice([[], [], ['--no-robots'], ['--page-requisites']]),
                      'seed': 100 + i, 'two_hosts': rng.random() < 0.4})
    return cases


def stream_appcrawl(ctx, cases):
    """Oracle only.  The WHOLE application (argv -> Builder -> Application.run, harness/appsim.py)
    crawls a small site recursively with --warc-file: every exchange the servers saw - robots.txt
    fetches and their redirect hops included - has exactly one request record (block == the request
    the server received) and one response record (block == what the server sent) for its URL."""
    import appsim
    for case in cases:
        robots = {'allow': appsim.Page(200, b'User-agent: *\nDisallow: /private\n', 'text/plain'),
                  'missing': appsim.Page(404, b'no robots here', 'text/plain'),
                  'redirect': appsim.Page(301, b'moved', 'text/plain', location='/robots2.txt'),
                  'empty': appsim.Page(200, b'', 'text/plain')}[case['robots']]
        other = 'http://b.test/x' if case['two_hosts'] else '/p2'
        site = {'a.test': {'/': appsim.Page(200, appsim.html(links=['/p1', other, '/private/no', '/moved'])),
                           '/p1': appsim.Page(200, appsim.html(links=['/'], title='p1')),
                           '/p2': appsim.Page(200, b'plain text', 'text/plain'),
                           '/moved': appsim.Page(302, b'', 'text/plain', location='/p1#frag'),
                           '/private/no': appsim.Page(200, b'secret', 'text/plain'),
                           '/robots.txt': robots,
                           '/robots2.txt': appsim.Page(200, b'User-agent: *\nDisallow:\n', 'text/plain')},
                'b.test': {'/x': appsim.Page(200, b'other host', 'text/plain'),
                           '/robots.txt': appsim.Page(200, b'User-agent: *\nDisallow: /nothing\n', 'text/plain')}}
        tmp = tempfile.mkdtemp(prefix='c04a-')
        try:
            extra = ['-r', '--warc-file', 'rec', '--no-warc-compression', '--no-warc-keep-log'] + list(case['extra']) + \
                    (['--span-hosts'] if case['two_hosts'] else [])
            res = appsim.run_crawl(['http://a.test/'], site, seed=case['seed'], extra=extra, workdir=tmp, jitter=False, max_steps=400000)
            path = os.path.join(tmp, 'rec.warc')
            ctx.case(('appcrawl', case['robots'], tuple(case['extra']), case['seed'], case['two_hosts']),
                     tags=['appcrawl:robots=' + case['robots'], 'appcrawl:requests=%d' % min(len(res.requests), 12)] +
                          (['appcrawl:no-robots'] if '--no-robots' in case['extra'] else []) + (['appcrawl:hung'] if res.hung else []))
            if res.hung or res.error or not os.path.exists(path):
                ctx.tag('appcrawl:unusable')
                continue
            try:
                records = H.read_warc(path)
            except H.WarcFormatError as err:
                ctx.fail('record-length', 'WARCRecorder', case, str(err))
                continue
            wire_req, wire_resp = [], []
            for r in res.requests:
                uri = 'http://%s%s' % (r['host'], r['target'])
                wire_req.append((uri, bytes(r['raw']) + b'\r\n\r\n'))
                page = (site.get(r['host']) or {}).get(r['target']) or appsim.Page(404, b'not found', 'text/plain')
                data = page.render()
                if r['method'] == 'HEAD':
                    data = data.split(b'\r\n\r\n', 1)[0] + b'\r\n\r\n'
                wire_resp.append((uri, data))
            rec_req = [(f.get('warc-target-uri'), b) for f, b in records if f.get('warc-type') == 'request']
            rec_resp = [(f.get('warc-target-uri'), b) for f, b in records if f.get('warc-type') in ('response', 'revisit')]
            for what, wire, rec in (('request', wire_req, rec_req), ('response', wire_resp, rec_resp)):
                missing = [u for u, b in wire if (u, b) not in rec]
                surplus = [u for u, b in rec if (u, b) not in wire]
                if sorted(wire) != sorted(rec):
                    unrecorded = [u for u in {u for u, b in wire} if u not in {u2 for u2, b2 in rec}]
                    kind = 'exchange-not-recorded' if unrecorded else ('%s-block-not-wire' % what)
                    ctx.fail(kind, 'application-wiring', case,
                             'the servers saw %d exchanges, the WARC file has %d %s records; exchanges without a %s record holding their '
                             'bytes: %r; %s records without such an exchange: %r'
                             % (len(wire), len(rec), what, what, missing[:6], what, surplus[:6]))
                    break
        finally:
            shutil.rmtree(tmp, ignore_errors=True)
    if cases:
        ctx.sample({'stream': 'appcrawl', 'cases': len(cases)})


# ------------------------------------------------------------------ interleave: sessions open at the same time
def interleave_cases(rng, n):
    bodies = [b'AAAAAAAAAAAAAAAAAAAAAAAA', b'bbbbbbbbbbbb', b'CCCCCCCCCCCCCCCCCCCCCCCCCCCCCCCC']
    shapes = [lambda b: (b'HTTP/1.1 200 OK\r\nContent-Length: %d\r\n\r\n' % len(b), b, False),
              lambda b: (b'HTTP/1.1 200 OK\r\nTransfer-Encoding: chunked\r\n\r\n', b'%x\r\n' % len(b) + b + b'\r\n0\r\n\r\n', False),
              lambda b: (b'HTTP/1.0 200 OK\r\nX-Close: yes\r\n\r\n', b, True)]

    def build(k, shape_ids, steps, limit):
        msgs, pieces, eofs = [], [], []
        for i in range(k):
            head, framed, eof = shapes[shape_ids[i]](bodies[i])
            msgs.append(head + framed)
            h = len(framed) // 2
            pieces.append([p for p in (head[:9], head[9:], framed[:h], framed[h:]) if p])
            eofs.append(eof)
        return {'stream': 'interleave', 'msgs': msgs, 'pieces': pieces, 'eofs': eofs, 'steps': steps, 'limit': limit}
    cases = []
    # B is created / started at every event boundary of A's response
    a_events = [('create', 0), ('start', 0), ('feed', 0), ('feed', 0), ('feed', 0), ('feed', 0)]
    for at in range(1, len(a_events) + 1):
        for b_steps in ([('create', 1)], [('create', 1), ('start', 1)], [('create', 1), ('start', 1), ('feed', 1), ('feed', 1)]):
            for limit in (1, 2):
                for sa, sb in ((0, 0), (1, 2), (2, 1)):
                    cases.append(build(2, [sa, sb], a_events[:at] + b_steps + a_events[at:], limit))
    for _ in range(n):
        k = rng.choice([2, 2, 3])
        per = [[('create', i), ('start', i)] + [('feed', i)] * rng.randrange(0, 5) for i in range(k)]
        steps = []
        while any(per):
            i = rng.choice([j for j in range(k) if per[j]])
            steps.append(per[i].pop(0))
        cases.append(build(k, [rng.randrange(3) for _ in range(k)], steps, rng.choice([1, 2, 3, 6])))
    return cases


def stream_interleave(ctx, cases):
    """Oracle only.  Several sessions of one Client are open at the same time on one recorder
    (--concurrent >= 2): every response record holds the wire bytes of ITS exchange."""
    from wpull.warc.recorder import WARCRecorderParams
    tmp = tempfile.mkdtemp(prefix='c04i-')
    try:
        for n, case in enumerate(cases):
            prefix = os.path.join(tmp, 'i%d' % n)
            params = WARCRecorderParams(compress=n % 2 == 1, log=False, temp_dir=tmp, software_string='verif', digests=n % 3 != 0)
            out, requests = H.real_interleave(case, {'filename': prefix, 'params': params})
            path = prefix + ('.warc.gz' if n % 2 == 1 else '.warc')
            try:
                records = H.read_warc(path)
            except H.WarcFormatError as err:
                ctx.fail('record-length', 'WARCRecorder', case, str(err))
                continue
            finally:
                if os.path.exists(path):
                    os.remove(path)
            ctx.case(('interleave', tuple(case['msgs']), tuple(map(tuple, case['steps'])), case['limit']),
                     tags=['interleave:sessions=%d' % len(case['msgs']), 'interleave:limit=%d' % case['limit'],
                           'interleave:connections=%d' % len({c for c, i in requests})] + ['interleave:' + out[i][0] for i in sorted(out)])
            for i, msg in enumerate(case['msgs']):
                uri = 'http://h/s%d' % i
                reqs = [b for f, b in records if f.get('warc-type') == 'request' and f.get('warc-target-uri') == uri]
                resps = [(f, b) for f, b in records if f.get('warc-type') in ('response', 'revisit') and f.get('warc-target-uri') == uri]
                res = out.get(i, ('missing', None, b''))
                if res[0] != 'ok':
                    ctx.fail('interleave-exchange-failed', 'Session', case, 'session %d ended %s %s although the server delivered its whole response'
                             % (i, res[0], res[1]))
                    continue
                if len(reqs) != 1 or len(resps) != 1:
                    ctx.fail('record-sequence', 'HTTPWARCRecorderSession', case, 'session %d completed; %d request / %d response records' % (i, len(reqs), len(resps)))
                elif resps[0][1] != msg:
                    pb = resps[0][1]
                    d = next((j for j, (a, b) in enumerate(zip(pb, msg)) if a != b), min(len(pb), len(msg)))
                    ctx.fail('response-block-not-wire', 'overlapping-sessions', case,
                             'session %d of %d open at the same time: its response block has %d bytes, the server sent %d bytes for it; first '
                             'difference at offset %d (block %r..)' % (i, len(case['msgs']), len(pb), len(msg), d, pb[:60]))
        if cases:
            ctx.sample({'stream': 'interleave', 'cases': len(cases)})
    finally:
        shutil.rmtree(tmp, ignore_errors=True)


# ------------------------------------------------------------------ redirects: the record URIs are the URL on the wire
LOCATIONS = [b'/page', b'/page#anchor', b'page#anchor', b'http://h/other#frag', b'HTTP://H:80/a/../Target%20Page?x=1#section-2',
             b'http://EXAMPLE.test:80/a/./b/../c', b'//h/abs/./path', b'?q=1#f', b'../up/x', b'/a b/c d', b'/p?x=a b#y',
             b'http://h:80/', b'http://H', b'/%7Euser/%41', b'/caf%c3%a9#top', b'#only', b'/x#', b'http://h/./#a#b']


def redirect_cases(rng, n):
    cases = [{'stream': 'redirect', 'location': loc, 'code': code, 'hops': 1} for loc in LOCATIONS for code in (301, 302)]
    cases += [{'stream': 'redirect', 'location': loc, 'code': 307, 'hops': 2, 'start': 'http://h/start/deep/x'} for loc in LOCATIONS[:6]]
    for _ in range(n):
        host = rng.choice([b'', b'', b'http://h', b'http://H:80', b'HTTP://Other.Test', b'//h'])
        path = rng.choice([b'/a', b'/a/../b', b'/./c', b'/d e', b'/%41', b'/x/y/../../z', b'']) if host else rng.choice([b'/a/../b', b'rel/./x', b'../y', b'/d e'])
        loc = host + path + rng.choice([b'', b'?k=v', b'?k=a b']) + rng.choice([b'', b'#frag', b'#', b'#a b'])
        if loc:
            cases.append({'stream': 'redirect', 'location': loc, 'code': rng.choice([301, 302, 303, 307, 308]), 'hops': 1})
    return cases


def stream_redirect(ctx, cases):
    """Oracle only.  For every exchange the WebSession makes: the request record and the response
    record carry the same WARC-Target-URI, and it is the URL on the wire (http:// + Host value +
    request-target); the response names that request as concurrent."""
    from wpull.warc.recorder import WARCRecorderParams
    tmp = tempfile.mkdtemp(prefix='c04r-')
    try:
        for i, case in enumerate(cases):
            prefix = os.path.join(tmp, 'r%d' % i)
            params = WARCRecorderParams(compress=False, log=False, temp_dir=tmp, software_string='verif', digests=i % 2 == 0)
            out = H.real_redirect(case, {'filename': prefix, 'params': params})
            try:
                records = [(f, b) for f, b in H.read_warc(prefix + '.warc') if f.get('warc-type') != 'warcinfo']
            except H.WarcFormatError as err:
                ctx.fail('record-length', 'WARCRecorder', case, str(err))
                continue
            finally:
                if os.path.exists(prefix + '.warc'):
                    os.remove(prefix + '.warc')
            ctx.case(('redirect', case['location'], case['code'], case['hops']),
                     tags=['redirect:requests=%d' % len(out['requests']), 'redirect:' + (out.get('error') or 'ok')])
            reqs = [(f, b) for f, b in records if f.get('warc-type') == 'request']
            resps = [(f, b) for f, b in records if f.get('warc-type') in ('response', 'revisit')]
            done = len(out['responses'])
            if len(reqs) != len(out['requests']) or len(resps) != done:
                ctx.fail('record-sequence', 'HTTPWARCRecorderSession', case, '%d requests on the wire, %d completed exchanges; %d request / %d response records'
                         % (len(out['requests']), done, len(reqs), len(resps)))
                continue
            for k, ((host, target), (qf, qb)) in enumerate(zip(out['requests'], reqs)):
                wire = 'http://' + host + target
                if qf.get('warc-target-uri') != wire:
                    ctx.fail('record-target', 'begin_request', case, 'exchange %d: request record filed under %r, the request on the wire is for %r'
                             % (k, qf.get('warc-target-uri'), wire))
                if k < len(resps):
                    pf, pb = resps[k]
                    if pf.get('warc-target-uri') != wire or pf.get('warc-target-uri') != qf.get('warc-target-uri'):
                        ctx.fail('record-target', 'begin_response', case,
                                 'exchange %d: response record filed under %r; its request record says %r and the request on the wire was for %r '
                                 '(Location: %r)' % (k, pf.get('warc-target-uri'), qf.get('warc-target-uri'), wire, case['location']))
                    if pf.get('warc-concurrent-to') != qf.get('warc-record-id'):
                        ctx.fail('concurrent-to', 'begin_response', case, 'exchange %d: response is concurrent to %r, request id is %r'
                                 % (k, pf.get('warc-concurrent-to'), qf.get('warc-record-id')))
                    if pb != out['sent'][k]:
                        ctx.fail('response-block-not-wire', 'response_data', case, 'exchange %d: response block differs from the bytes sent' % k)
        if cases:
            ctx.sample({'stream': 'redirect', 'cases': len(cases)})
    finally:
        shutil.rmtree(tmp, ignore_errors=True)


# ------------------------------------------------------------------ faults on the recorder side
FAULT_POINTS = ('response_data', 'request_data', 'end_request', 'end_response')


def stream_fault(ctx, cases):
    """cases: (exchange list, {'point', 'k'}).  The recorder's block file (k-th write of response /
    request data) or write_record (k-th request / response record) raises OSError(ENOSPC) once.
    The recorder learns of every byte and of end-of-request / end-of-response only through the
    session's event dispatcher, so the fault must surface in Session.start()/download(): an
    exchange that is nevertheless reported complete must have its two complete records."""
    from wpull.warc.recorder import WARCRecorderParams
    tmp = tempfile.mkdtemp(prefix='c04f-')
    try:
        for i, (exs, fault) in enumerate(cases):
            fault = dict(fault)
            prefix = os.path.join(tmp, 'f%d' % i)
            params = WARCRecorderParams(compress=i % 2 == 1, log=False, temp_dir=tmp, software_string='verif', digests=i % 3 != 0)
            case = {'stream': 'fault', 'fault': {'point': fault['point'], 'k': fault['k']}, 'exchanges': _case_exs(exs)}
            for ce, e in zip(case['exchanges'], exs):
                ce['req_body'], ce['req_fields'] = e.get('req_body'), e.get('req_fields', [])
            results, conns = H.real_session_sequence(exs, recorder_params={'filename': prefix, 'params': params}, fault=fault)
            path = prefix + ('.warc.gz' if i % 2 == 1 else '.warc')
            try:
                records = H.read_warc(path)
            except H.WarcFormatError as err:
                ctx.fail('record-length', 'WARCRecorder', case, str(err))
                continue
            finally:
                if os.path.exists(path):
                    os.remove(path)
            fired = fault.get('fired_exchange')
            ctx.case(('fault', fault['point'], fault['k'], tuple((tuple(e['segs']), e['eof'], e['method'], e.get('req_body')) for e in exs)),
                     tags=['fault:' + fault['point'], 'fault:fired' if fired is not None else 'fault:not-reached'] +
                          (['fault:exchange-' + ('failed' if results[fired]['x'].outcome != 'ok' else 'completed')]
                           if fired is not None and fired < len(results) else []))
            for k, (e, r) in enumerate(zip(exs, results)):
                uri = 'http://h' + e['path']
                reqs = [b for f, b in records if f.get('warc-type') == 'request' and f.get('warc-target-uri') == uri]
                resps = [b for f, b in records if f.get('warc-type') in ('response', 'revisit') and f.get('warc-target-uri') == uri]
                x = r['x']
                where = fault['point'] if k == fired else 'HTTPWARCRecorderSession'
                swallowed = 'recorder-fault-swallowed' if k == fired else None
                if x.outcome != 'ok':
                    if resps or len(reqs) > 1:
                        ctx.fail('record-sequence', where, case, 'exchange %d failed (%s %s) but has %d request / %d response records'
                                 % (k, x.outcome, x.exc, len(reqs), len(resps)))
                    continue
                sent = r['requests'][0] if r['requests'] else None
                if len(reqs) != 1 or len(resps) != 1:
                    ctx.fail(swallowed or 'record-sequence', where, case,
                             'exchange %d was reported complete and has %d request / %d response records%s'
                             % (k, len(reqs), len(resps), ' (an OSError was raised inside the recorder during this exchange)' if swallowed else ''))
                elif reqs[0] != sent or resps[0] != e['msg'].message:
                    ctx.fail(swallowed or ('request-block-not-wire' if reqs[0] != sent else 'response-block-not-wire'), where, case,
                             'exchange %d was reported complete; request block %d bytes (server received %d), response block %d bytes '
                             '(server sent %d)%s' % (k, len(reqs[0]), len(sent or b''), len(resps[0]), len(e['msg'].message),
                                                     ' - an OSError was raised inside the recorder during this exchange' if swallowed else ''))
        if cases:
            ctx.sample({'stream': 'fault', 'cases': len(cases)})
    finally:
        shutil.rmtree(tmp, ignore_errors=True)


def fault_cases(rng, n):
    out = []
    simple = lambda: [{'segs': [b'HTTP/1.1 200 OK\r\nContent-Length: 3\r\n\r\na', b'bc'], 'eof': False, 'method': 'GET',
                       'version': 'HTTP/1.1', 'path': '/p0', 'surplus': b'', 'marker': b'',
                       'msg': c08._mk(b'HTTP/1.1 200 OK\r\nContent-Length: 3\r\n\r\n', b'abc')},
                      {'segs': [b'HTTP/1.1 200 OK\r\nTransfer-Encoding: chunked\r\n\r\n2\r\nhi\r\n', b'0\r\n\r\n'], 'eof': False,
                       'method': 'POST', 'version': 'HTTP/1.1', 'path': '/p1', 'surplus': b'', 'marker': b'', 'req_body': b'x=1',
                       'msg': c08._mk(b'HTTP/1.1 200 OK\r\nTransfer-Encoding: chunked\r\n\r\n', b'2\r\nhi\r\n0\r\n\r\n', b'hi', framing='chunked')},
                      {'segs': [b'HTTP/1.1 200 OK\r\nContent-Length: 2\r\n\r\nok'], 'eof': False, 'method': 'GET', 'version': 'HTTP/1.1',
                       'path': '/p2', 'surplus': b'', 'marker': b'', 'msg': c08._mk(b'HTTP/1.1 200 OK\r\nContent-Length: 2\r\n\r\n', b'ok')}]
    for point in FAULT_POINTS:
        for k in range(1, 13 if point == 'response_data' else 5):
            out.append((simple(), {'point': point, 'k': k}))
    for _ in range(n):
        exs = [e for e in gen_exchanges(rng) if not e['surplus']] or gen_exchanges(rng)
        for e in exs:
            e['surplus_unused'] = None
        exs = [e for e in exs if not e['surplus']]
        if exs:
            point = rng.choice(FAULT_POINTS)
            out.append((exs, {'point': point, 'k': rng.randrange(1, 12 if point == 'response_data' else len(exs) + 2)}))
    return out


# ------------------------------------------------------------------ overlap: two web sessions, one pool
A_MSG = b'HTTP/1.1 200 OK\r\nContent-Length: 3\r\n\r\nabc'


def overlap_cases(rng, extra):
    body = b'0123456789' * 4
    shapes = [('close', b'HTTP/1.1 200 OK\r\nX: y\r\n\r\n' + body, True, 'HTTP/1.1'),
              ('close', b'HTTP/1.0 200 OK\r\n\r\n' + body, True, 'HTTP/1.0'),
              ('close', b'HTTP/1.1 200 OK\r\nConnection: close\r\n\r\n' + body, True, 'HTTP/1.1'),
              ('length', b'HTTP/1.1 200 OK\r\nContent-Length: 40\r\n\r\n' + body, False, 'HTTP/1.1'),
              ('chunked', b'HTTP/1.1 200 OK\r\nTransfer-Encoding: chunked\r\n\r\n14\r\n' + body[:20] + b'\r\n14;x\r\n' + body[20:]
               + b'\r\n0\r\nT: 1\r\n\r\n', False, 'HTTP/1.1')]
    cases = []
    for framing, b_msg, b_eof, b_version in shapes:
        h = b_msg.index(b'\r\n\r\n') + 4
        for cut in sorted({0, 5, h - 1, h, h + 1, h + 17, len(b_msg) - 1, len(b_msg)}):
            for exit_point in ('early', 'mid', 'late'):
                for limit in (1, 2):
                    cases.append({'stream': 'overlap', 'a_msg': A_MSG, 'a_eof': False, 'b_msg': b_msg, 'b_eof': b_eof,
                                  'b_version': b_version, 'b_framing': framing, 'cut': cut, 'exit_point': exit_point, 'limit': limit})
    for _ in range(extra):
        framing, b_msg, b_eof, b_version = rng.choice(shapes)
        cases.append({'stream': 'overlap', 'a_msg': rng.choice([A_MSG, b'HTTP/1.1 200 OK\r\nConnection: close\r\nContent-Length: 3\r\n\r\nabc',
                                                               b'HTTP/1.1 200 OK\r\nTransfer-Encoding: chunked\r\n\r\n3\r\nabc\r\n0\r\n\r\n']),
                      'a_eof': rng.random() < 0.2, 'b_msg': b_msg, 'b_eof': b_eof, 'b_version': b_version, 'b_framing': framing,
                      'cut': rng.randrange(0, len(b_msg) + 1), 'exit_point': rng.choice(['early', 'mid', 'mid', 'late']),
                      'limit': rng.choice([1, 2, 6])})
    return cases


def stream_overlap(ctx, cases):
    """Two web sessions over ONE real connection pool: worker A is still inside its `with
    web_session:` block (its connection already recycled) while worker B reads its response on
    that same kept-alive connection.  Oracle only (no model): every exchange that is reported
    complete has exactly one response record, holding the bytes the server sent for it."""
    from wpull.warc.recorder import WARCRecorderParams
    tmp = tempfile.mkdtemp(prefix='c04o-')
    try:
        for i, case in enumerate(cases):
            prefix = os.path.join(tmp, 'o%d' % i)
            params = WARCRecorderParams(compress=False, log=False, temp_dir=tmp, software_string='verif', digests=i % 2 == 0)
            out = H.real_overlap(case, {'filename': prefix, 'params': params})
            path = prefix + '.warc'
            try:
                records = H.read_warc(path)
            except H.WarcFormatError as err:
                ctx.fail('record-length', 'WARCRecorder', case, str(err))
                continue
            finally:
                if os.path.exists(path):
                    os.remove(path)
            res = {u: out.get(u, ('missing', None, b'')) for u in ('a', 'b')}
            ctx.case(('overlap', case['a_msg'], case['a_eof'], case['b_msg'], case['cut'], case['exit_point'], case['limit']),
                     tags=['overlap:exit=' + case['exit_point'], 'overlap:b=' + case['b_framing'], 'overlap:b-out=' + res['b'][0],
                           'overlap:same-conn' if len({c for c, p in out['requests']}) == 1 else 'overlap:two-conns'])
            for u, msg in (('a', case['a_msg']), ('b', case['b_msg'])):
                blocks = [b for f, b in records if f.get('warc-type') in ('response', 'revisit')
                          and f.get('warc-target-uri') == 'http://h/' + u]
                if res[u][0] != 'ok':
                    if blocks:
                        ctx.fail('record-sequence', 'HTTPWARCRecorderSession', case, '/%s did not complete (%s) but has a response record' % (u, res[u][0]))
                    continue
                if len(blocks) != 1:
                    ctx.fail('record-sequence', 'HTTPWARCRecorderSession', case, '/%s completed, %d response records' % (u, len(blocks)))
                elif blocks[0] != msg:
                    ctx.fail('response-block-not-wire', 'Session.abort' if case['exit_point'] == 'mid' else 'response_data', case,
                             '/%s was reported complete; its response block has %d bytes, the server sent %d bytes for it '
                             '(worker A left its web session %s; %d connection(s) closed under a pending read)'
                             % (u, len(blocks[0]), len(msg), case['exit_point'], out['closed_under_reader']))
        if cases:
            ctx.sample({'stream': 'overlap', 'cases': len(cases)})
    finally:
        shutil.rmtree(tmp, ignore_errors=True)


def replay(ctx, case, kind=None, where=None):
    case = case.get('case', case)
    if case.get('stream') == 'appcrawl':
        stream_appcrawl(ctx, [case])
    elif case.get('stream') == 'redirect':
        stream_redirect(ctx, [case])
    elif case.get('stream') == 'interleave':
        c = dict(case)
        c['steps'] = [tuple(x) for x in case['steps']]
        stream_interleave(ctx, [c])
    elif case.get('stream') == 'overlap':
        stream_overlap(ctx, [case])
    elif case.get('stream') == 'fault':
        exs = []
        for e in case['exchanges']:
            e = dict(e)
            e['msg'] = H.Msg.from_case(e['msg'])
            if e.get('req_body') is None:
                e.pop('req_body', None)
            e['req_fields'] = [tuple(p) for p in e.get('req_fields') or []]
            exs.append(e)
        stream_fault(ctx, [(exs, case['fault'])])
    elif case.get('stream') == 'tworuns':
        c = dict(case)
        for key in ('exs1', 'exs2'):
            lst = []
            for e in case[key]:
                e = dict(e)
                e['msg'] = H.Msg.from_case(e['msg'])
                e['marker'] = b''
                lst.append(e)
            c[key] = lst
        stream_tworuns(ctx, [c])
    elif case.get('stream') == 'warc':
        exs = []
        for e in case['exchanges']:
            e = dict(e)
            e['msg'] = H.Msg.from_case(e['msg'])
            if e.get('req_body') is None:
                e.pop('req_body', None)
            e['req_fields'] = [tuple(p) for p in e.get('req_fields', [])]
            e['dedup'] = bool(e.get('dedup'))
            exs.append(e)
        o = tuple(case.get('opts', (True, False)))
        w = case.get('wiring')
        stream_warc(ctx, [(exs, o, w), (exs, o, w)] if w else [(exs, o), (exs, o)])
    else:
        with_filter(ctx, lambda: c08._replay(ctx, case, kind, where))


def with_filter(ctx, thunk):
    orig = ctx.fail

    def fail(kind, where, case, detail=''):
        if kind in C04_KINDS:
            orig(kind, where, case, detail)
    ctx.fail = fail
    try:
        thunk()
    finally:
        ctx.fail = orig


def run(ctx):
    thorough = ctx.tier == 'thorough'
    for case in c08.load_corpus(ctx, 'C04'):
        replay(ctx, case)
    rng = ctx.rng

    def decode_part():
        cache = {}
        batch = []
        for i in range(ctx.scale(300, 2500)):
            m = H.gen_message(rng)
            for tag, data, eof in c08.variants(rng, m, thorough):
                batch.append((m, tag, data, eof, c08.cutsets(rng, len(data), thorough) if len(data) <= 12000
                              else [[], fakenet.random_cuts(rng, len(data), 'few')]))
            if len(batch) >= 400:
                c08.stream_decode(ctx, batch, thorough, cache)
                batch = []
                cache.clear()
        c08.stream_decode(ctx, batch, thorough, cache)
    with_filter(ctx, decode_part)
    wrng = ctx.subrng('warc')
    seqs = []
    for i in range(ctx.scale(250, 3000)):
        opts = H.OPTS[1 + (i // 4) % 3] if i % 4 >= 2 else (True, False)   # half default, half spread over the other three
        exs = gen_exchanges(wrng, opts, dedup=(i % 5) in (1, 2))
        if i % 3 == 0:
            add_dying_connections(wrng, exs, opts)
        seqs.append((exs, opts))      # 40% of the sequences run with --warc-dedup
    # ... and with the client wired by the application's own set-up tasks (argv): what a
    # --no-http-keep-alive / --ignore-length / ... run archives
    arng = ctx.subrng('app')
    app = []
    for exs, _o, wiring in c08.app_sequences(arng, ctx.scale(24, 400)):
        o = H.options_of_argv(wiring['argv'])
        exs = [e for e in exs if not (e.get('truncated') and o[1])]
        for k, e in enumerate(exs):
            e['path'] = '/p%d' % k
            e['dedup'] = False
        app.append((exs, o, wiring))
    stream_warc(ctx, fixed_dedup_sequences() + fixed_die_sequences() + fixed_unsolicited_sequences() + fixed_long_trailer_sequences() + fixed_negative_length_sequences() + seqs + app)
    stream_overlap(ctx, overlap_cases(ctx.subrng('overlap'), ctx.scale(60, 1500)))
    stream_appcrawl(ctx, appcrawl_cases(ctx.subrng('appcrawl'), ctx.scale(8, 200)))
    stream_interleave(ctx, interleave_cases(ctx.subrng('interleave'), ctx.scale(60, 1500)))
    stream_redirect(ctx, redirect_cases(ctx.subrng('redirect'), ctx.scale(60, 1500)))
    stream_fault(ctx, fault_cases(ctx.subrng('fault'), ctx.scale(80, 2000)))
    trng = ctx.subrng('tworuns')
    stream_tworuns(ctx, fixed_tworuns() + [gen_tworuns(trng) for _ in range(ctx.scale(60, 1200))])


def search(ctx):
    rng = ctx.subrng('search')
    stream_warc(ctx, [(gen_exchanges(rng, H.OPTS[i % 4], dedup=i % 2 == 0), H.OPTS[i % 4]) for i in range(ctx.scale(15, 30))])
