"""C04 — WARC records hold exactly the bytes exchanged on the wire.

Streams (model `Wpull.HttpWire` vs the real code in the wpull tree under test):
  decode   (shared with C08) lock-step co-simulation of Stream.read_response/read_body;
           for C04 the compared component is `notified` = concatenation of the
           notify_read data = what the recorder appends to the response block
  warc     the REAL Client/Session with the REAL WARCRecorder listening to it, against a
           reactive in-memory server; the WARC file is parsed by an independent strict
           reader; request/response blocks are compared byte for byte with what the fake
           server received / sent, and with the model (`http session`, `http request`)
"""
import os
import shutil
import tempfile

import compat  # noqa: F401
import fakenet
from runner import enc, Infra
from engines import http_common as H
from engines import c08

RULE = ('warc: sequences of 2-5 exchanges (message grammar of C08: header formattings, Content-Length, chunked with '
        'extensions and trailers, read-until-close, overrun/surplus, content codings, no-body statuses, HEAD, POST with '
        'a body) x random segmentations x {plain, gzip} WARC files; decode: as C08 with the notified bytes compared. '
        'non-trivial = at least one exchange completed; distinct by (exchange bytes, segmentation, request)')
TRUSTED = c08.TRUSTED + ['harness WARC reader (WARC/1.0 framing by Content-Length, per-record gzip members)']
ASSUMPTIONS = c08.ASSUMPTIONS + ['revisit records need a URL table; the sessions here run without one '
                                 '(the revisit branch rewrites the block and is covered by C05)']
UNPROVED = []

C04_KINDS = {'notified-not-message', 'segmentation-dependent'}


def gen_exchanges(rng, opts=(True, False)):
    exs = c08.gen_sequence(rng, opts)
    for k, e in enumerate(exs):
        if e['method'] == 'POST' and rng.random() < 0.7:
            e['req_body'] = bytes(rng.choice(b'abc=&123') for _ in range(rng.choice([0, 1, 7, 5000])))
        if rng.random() < 0.3:
            e['req_fields'] = [('X-Test', 'v%d' % k), ('Accept', '*/*')][:rng.randrange(1, 3)]
    return exs


def stream_warc(ctx, seqs):
    from wpull.warc.recorder import WARCRecorderParams
    tmp = tempfile.mkdtemp(prefix='c04-')
    lines, metas = [], []
    try:
        for i, item in enumerate(seqs):
            exs, opts = item if isinstance(item, tuple) else (item, (True, False))
            opts = tuple(opts)
            comp = i % 2 == 1
            prefix = os.path.join(tmp, 'w%d' % i)
            params = WARCRecorderParams(compress=comp, log=False, temp_dir=tmp, software_string='verif',
                                        digests=i % 3 != 0)
            results, conns = H.real_session_sequence(exs, recorder_params={'filename': prefix, 'params': params},
                                                     keep_alive=opts[0], ignore_length=opts[1])
            path = prefix + ('.warc.gz' if comp else '.warc')
            case = {'stream': 'warc', 'compress': comp, 'opts': list(opts),
                    'exchanges': [{'segs': e['segs'], 'eof': e['eof'], 'method': e['method'], 'version': e['version'],
                                   'path': e['path'], 'msg': e['msg'].case(), 'surplus': e['surplus'],
                                   'req_body': e.get('req_body'), 'req_fields': e.get('req_fields', [])} for e in exs]}
            try:
                records = H.read_warc(path)
            except (Infra, ValueError, KeyError) as err:
                ctx.fail('warc-unreadable', 'WARCRecorder', case, str(err))
                continue
            finally:
                if os.path.exists(path):
                    os.remove(path)
            recs = [(f, b) for f, b in records if f.get('warc-type') != 'warcinfo']
            check_warc(ctx, case, exs, results, recs, opts)
            toks, rl = [], []
            for e, r in zip(exs, results):
                x = r['x']
                data = b''.join(e['segs'])
                toks += [enc(e['method']), enc(e['version']), 'T' if e['eof'] else 'F', enc(data),
                         '-' if not H.sched_of(x.calls) else '.'.join('%x' % s for s in H.sched_of(x.calls)),
                         ','.join(('o' + enc(v)) if k == 'ok' else ('e' + v) for k, v in x.declog) or '~']
                # field order of the real request: caller's fields, Content-Length (set with the
                # body), then the Host that prepare_for_send adds when the request is written
                fl = list(e.get('req_fields', []))
                if e.get('req_body') is not None:
                    fl.append(('Content-Length', str(len(e['req_body']))))
                fl.append(('Host', 'h'))
                if opts[1]:
                    fl.append(('Connection', 'close'))     # write_request, ignore_length
                flat = []
                for n, v in fl:
                    flat += [enc(n), enc(v)]
                rl.append('http request %s %s %s %s' % (enc(e['method']), enc(e['path']), enc(e['version']), '/'.join(flat)))
            lines.append('http session %s %s ' % ('T' if opts[0] else 'F', 'T' if opts[1] else 'F') + ' '.join(toks))
            lines.extend(rl)
            metas.append((case, exs, results, recs, len(rl)))
        replies = ctx.model.ask(lines)
        pos = 0
        for case, exs, results, recs, nr in metas:
            rep = replies[pos]
            reqs = replies[pos + 1:pos + 1 + nr]
            pos += 1 + nr
            parts = rep.split(' || ') if rep != '~' else []
            m_resp, m_req = [], []
            for e, r, p, q in zip(exs, results, parts, reqs):
                f = p.partition(':')[2].split(' | ')
                if f[0].startswith('ok '):
                    m_resp.append(f[2])
                m_req.append(enc(bytes(H_dec(q)) + (e.get('req_body') or b'')))
            real_resp = [enc(b) for f, b in recs if f.get('warc-type') == 'response']
            real_req = [enc(b) for f, b in recs if f.get('warc-type') == 'request']
            ok = sum(1 for r in results if r['x'].outcome == 'ok')
            ctx.case(('warc', tuple((tuple(e['segs']), e['eof'], e['method'], e.get('req_body')) for e in exs), case['compress']),
                     nontrivial=ok > 0, tags=['warc:exchanges=%d' % len(results), 'warc:gz' if case['compress'] else 'warc:plain'])
            if real_resp != m_resp or real_req != m_req[:len(real_req)]:
                ctx.disagree('warc', {'exchanges': case['exchanges']},
                             {'response_blocks': [s[:300] for s in m_resp], 'request_blocks': [s[:300] for s in m_req]},
                             {'response_blocks': [s[:300] for s in real_resp], 'request_blocks': [s[:300] for s in real_req]})
        if metas:
            ctx.sample({'stream': 'warc', 'exchanges': len(metas[0][1]), 'records': [f.get('warc-type') for f, b in metas[0][3]]})
    finally:
        shutil.rmtree(tmp, ignore_errors=True)


def H_dec(tok):
    return [] if tok == '-' else [int(t, 16) for t in tok.split('.')]


def check_warc(ctx, case, exs, results, recs, opts=(True, False)):
    """Direct oracle: blocks in the file vs the bytes on the fake wire."""
    i = 0
    for k, (e, r) in enumerate(zip(exs, results)):
        x = r['x']
        uri = 'http://h' + e['path']
        if not r['requests']:
            continue
        if i >= len(recs) or recs[i][0].get('warc-type') != 'request':
            ctx.fail('record-sequence', 'HTTPWARCRecorderSession', case, 'exchange %d: expected a request record, found %s'
                     % (k, recs[i][0].get('warc-type') if i < len(recs) else 'end of file'))
            return
        qf, qb = recs[i]
        i += 1
        if qb != r['requests'][0]:
            ctx.fail('request-block-not-wire', 'request_data', case, 'exchange %d: request block %r.. but the server received %r..'
                     % (k, qb[:80], r['requests'][0][:80]))
        if qf.get('warc-target-uri') != uri:
            ctx.fail('record-target', 'begin_request', case, 'exchange %d: request record for %r, requested %r' % (k, qf.get('warc-target-uri'), uri))
        if x.outcome != 'ok':
            if i < len(recs) and recs[i][0].get('warc-type') in ('response', 'revisit'):
                ctx.fail('record-sequence', 'HTTPWARCRecorderSession', case, 'exchange %d did not complete (%s) but has a response record' % (k, x.outcome))
                return
            continue
        if i >= len(recs) or recs[i][0].get('warc-type') not in ('response', 'revisit'):
            ctx.fail('record-sequence', 'HTTPWARCRecorderSession', case, 'exchange %d completed but no response record follows its request record' % k)
            return
        pf, pb = recs[i]
        i += 1
        want = e['msg'].message
        if H.relaxed_by_options(e['msg'], opts):
            want += e['surplus']        # ignore_length: the response extends to the peer's close
        if pb != want:
            d = next((j for j, (a, b) in enumerate(zip(pb, want)) if a != b), min(len(pb), len(want)))
            ctx.fail('response-block-not-wire', 'response_data', case,
                     'exchange %d: response block (%d bytes) differs from what the server sent for it (%d bytes) at offset %d'
                     % (k, len(pb), len(want), d))
        if pf.get('warc-target-uri') != uri:
            ctx.fail('record-target', 'begin_response', case, 'exchange %d: response record for %r, requested %r' % (k, pf.get('warc-target-uri'), uri))
        if pf.get('warc-concurrent-to') != qf.get('warc-record-id'):
            ctx.fail('concurrent-to', 'begin_response', case, 'exchange %d: response is concurrent to %r, request id is %r'
                     % (k, pf.get('warc-concurrent-to'), qf.get('warc-record-id')))
    if i != len(recs):
        ctx.fail('record-sequence', 'HTTPWARCRecorderSession', case, '%d surplus records at the end of the file' % (len(recs) - i))


def replay(ctx, case, kind=None, where=None):
    case = case.get('case', case)
    if case.get('stream') == 'warc':
        exs = []
        for e in case['exchanges']:
            e = dict(e)
            e['msg'] = H.Msg.from_case(e['msg'])
            if e.get('req_body') is None:
                e.pop('req_body', None)
            e['req_fields'] = [tuple(p) for p in e.get('req_fields', [])]
            exs.append(e)
        o = tuple(case.get('opts', (True, False)))
        stream_warc(ctx, [(exs, o), (exs, o)])
    else:
        with_filter(ctx, lambda: c08._replay(ctx, case, kind, where))


def with_filter(ctx, thunk):
    orig = ctx.fail

    def fail(kind, where, case, detail=''):
        if kind in C04_KINDS:
            orig(kind, where, case, detail)
    ctx.fail = fail
    try:
        thunk()
    finally:
        ctx.fail = orig


def run(ctx):
    thorough = ctx.tier == 'thorough'
    for case in c08.load_corpus(ctx, 'C04'):
        replay(ctx, case)
    rng = ctx.rng

    def decode_part():
        cache = {}
        batch = []
        for i in range(ctx.scale(300, 2500)):
            m = H.gen_message(rng)
            for tag, data, eof in c08.variants(rng, m, thorough):
                batch.append((m, tag, data, eof, c08.cutsets(rng, len(data), thorough) if len(data) <= 12000
                              else [[], fakenet.random_cuts(rng, len(data), 'few')]))
            if len(batch) >= 400:
                c08.stream_decode(ctx, batch, thorough, cache)
                batch = []
                cache.clear()
        c08.stream_decode(ctx, batch, thorough, cache)
    with_filter(ctx, decode_part)
    wrng = ctx.subrng('warc')
    seqs = []
    for i in range(ctx.scale(250, 3000)):
        opts = H.OPTS[1 + (i // 4) % 3] if i % 4 >= 2 else (True, False)   # half default, half spread over the other three
        seqs.append((gen_exchanges(wrng, opts), opts))
    stream_warc(ctx, seqs)


def search(ctx):
    rng = ctx.subrng('search')
    stream_warc(ctx, [(gen_exchanges(rng, H.OPTS[i % 4]), H.OPTS[i % 4]) for i in range(ctx.scale(15, 30))])
