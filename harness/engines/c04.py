"""C04 — WARC records hold exactly the bytes exchanged on the wire.

Streams (model `Wpull.HttpWire` vs the real code in the wpull tree under test):
  decode   (shared with C08) lock-step co-simulation of Stream.read_response/read_body;
           for C04 the compared component is `notified` = concatenation of the
           notify_read data = what the recorder appends to the response block
  warc     the REAL Client/Session with the REAL WARCRecorder listening to it, against a
           reactive in-memory server; the WARC file is parsed by an independent strict
           reader; request/response blocks are compared byte for byte with what the fake
           server received / sent, and with the model (`http session`, `http request`)
"""
import os
import shutil
import tempfile

import compat  # noqa: F401
import fakenet
from runner import enc, Infra
from engines import http_common as H
from engines import c08

RULE = ('warc: sequences of 2-5 exchanges (message grammar of C08: header formattings, Content-Length, chunked with '
        'extensions and trailers, read-until-close, overrun/surplus, content codings, no-body statuses, HEAD, POST with '
        'a body) x Stream options x a de-duplication table answering "seen" for some URLs (revisit records) x random segmentations x {plain, gzip} x {digests on, off} WARC files, read strictly by Content-Length; decode: as C08 with the notified bytes compared. '
        'non-trivial = at least one exchange completed; distinct by (exchange bytes, segmentation, request)')
TRUSTED = c08.TRUSTED + ['harness WARC reader (WARC/1.0 framing by Content-Length, per-record gzip members)']
ASSUMPTIONS = c08.ASSUMPTIONS + ['the URL table (--warc-dedup) is a stub that reports chosen URLs as seen; digests and '
                                 'the remaining record fields are C05']
UNPROVED = []

C04_KINDS = {'notified-not-message', 'segmentation-dependent'}


REVISIT_ID = '<urn:uuid:11111111-2222-3333-4444-555555555555>'


class DedupTable:
    """What HTTPWARCRecorderSession needs of the URL table (--warc-dedup): for the URLs in
    `seen` it answers 'this payload was archived before' with the id of that record."""

    def __init__(self, seen):
        self.seen = set(seen)
        self.calls = []

    def get_revisit_id(self, url, digest):
        self.calls.append((url, digest))
        return REVISIT_ID if url in self.seen else None


def gen_exchanges(rng, opts=(True, False), dedup=False):
    exs = c08.gen_sequence(rng, opts)
    for e in exs:
        e['dedup'] = bool(dedup) and rng.random() < 0.5
    for k, e in enumerate(exs):
        if e['method'] == 'POST' and rng.random() < 0.7:
            e['req_body'] = bytes(rng.choice(b'abc=&123') for _ in range(rng.choice([0, 1, 7, 5000])))
        if rng.random() < 0.3:
            e['req_fields'] = [('X-Test', 'v%d' % k), ('Accept', '*/*')][:rng.randrange(1, 3)]
    return exs


def stream_warc(ctx, seqs):
    from wpull.warc.recorder import WARCRecorderParams
    tmp = tempfile.mkdtemp(prefix='c04-')
    lines, metas = [], []
    try:
        for i, item in enumerate(seqs):
            exs, opts = item if isinstance(item, tuple) else (item, (True, False))
            opts = tuple(opts)
            comp = i % 2 == 1
            prefix = os.path.join(tmp, 'w%d' % i)
            table = None
            if any(e.get('dedup') for e in exs) or (exs and exs[0].get('table')):
                table = DedupTable('http://h' + e['path'] for e in exs if e.get('dedup'))
            params = WARCRecorderParams(compress=comp, log=False, temp_dir=tmp, software_string='verif',
                                        digests=i % 3 != 0, url_table=table)
            results, conns = H.real_session_sequence(exs, recorder_params={'filename': prefix, 'params': params},
                                                     keep_alive=opts[0], ignore_length=opts[1])
            path = prefix + ('.warc.gz' if comp else '.warc')
            case = {'stream': 'warc', 'compress': comp, 'opts': list(opts),
                    'exchanges': [{'segs': e['segs'], 'eof': e['eof'], 'method': e['method'], 'version': e['version'],
                                   'path': e['path'], 'msg': e['msg'].case(), 'surplus': e['surplus'],
                                   'req_body': e.get('req_body'), 'req_fields': e.get('req_fields', []),
                                   'dedup': bool(e.get('dedup'))} for e in exs]}
            try:
                records = H.read_warc(path)
            except H.WarcFormatError as err:
                # read strictly by the declared Content-Length: a wrong length is a failure
                kind = 'revisit-length' if err.rtype == 'revisit' else 'record-length'
                ctx.fail(kind, '_record_revisit' if err.rtype == 'revisit' else 'WARCRecorder', case, str(err))
                continue
            except (Infra, ValueError, KeyError) as err:
                ctx.fail('warc-unreadable', 'WARCRecorder', case, str(err))
                continue
            finally:
                if os.path.exists(path):
                    os.remove(path)
            recs = [(f, b) for f, b in records if f.get('warc-type') != 'warcinfo']
            check_warc(ctx, case, exs, results, recs, opts)
            toks, rl = [], []
            for e, r in zip(exs, results):
                x = r['x']
                data = b''.join(e['segs'])
                toks += [enc(e['method']), enc(e['version']), 'T' if e['eof'] else 'F', enc(data),
                         '-' if not H.sched_of(x.calls) else '.'.join('%x' % s for s in H.sched_of(x.calls)),
                         ','.join(('o' + enc(v)) if k == 'ok' else ('e' + v) for k, v in x.declog) or '~']
                # field order of the real request: caller's fields, Content-Length (set with the
                # body), then the Host that prepare_for_send adds when the request is written
                fl = list(e.get('req_fields', []))
                if e.get('req_body') is not None:
                    fl.append(('Content-Length', str(len(e['req_body']))))
                fl.append(('Host', 'h'))
                if opts[1]:
                    fl.append(('Connection', 'close'))     # write_request, ignore_length
                flat = []
                for n, v in fl:
                    flat += [enc(n), enc(v)]
                rl.append('http request %s %s %s %s' % (enc(e['method']), enc(e['path']), enc(e['version']), '/'.join(flat)))
            lines.append('http session %s %s ' % ('T' if opts[0] else 'F', 'T' if opts[1] else 'F') + ' '.join(toks))
            lines.extend(rl)
            metas.append((case, exs, results, recs, len(rl)))
        replies = ctx.model.ask(lines)
        pos = 0
        for case, exs, results, recs, nr in metas:
            rep = replies[pos]
            reqs = replies[pos + 1:pos + 1 + nr]
            pos += 1 + nr
            parts = rep.split(' || ') if rep != '~' else []
            m_resp, m_req = [], []
            for e, r, p, q in zip(exs, results, parts, reqs):
                f = p.partition(':')[2].split(' | ')
                if f[0].startswith('ok '):
                    m_resp.append((f[2], bool(e.get('dedup'))))
                m_req.append(enc(bytes(H_dec(q)) + (e.get('req_body') or b'')))
            # a revisit record keeps the header block only: the model cuts the recorded bytes
            cut = ctx.model.ask(['http revisit ' + t for t, d in m_resp if d])
            cut = iter(cut)
            m_resp = [(next(cut) if d else t) for t, d in m_resp]
            real_resp = [enc(b) for f, b in recs if f.get('warc-type') in ('response', 'revisit')]
            real_req = [enc(b) for f, b in recs if f.get('warc-type') == 'request']
            ok = sum(1 for r in results if r['x'].outcome == 'ok')
            ctx.case(('warc', tuple((tuple(e['segs']), e['eof'], e['method'], e.get('req_body')) for e in exs), case['compress']),
                     nontrivial=ok > 0, tags=['warc:exchanges=%d' % len(results), 'warc:gz' if case['compress'] else 'warc:plain',
                                              'warc:opts=%s%s' % ('ka' if case['opts'][0] else 'noka', '+il' if case['opts'][1] else '')]
                     + (['warc:dedup'] if any(e.get('dedup') for e in exs) else []))
            ctx.tag('warc:revisit-records', sum(1 for f, b in recs if f.get('warc-type') == 'revisit'))
            if real_resp != m_resp or real_req != m_req[:len(real_req)]:
                ctx.disagree('warc', {'exchanges': case['exchanges']},
                             {'response_blocks': [s[:300] for s in m_resp], 'request_blocks': [s[:300] for s in m_req]},
                             {'response_blocks': [s[:300] for s in real_resp], 'request_blocks': [s[:300] for s in real_req]})
        if metas:
            ctx.sample({'stream': 'warc', 'exchanges': len(metas[0][1]), 'records': [f.get('warc-type') for f, b in metas[0][3]]})
    finally:
        shutil.rmtree(tmp, ignore_errors=True)


def H_dec(tok):
    return [] if tok == '-' else [int(t, 16) for t in tok.split('.')]


def check_warc(ctx, case, exs, results, recs, opts=(True, False)):
    """Direct oracle: blocks in the file vs the bytes on the fake wire."""
    i = 0
    for k, (e, r) in enumerate(zip(exs, results)):
        x = r['x']
        uri = 'http://h' + e['path']
        if not r['requests']:
            continue
        if i >= len(recs) or recs[i][0].get('warc-type') != 'request':
            ctx.fail('record-sequence', 'HTTPWARCRecorderSession', case, 'exchange %d: expected a request record, found %s'
                     % (k, recs[i][0].get('warc-type') if i < len(recs) else 'end of file'))
            return
        qf, qb = recs[i]
        i += 1
        if qb != r['requests'][0]:
            ctx.fail('request-block-not-wire', 'request_data', case, 'exchange %d: request block %r.. but the server received %r..'
                     % (k, qb[:80], r['requests'][0][:80]))
        if qf.get('warc-target-uri') != uri:
            ctx.fail('record-target', 'begin_request', case, 'exchange %d: request record for %r, requested %r' % (k, qf.get('warc-target-uri'), uri))
        if x.outcome != 'ok':
            if i < len(recs) and recs[i][0].get('warc-type') in ('response', 'revisit'):
                ctx.fail('record-sequence', 'HTTPWARCRecorderSession', case, 'exchange %d did not complete (%s) but has a response record' % (k, x.outcome))
                return
            continue
        if i >= len(recs) or recs[i][0].get('warc-type') not in ('response', 'revisit'):
            ctx.fail('record-sequence', 'HTTPWARCRecorderSession', case, 'exchange %d completed but no response record follows its request record' % k)
            return
        pf, pb = recs[i]
        i += 1
        want = e['msg'].message
        if H.relaxed_by_options(e['msg'], opts):
            want += e['surplus']        # ignore_length: the response extends to the peer's close
        if e.get('dedup'):
            # the table knows this payload: a revisit record, holding the header block the server sent
            if pf.get('warc-type') != 'revisit':
                ctx.fail('revisit-missing', '_record_revisit', case, 'exchange %d: the table reported the payload as seen but a %s '
                         'record was written' % (k, pf.get('warc-type')))
            want = e['msg'].head
            if pf.get('warc-refers-to') != REVISIT_ID:
                ctx.fail('revisit-fields', '_record_revisit', case, 'exchange %d: WARC-Refers-To %r' % (k, pf.get('warc-refers-to')))
        elif pf.get('warc-type') != 'response':
            ctx.fail('record-sequence', 'HTTPWARCRecorderSession', case, 'exchange %d: %s record for a payload the table does not know'
                     % (k, pf.get('warc-type')))
        if pb != want:
            d = next((j for j, (a, b) in enumerate(zip(pb, want)) if a != b), min(len(pb), len(want)))
            if e.get('dedup'):
                ctx.fail('revisit-block-not-header', '_record_revisit', case,
                         'exchange %d: revisit block (%d bytes) is not the header block the server sent, through its terminating '
                         'empty line (%d bytes); first difference at offset %d' % (k, len(pb), len(want), d))
            else:
                ctx.fail('response-block-not-wire', 'response_data', case,
                         'exchange %d: response block (%d bytes) differs from what the server sent for it (%d bytes) at offset %d'
                         % (k, len(pb), len(want), d))
        if pf.get('warc-target-uri') != uri:
            ctx.fail('record-target', 'begin_response', case, 'exchange %d: response record for %r, requested %r' % (k, pf.get('warc-target-uri'), uri))
        if pf.get('warc-concurrent-to') != qf.get('warc-record-id'):
            ctx.fail('concurrent-to', 'begin_response', case, 'exchange %d: response is concurrent to %r, request id is %r'
                     % (k, pf.get('warc-concurrent-to'), qf.get('warc-record-id')))
    if i != len(recs):
        ctx.fail('record-sequence', 'HTTPWARCRecorderSession', case, '%d surplus records at the end of the file' % (len(recs) - i))


def fixed_dedup_sequences():
    """revisit records between ordinary ones, every framing, with and without digests / gzip
    (stream_warc alternates those by sequence index)"""
    out = []
    shapes = [(b'HTTP/1.1 200 OK\r\nContent-Length: 11\r\n\r\n', b'hello world', b'hello world', 'length'),
              (b'HTTP/1.1 200 OK\nTransfer-Encoding: chunked\n\n', b'5;x\nhello\n0\nT: 1\n\n', b'hello', 'chunked'),
              (b'HTTP/1.1 200 OK\r\nX: a\r\n b\r\nContent-Length: 0\r\n\r\n', b'', b'', 'length'),
              (b'HTTP/1.1 304 NM\r\nContent-Length: 5\r\n\r\n', b'', b'', 'none'),
              # whitespace-only lines inside the header block: they are not the empty line that ends it
              (b'HTTP/1.1 200 OK\r\nX-A: 1\r\n \r\nContent-Length: 4\r\nX-B: 2\r\n\r\n', b'body', b'body', 'length'),
              (b'HTTP/1.1 200 OK\n\t\nX-Fold: a\n \n\tb\nContent-Length: 2\n\x0b\n\n', b'ok', b'ok', 'length'),
              (b'HTTP/1.1 200 OK\r\nTransfer-Encoding: chunked\r\n \r\r\nX: y\r\n\r\n', b'1\r\nz\r\n0\r\n\r\n', b'z', 'chunked')]
    for rep in range(6):       # 6 consecutive indices: both compressions x all three digest phases
        exs = []
        for k, (head, framed, payload, framing) in enumerate(shapes + shapes[:1]):
            m = c08._mk(head, framed, payload, code=304 if framing == 'none' else 200, framing=framing)
            exs.append({'segs': fakenet.segment(m.message, [len(head)] if rep % 2 else []), 'eof': False, 'method': 'GET',
                        'version': 'HTTP/1.1', 'path': '/p%d' % k, 'msg': m, 'surplus': b'', 'marker': b'',
                        'dedup': k < len(shapes)})
        out.append((exs, (True, False)))
    return out


def replay(ctx, case, kind=None, where=None):
    case = case.get('case', case)
    if case.get('stream') == 'warc':
        exs = []
        for e in case['exchanges']:
            e = dict(e)
            e['msg'] = H.Msg.from_case(e['msg'])
            if e.get('req_body') is None:
                e.pop('req_body', None)
            e['req_fields'] = [tuple(p) for p in e.get('req_fields', [])]
            e['dedup'] = bool(e.get('dedup'))
            exs.append(e)
        o = tuple(case.get('opts', (True, False)))
        stream_warc(ctx, [(exs, o), (exs, o)])
    else:
        with_filter(ctx, lambda: c08._replay(ctx, case, kind, where))


def with_filter(ctx, thunk):
    orig = ctx.fail

    def fail(kind, where, case, detail=''):
        if kind in C04_KINDS:
            orig(kind, where, case, detail)
    ctx.fail = fail
    try:
        thunk()
    finally:
        ctx.fail = orig


def run(ctx):
    thorough = ctx.tier == 'thorough'
    for case in c08.load_corpus(ctx, 'C04'):
        replay(ctx, case)
    rng = ctx.rng

    def decode_part():
        cache = {}
        batch = []
        for i in range(ctx.scale(300, 2500)):
            m = H.gen_message(rng)
            for tag, data, eof in c08.variants(rng, m, thorough):
                batch.append((m, tag, data, eof, c08.cutsets(rng, len(data), thorough) if len(data) <= 12000
                              else [[], fakenet.random_cuts(rng, len(data), 'few')]))
            if len(batch) >= 400:
                c08.stream_decode(ctx, batch, thorough, cache)
                batch = []
                cache.clear()
        c08.stream_decode(ctx, batch, thorough, cache)
    with_filter(ctx, decode_part)
    wrng = ctx.subrng('warc')
    seqs = []
    for i in range(ctx.scale(250, 3000)):
        opts = H.OPTS[1 + (i // 4) % 3] if i % 4 >= 2 else (True, False)   # half default, half spread over the other three
        seqs.append((gen_exchanges(wrng, opts, dedup=(i % 5) in (1, 2)), opts))      # 40% of the sequences run with --warc-dedup
    stream_warc(ctx, fixed_dedup_sequences() + seqs)


def search(ctx):
    rng = ctx.subrng('search')
    stream_warc(ctx, [(gen_exchanges(rng, H.OPTS[i % 4], dedup=i % 2 == 0), H.OPTS[i % 4]) for i in range(ctx.scale(15, 30))])
