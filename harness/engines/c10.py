"""C10 — URL normalisation yields a stable canonical form (engine `Url`).

Streams (model `Wpull.Url` vs the real `wpull.url` in ctx.repo):
  parse    URLInfo.parse(u, default_scheme, encoding): every attribute, .url, the accessors, or the exception class
  int / ipv4 / flatten / upper / pct / strip / consts / unidb     component functions and constants
Direct oracle on the real outputs (no model involved): idempotence, re-parse equality, character class,
lower-case scheme/host, default port elided, flat absolute path, upper-case escapes, and equality of the
normal form across the spellings of one grammar-level URL (`Spec.render`).
"""
import compat  # noqa: F401
from runner import Infra
from engines import url_common as uc

RULE = ('parse: grammar-directed URLs (scheme x userinfo x host kind {reg-name, IDN, IPv4 in dec/hex/octal/dword/'
        'full-width/padded spellings, IPv6 forms} x port x path segments {dots, empty, escapes, non-ASCII} x query x '
        'fragment), each rendered canonically and in 2 random spellings; explicit ports drawn from {own default, every other '
        'scheme\'s default, default±1, 0, 1, 65535, 65536, misc}; a deterministic port matrix (6 schemes x those ports x 4 hosts x '
        'userinfo x tail) with the distinct-ports-distinct-normal-forms oracle; the string constants of wpull/url_test.py as '
        'seeds, 1-3 character-level mutations of both; a malformed stream (bracket/colon soup, ports, labels, '
        'surrogates); 8% default_scheme != http, 18% encoding != utf-8; thorough adds all strings of length <= 4 '
        '(+ "http://" + all of length <= 5) over {h t p : / . @ [ ] % 0 x}. non-trivial = input non-empty; distinct by '
        '(url, default_scheme, encoding)')
TRUSTED = list(uc.TRUSTED_COMMON)
ASSUMPTIONS = ['"normalising an already normalised URL" re-parses the normal form with the default arguments '
               '(default_scheme http, encoding utf-8), as the crawler does with URLs from its table; the same-encoding '
               're-parse is checked too (known finding for user info)',
               'document encodings: utf-8, latin-1, ascii, cp1252, shift_jis, koi8-r, gbk, euc-kr, big5 (character-wise, '
               'ASCII-transparent) and utf-16, utf-16-le, utf-16-be, utf-32, hz, utf-7 (encoded as UTF-8 by the repaired code), iso-2022-jp, iso-2022-kr (oracle only: '
               'not character-wise, outside the SegSafe hypothesis of the theorems)']
UNPROVED = ['norm_equiv as one composed theorem (equal normal form for all spellings of one URL): proved per component '
            '(ipv4_normal_form_fixed: all IPv4 spellings; flatten_clean: dot/empty segments; upperPct_*: escape case; '
            'scheme_lower/hostname_lower_ascii: case; default_port_elided/nondefault_port_kept: port), checked whole by the oracle',
            'IPv6 text parsing, IDNA ToASCII of non-ASCII hosts, urllib.parse.unquote and str.lower of non-ASCII text are parameters '
            'of the model; the theorems state their hypotheses (ReparseParams, V6Params, PrintParams) and the harness monitors them']


def equivalence(ctx, wu, spec, cases):
    outs = []
    for c in cases:
        if c.exc is not None:
            outs.append('exc')
        else:
            try:
                outs.append(c.info.url)
            except Exception:
                outs.append('exc')
    if len(set(outs)) > 1:
        ctx.fail('spellings-differ', 'url', {'stream': 'equiv', 'urls': [c.url for c in cases]},
                 'spellings of one URL normalise differently: %r' % (list(zip([c.url for c in cases], outs)),))


def batch(ctx, wu, cases):
    uc.correspond(ctx, wu, cases)
    for c in cases:
        ctx.case(c.key(), nontrivial=bool(c.url), tags=c.tags + ['kind:' + c.kind])
        uc.oracle_norm(ctx, wu, c)
    for c in cases[:2]:
        ctx.sample(c.as_json())


def port_matrix(ctx, wu):
    """deterministic: every scheme x {own default, every other scheme's default, default±1, 0, 1, 65535, 65536}"""
    groups = uc.port_matrix_cases()
    batch(ctx, wu, [c for g in groups for c in g])
    for g in groups:
        uc.oracle_ports(ctx, g)
        ctx.tag('port-groups')
    ctx.note('port_matrix', '%d groups: 6 schemes x 4 hosts x userinfo x tail, each with no port and %d explicit ports '
             '(own default, the other schemes\' defaults, default-1, default+1, 0, 1, 65535, 65536)'
             % (len(groups), len(groups[0]) - 1))


def gen_cases(ctx, wu, rng, n_spec, n_seed, n_mal):
    seeds = uc.seed_urls(ctx.repo)
    ctx.note('seed_urls_from_url_test', len(seeds))
    cases = [uc.Case(s, kind='seed') for s in seeds]
    groups = []
    for _ in range(n_spec):
        spec = uc.Spec(rng)
        ds, encoding = uc.pick_config(rng)
        if spec.user is not None and rng.random() < 0.35:
            encoding = rng.choice(['latin-1', 'shift_jis', 'cp1252', 'utf-8'])
        if encoding != 'utf-8':
            ds = 'http'
        g = [uc.Case(spec.render(rng, canonical=True), ds, encoding, 'spec-canonical'),
             uc.Case(spec.render(rng), ds, encoding, 'spec-spelling'),
             uc.Case(spec.render(rng), ds, encoding, 'spec-spelling')]
        cases += g
        if spec.clean():
            groups.append((spec, g))
        if rng.random() < 0.3:
            cases.append(uc.Case(uc.mutate(rng, g[1].url), ds, encoding, 'spec-mutated'))
    for _ in range(n_seed):
        ds, encoding = uc.pick_config(rng)
        cases.append(uc.Case(uc.mutate(rng, rng.choice(seeds)) if seeds else 'http://a/', ds, encoding, 'seed-mutated'))
    for _ in range(n_mal):
        ds, encoding = uc.pick_config(rng)
        cases.append(uc.Case(uc.gen_malformed(rng), ds, encoding, 'malformed'))
    return cases, groups


def exhaustive(ctx, wu):
    import itertools
    cases = []
    for n in range(0, 5):
        for t in itertools.product(uc.SOUP, repeat=n):
            cases.append(uc.Case(''.join(t), kind='exhaustive'))
    for n in range(0, 6):
        for t in itertools.product(uc.SOUP, repeat=n):
            cases.append(uc.Case('http://' + ''.join(t), kind='exhaustive'))
    for k in range(0, len(cases), 20000):
        batch(ctx, wu, cases[k:k + 20000])
    ctx.note('exhaustive', 'all strings of length <= 4, and "http://" + all strings of length <= 5, over %r' % ''.join(uc.SOUP))


def replay(ctx, case, kind=None, where=None):
    wu = uc.setup(ctx)
    s = case.get('stream', 'parse')
    if s == 'parse':
        batch(ctx, wu, [uc.case_of_json(case)])
    elif s == 'equiv':
        cases = [uc.Case(u) for u in case['urls']]
        uc.correspond(ctx, wu, cases)
        equivalence(ctx, wu, None, cases)
    elif s == 'longrun':
        uc.replay_longrun(ctx, wu, case)
    elif s == 'pct':
        uc.stream_pct256(ctx, wu)
    elif s == 'ports':
        cases = [uc.Case(u) for u in case['urls']]
        batch(ctx, wu, cases)
        uc.oracle_ports(ctx, cases)
    elif s == 'ipv4':
        import random
        t = case['text']
        out = wu.normalize_ipv4_address(t)
        if wu.normalize_ipv4_address(out) != out:
            ctx.fail('not-idempotent', 'normalize_ipv4_address', case, '%r -> %r' % (t, out))
    elif s in ('flatten', 'upper', 'pct'):
        if s == 'flatten':
            r = wu.flatten_path(case['path'], flatten_slashes=True)
            if wu.flatten_path(r, flatten_slashes=True) != r:
                ctx.fail('path-not-flat', 'flatten_path', case, r)
        elif s == 'upper':
            r = wu.uppercase_percent_encoding(case['text'])
            if [x for x in uc.HEXESC.finditer(r) if x.group(1) != x.group(1).upper()]:
                ctx.fail('escape-not-upper', 'uppercase_percent_encoding', case, r)
    else:
        raise Infra('unknown replay stream %r' % s)


def run(ctx):
    wu = uc.setup(ctx)
    rs = uc.run_stream        # an exception the real code raises outside a guarded comparison is reported, not a crash
    rs(ctx, 'consts', lambda: uc.stream_consts(ctx, wu))
    for j in uc.load_corpus(ctx, 'C10'):
        rs(ctx, 'corpus', lambda j=j: replay(ctx, j.get('case', j)))
    rng = ctx.rng
    rs(ctx, 'ports', lambda: port_matrix(ctx, wu))
    rs(ctx, 'pct256', lambda: uc.stream_pct256(ctx, wu))
    rs(ctx, 'int', lambda: uc.stream_int(ctx, ctx.scale(3000, 60000), ctx.subrng('int')))
    rs(ctx, 'ipv4', lambda: uc.stream_ipv4(ctx, wu, ctx.scale(2000, 40000), ctx.subrng('ipv4')))
    rs(ctx, 'strings', lambda: uc.stream_strings(ctx, wu, ctx.scale(4000, 80000), ctx.subrng('str')))
    rs(ctx, 'iso2022', lambda: batch(ctx, wu, uc.iso2022_cases(ctx.subrng('iso2022'), ctx.scale(600, 6000))))
    rs(ctx, 'all-codecs', lambda: batch(ctx, wu, uc.all_codec_cases()))
    sweep = uc.byte_sweep_cases()
    rs(ctx, 'byte-sweep', lambda: batch(ctx, wu, sweep[::2] if ctx.tier == 'quick' else sweep))
    total_spec = ctx.scale(4000, 120000)
    total_seed = ctx.scale(3000, 80000)
    total_mal = ctx.scale(2500, 60000)
    chunks = max(1, total_spec // 4000)
    for k in range(chunks):
        def chunk():
            cases, groups = gen_cases(ctx, wu, rng, total_spec // chunks, total_seed // chunks, total_mal // chunks)
            batch(ctx, wu, cases)
            for spec, g in groups:
                equivalence(ctx, wu, spec, g)
                ctx.tag('equiv-groups')
        rs(ctx, 'parse', chunk)
    if ctx.tier == 'thorough' and ctx.boost == 1:
        rs(ctx, 'exhaustive', lambda: exhaustive(ctx, wu))
        ctx.exhaustive = True


def search(ctx):
    wu = uc.setup(ctx)
    rng = ctx.subrng('search')
    port_matrix(ctx, wu)
    cases, groups = gen_cases(ctx, wu, rng, ctx.scale(400, 1000), ctx.scale(300, 800), ctx.scale(200, 500))
    batch(ctx, wu, cases)
    for spec, g in groups:
        equivalence(ctx, wu, spec, g)
