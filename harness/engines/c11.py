"""C11 — URL parsing and joining are total: any text gives a result or a ValueError (engine `Url`).

Streams (model `Wpull.Url` vs the real code in ctx.repo):
  parse    URLInfo.parse + every documented attribute / accessor, or the exception class
  orlog    parse_url_or_log
  join     wpull.scraper.util.urljoin_safe (stdlib urllib.parse.urljoin = logged parameter)
  htmljoin the HTML scraper glue: the real HTMLScraper.scrape over generated documents (<base href>, <a>, <img>, <object codebase data
           classid archive>, <applet codebase code archive>; hostile base/codebase values x link values of every class):
           never raises, every produced link = urljoin_safe(document base / joined codebase / page URL, link, allow_fragments=False);
           the model's base selection (docBase, elementBase) and join agree item by item
  sitemaps ProcessingRule.add_extra_urls (--sitemaps, level-0 item) for start URLs over the host grammar (IPv6 literals with and
           without port, IPv4 spellings, IDN, default / other ports, every network scheme): never raises; queues what URLInfo gives
           for scheme://hostname_with_port/robots.txt and /sitemap.xml; model extraUrls agrees
  longrun  one long-lived process: 3500 (thorough 30000) distinct hosts / paths / queries are parsed first, no cache cleared; each
           must give its expected normal form; at the end earlier and new inputs are parsed again and compared with the (history-
           free) model; a failure carries the number of URLs parsed before and the replay re-creates that history
  byte-sweep  the `encoding` argument as a dimension: 19 codecs x every byte value 0x80..0xFF x {path, query, fragment, user info}
  pct256   percent_encode for all 256 byte values x 5 encode sets
  rewrite  URLRewriter.rewrite (--escaped-fragment / --strip-session-id, all four combinations) directly and through the start-URL
           import InputURLTask._read_input_urls, on URLs with braces and format-spec look-alikes ({id} {} {0} {0!r} {:>9} lone braces
           {{x}} %s %(x)s) in path / query / fragment and #! fragments: nothing but ValueError-or-skip; result = the concatenation
           reference; model rewriteEscaped agrees (hash-fragment part)
  itemsession  the real ItemSession (add_url / add_child_url / set_status / skip / finish) on a real in-memory SQLite URL table: each
           unparseable link is offered 2-3 times within and across item sessions of one process, flush included: add never raises,
           nothing unparseable is queued, the flush never raises, the good links are stored
  non-network / normalize  texts without a network scheme (data:, javascript:, mailto:, about:, tel: … in any case, with surrounding white
           space) through URLInfo.parse, parse_url_or_log and wpull.url.normalize: the result is a URLInfo (a str for normalize) or a
           ValueError - never None, never another exception
  scrape   the consumer of the logging variant: the real ProcessingRule.scrape_document / _process_scrape_info (real FetchRule,
           real URLRewriter with every option combination incl. none, stub ItemSession table and scraper result) on link lists
           mixing parseable links with every class of unparseable one: never raises, unparseable skipped, parseable queued
  int / consts / unidb
Direct oracle on the real code: parse raises nothing but ValueError, returns within the time guard, every
attribute of a result can be read; parse_url_or_log never raises; urljoin raises only ValueError and
urljoin_safe never raises.
"""
import urllib.parse

import compat  # noqa: F401
from runner import enc, Infra
from engines import url_common as uc

RULE = ('parse/orlog: malformed stream (bracket and colon soup over {h t p : / . @ [ ] % 0 x}, huge/odd ports, '
        '63/64/300-character labels, IPv6 bracket forms, lone surrogates in every component, Unicode spaces and digits), '
        'the string constants of wpull/url_test.py and 1-3 character-level mutations of them, grammar-directed URLs; '
        '12% default_scheme in {None, "", ftp, https, mailto, x.y}, 18% encoding != utf-8; join: (base, link) pairs from the same '
        'pools plus scheme-relative links, each with allow_fragments True and False; htmljoin: documents with 0-2 <base>, 1-4 elements, 45% hostile codebase; scrape: link lists (junk classes x good links x mutated/grammar links with #! fragments and session ids) x 5 URLRewriter settings; thorough adds all strings of length <= 4 (+ "http://" + length <= 5) over the soup '
        'alphabet. non-trivial = input non-empty; distinct by (stream, url, default_scheme, encoding)')
TRUSTED = list(uc.TRUSTED_COMMON) + [
    'urllib.parse.urljoin raises only ValueError (hypothesis of urljoin_safe_only_valueerror; monitored on every sampled call)']
ASSUMPTIONS = ['the verdict for an input does not depend on what the process parsed before: checked by the longrun stream (the model is history-free)',
               'termination of the real code is observed through a 10 s guard per call; termination of the model is '
               "Lean's totality check (no partial def, no fuel in the URL model except natDec's digit fuel)",
               'document encodings are ASCII-compatible stateless codecs (see C10)']
UNPROVED = []


def batch(ctx, wu, cases, op='parse'):
    uc.correspond(ctx, wu, cases, op=op, stream=op)
    for c in cases:
        ctx.case((op,) + c.key(), nontrivial=bool(c.url), tags=[op + ':' + t for t in c.tags[:1]] + c.tags[1:] + ['kind:' + c.kind])
        uc.oracle_total(ctx, c, op)
    for c in cases[:2]:
        ctx.sample(dict(c.as_json(), stream=op))


SEP = 0x110001


def join_key(base, url, af):
    return [ord(c) for c in base] + [SEP] + [ord(c) for c in url] + [SEP, 1 if af else 0]


class JoinLog:
    """wraps the stdlib urllib.parse.urljoin (the `stdJoin` parameter of the model) while a case runs"""
    def __init__(self, ctx):
        self.ctx, self.log = ctx, []

    def __enter__(self):
        self.orig = urllib.parse.urljoin
        log, orig, ctx = self.log, self.orig, self.ctx

        def logging_join(b, u, allow_fragments=True):
            try:
                r = orig(b, u, allow_fragments=allow_fragments)
            except Exception as e:
                if isinstance(b, str) and isinstance(u, str):
                    log.append((join_key(b, u, allow_fragments), e))
                if not isinstance(e, ValueError):
                    ctx.tag('stdlib-urljoin-raised:' + type(e).__name__)
                raise
            if isinstance(b, str) and isinstance(u, str):
                log.append((join_key(b, u, allow_fragments), r))
            return r
        urllib.parse.urljoin = logging_join
        return self

    def __exit__(self, *a):
        urllib.parse.urljoin = self.orig
        return False

    def table(self):
        seen, out = set(), []
        for k, v in self.log:
            if tuple(k) not in seen:
                seen.add(tuple(k))
                out.append((k, uc.eexc_value(v)))
        return uc.etable(out)


def join_batch(ctx, wu, pairs):
    import wpull.scraper.util as su
    reqs, reals, meta = [], [], []
    for base, link in pairs:
        for af in (True, False):
            wu.urljoin.cache_clear()
            case = {'stream': 'join', 'base': base, 'url': link, 'allow_fragments': af}
            exc = None
            with JoinLog(ctx) as jl:
                try:
                    with uc.guard():
                        try:
                            r = su.urljoin_safe(base, link, allow_fragments=af)
                            real = 'none' if r is None else 'some ' + enc(r)
                        except uc.Timeout:
                            raise
                        except BaseException as e:
                            exc = e
                            real = 'exc ' + uc.exc_name(e)
                except uc.Timeout:
                    real = 'timeout'
                    ctx.fail('nontermination', 'urljoin_safe', case, 'timeout')
            if exc is not None:
                ctx.fail('raises', 'urljoin_safe', case,
                         'urljoin_safe raised %s: %s' % (type(exc).__name__, str(exc)[:200]))
            # the unguarded join: only ValueError
            wu.urljoin.cache_clear()
            try:
                wu.urljoin(base, link, allow_fragments=af)
            except ValueError:
                pass
            except Exception as e:
                ctx.fail('non-valueerror', 'urljoin', case, 'urljoin raised %s: %s' % (type(e).__name__, str(e)[:200]))
            reqs.append('url join %s %s %s %s' % ('T' if af else 'F', enc(base), enc(link), jl.table()))
            reals.append(real)
            meta.append(case)
            ctx.case(('join', base, link, af), nontrivial=bool(link), tags=['join:' + real.split(' ')[0], 'join:af=%s' % af])
    replies = ctx.model.ask(reqs)
    for case, rep, real in zip(meta, replies, reals):
        if rep != real:
            ctx.disagree('join', case, rep, real)
    if pairs:
        ctx.sample({'stream': 'join', 'base': pairs[0][0], 'url': pairs[0][1]})


# ------------------------------------------------------------------ HTMLScraper glue: base selection + join
HOSTILE_BASES = ['http://[broken/', '//[::1::]/', 'http://\u2100.com/', 'http://a\uff03b/', '//[', 'http://[x]/', 'http://a@[b', '//\u2100/p']
OK_BASES = ['http://other.example/base/', '/sub/dir/', 'rel/', '//cdn.example/x/', '..', 'http://example.com/a/b.html#frag', '?q', '#f', 'ftp://f.example/']
LINK_VALUES = ['x.class', 'a/b.jar', '/abs/p', '//host2/path', '//host2', '//', '#top', '#!bang', '#', '?x=1', '', ' ', '.', '..', '../up',
               'http://abs.example/z', 'https://s.example/#f', 'mailto:m@x', 'javascript:void(0)', 'http://[bad/', '//[bad', 'http://\u2100.com/',
               'a b', 'p?q#f', ':', 'x:y', '//host2/p#f', '\u00e9.png', 'data:,x', '/a/../b', '///triple']


def gen_doc(rng):
    page = rng.choice(['http://example.com/', 'http://example.com/dir/page.html', 'http://example.com/dir/page.html?q=1',
                       'https://example.com:8443/a/b/', 'http://[::1]/x/y'])
    bases = []
    for _ in range(rng.choice([0, 0, 1, 1, 2])):
        bases.append(rng.choice(HOSTILE_BASES) if rng.random() < 0.4 else rng.choice(OK_BASES + ['', ' ']))
    elements = []
    for _ in range(rng.randrange(1, 5)):
        r = rng.random()
        if r < 0.25:
            elements.append(('a', None, [('href', rng.choice(LINK_VALUES))]))
        elif r < 0.35:
            elements.append(('img', None, [('src', rng.choice(LINK_VALUES))]))
        else:
            tag = rng.choice(['object', 'applet'])
            cb = None
            rr = rng.random()
            if rr < 0.45:
                cb = rng.choice(HOSTILE_BASES)
            elif rr < 0.8:
                cb = rng.choice(OK_BASES + ['', ' '])
            attrs = []
            for attr in (('data', 'classid', 'src') if tag == 'object' else ('code', 'src')):
                if rng.random() < 0.6:
                    attrs.append((attr, rng.choice(LINK_VALUES)))
            if rng.random() < 0.5:
                attrs.append(('archive', ' '.join(rng.choice([v for v in LINK_VALUES if ' ' not in v and v]) for _ in range(rng.randrange(1, 4)))))
            elements.append((tag, cb, attrs))
    return {'stream': 'htmljoin', 'page': page, 'bases': bases, 'elements': [[t, c, [list(a) for a in at]] for t, c, at in elements]}


def render_doc(doc):
    import html
    out = ['<!DOCTYPE html><html><head><title>t</title>']
    for b in doc['bases']:
        out.append('<base href="%s">' % html.escape(b, quote=True))
    out.append('</head><body>')
    for tag, cb, attrs in doc['elements']:
        parts = [tag]
        if cb is not None:
            parts.append('codebase="%s"' % html.escape(cb, quote=True))
        for k, v in attrs:
            parts.append('%s="%s"' % (k, html.escape(v, quote=True)))
        out.append('<%s>' % ' '.join(parts))
        if tag in ('a', 'object', 'applet'):
            out.append('x</%s>' % tag)
    out.append('</body></html>')
    return ''.join(out).encode('utf-8')


def html_batch(ctx, wu, docs):
    """the real HTMLScraper over generated documents: never raises; every produced link is what
    urljoin_safe(selected base, link, allow_fragments=False) gives; model base selection agrees"""
    import wpull.scraper.util as su
    from wpull.body import Body
    from wpull.document.htmlparse.html5lib_ import HTMLParser
    from wpull.protocol.http.request import Request, Response
    from wpull.scraper.html import HTMLScraper, ElementWalker
    scraper = HTMLScraper(HTMLParser(), ElementWalker())
    reqs, refs, metas = [], [], []
    for doc in docs:
        page = doc['page']
        request = Request(page)
        response = Response(200, 'OK')
        response.fields['Content-Type'] = 'text/html; charset=utf-8'
        response.body = Body()
        response.body.write(render_doc(doc))
        response.body.seek(0)
        wu.urljoin.cache_clear()
        exc, result = None, None
        with JoinLog(ctx) as jl:
            try:
                with uc.guard():
                    try:
                        result = scraper.scrape(request, response)
                    except uc.Timeout:
                        raise
                    except BaseException as e:
                        exc = e
            except uc.Timeout:
                ctx.fail('nontermination', 'HTMLScraper.scrape', doc, 'timeout')
                continue
            # reference: base selection as the property words it, joins by the real urljoin_safe (same log)
            page_url = request.url_info.url
            expected, items = set(), []
            ref_exc = None
            try:
                doc_base = None
                seen_hrefs = []
                for href in doc['bases']:
                    if not doc_base:
                        doc_base = su.urljoin_safe(page_url, su.clean_link_soup(href))
                    seen_hrefs.append(su.clean_link_soup(href))
                    # the <base> element's own href is a link too, joined against the base known so far
                    cleaned = su.clean_link_soup(href)
                    if cleaned:
                        eb = doc_base or page_url
                        url = su.urljoin_safe(eb, cleaned, allow_fragments=False)
                        if url:
                            expected.add(url)
                        items.append((list(seen_hrefs), None, cleaned, eb, url))
                for tag, cb, attrs in doc['elements']:
                    links = []
                    if tag in ('object', 'applet'):
                        if cb:
                            links.append((cb, None))
                        for k, v in attrs:
                            if k == 'archive':
                                links += [(m, cb) for m in v.split(' ') if m]
                            else:
                                links.append((v, cb))
                    else:
                        links += [(v, None) for k, v in attrs]
                    for link, base_link in links:
                        eb = doc_base or page_url
                        cbc = None
                        if base_link:
                            cbc = su.clean_link_soup(base_link)
                            if cbc:
                                eb = su.urljoin_safe(page_url, cbc) or page_url
                        cleaned = su.clean_link_soup(link)
                        if not cleaned:
                            continue
                        url = su.urljoin_safe(eb, cleaned, allow_fragments=False)
                        if url:
                            expected.add(url)
                        items.append((list(seen_hrefs), cbc if base_link else None, cleaned, eb, url))
            except Exception as e:
                ref_exc = e
        ctx.case(('htmljoin', repr(doc)), tags=['htmljoin:' + ('exc' if exc else 'ok')])
        if exc is not None:
            ctx.fail('raises', 'HTMLScraper.scrape', doc, 'HTMLScraper.scrape raised %s: %s' % (type(exc).__name__, str(exc)[:200]))
            continue
        if ref_exc is not None:
            ctx.fail('raises', 'urljoin_safe', doc, 'the reference join raised %s: %s' % (type(ref_exc).__name__, str(ref_exc)[:200]))
            continue
        got = set(c.link for c in result.link_contexts) if result else set()
        if got != expected:
            ctx.fail('links-differ', 'HTMLScraper.scrape', doc,
                     'scraped %r, joining against the selected bases gives %r' % (sorted(got - expected)[:6], sorted(expected - got)[:6]))
        table = jl.table()
        for hrefs, cbc, cleaned, eb, url in items:
            reqs.append('url htmljoin %s %s %s %s %s' % (
                enc(page_url), '~' if not hrefs else '/'.join(enc(h) for h in hrefs),
                'None' if cbc is None else '=' + enc(cbc), enc(cleaned), table))
            refs.append('base =%s %s' % (enc(eb), 'none' if url is None else 'some ' + enc(url)))
            metas.append(doc)
    replies = ctx.model.ask(reqs)
    for doc, rep, ref in zip(metas, replies, refs):
        if rep != ref:
            ctx.disagree('htmljoin', doc, rep, ref)
    if docs:
        ctx.sample(docs[0])


# ------------------------------------------------------------------ consumer of parse_url_or_log: ProcessingRule
class _Table:
    def __init__(self):
        self.added = []

    def add_many(self, infos):
        self.added.extend(info.url for info in infos)

    def remove_many(self, urls):
        pass


class _AppSession:
    def __init__(self):
        self.factory = {'URLTable': _Table()}


class _Scraper:
    """stands in for DemuxDocumentScraper: returns fixed link contexts"""
    def __init__(self, links, encoding='utf-8'):
        self.links, self.encoding = links, encoding

    def scrape_info(self, request, response, link_type=None):
        from wpull.scraper.base import ScrapeResult, LinkContext
        ctxs = [LinkContext(link, inline=(k % 3 == 0), linked=(k % 3 != 0)) for k, link in enumerate(self.links)]
        return {self: ScrapeResult(ctxs, self.encoding)}


REWRITER_COMBOS = [None, (False, False), (True, False), (False, True), (True, True)]


def scrape_batch(ctx, wu, link_lists):
    """drive the real ProcessingRule.scrape_document with each URLRewriter option combination:
    never raises; unparseable links are skipped; every parseable link is queued"""
    from wpull.pipeline.item import URLRecord, Status
    from wpull.pipeline.session import ItemSession
    from wpull.processor.rule import FetchRule, ProcessingRule
    from wpull.protocol.http.request import Request
    from wpull.urlrewrite import URLRewriter
    reqs, meta = [], []
    for links in link_lists:
        for combo in REWRITER_COMBOS:
            record = URLRecord()
            record.url = 'http://example.com/'
            record.status = Status.in_progress
            record.level = 0
            record.inline_level = None
            record.root_url = None
            record.parent_url = None
            record.link_type = None
            app = _AppSession()
            item = ItemSession(app, record)
            item.request = Request('http://example.com/')
            rewriter = URLRewriter(hash_fragment=combo[0], session_id=combo[1]) if combo else None
            rule = ProcessingRule(FetchRule(), document_scraper=_Scraper(links), url_rewriter=rewriter)
            case = {'stream': 'scrape', 'links': links, 'rewriter': list(combo) if combo else None}
            wu.URLInfo.parse.__func__.cache_clear()
            exc = None
            try:
                with uc.guard():
                    try:
                        rule.scrape_document(item)
                        item.finish()
                    except uc.Timeout:
                        raise
                    except BaseException as e:
                        exc = e
            except uc.Timeout:
                ctx.fail('nontermination', 'scrape_document', case, 'timeout')
                continue
            added = app.factory['URLTable'].added
            ctx.case(('scrape', tuple(links), combo), nontrivial=bool(links),
                     tags=['scrape:' + ('exc' if exc else 'ok'), 'scrape:rewriter=%s' % (combo,)])
            if exc is not None:
                ctx.fail('raises', 'scrape_document', case,
                         'ProcessingRule.scrape_document raised %s: %s' % (type(exc).__name__, str(exc)[:200]))
                continue
            # expected: the parseable links (independently, straight through the logging variant + rewriter)
            expected = []
            for link in links:
                wu.URLInfo.parse.__func__.cache_clear()
                try:
                    info = wu.parse_url_or_log(link)
                except Exception:
                    info = None
                if info is None:
                    continue
                if combo is not None:
                    info = uc.ref_rewrite(wu, info, combo[0], combo[1])      # independent of the rewriter under test
                expected.append(info.url)
            if sorted(set(added)) != sorted(set(expected)):
                ctx.fail('links-lost', 'scrape_document', case,
                         'queued %r, expected the parseable links %r' % (sorted(set(added))[:8], sorted(set(expected))[:8]))
            if combo is None:
                meta.append((links, added))
    # model: which links does the logging variant keep (no rewriter => queued set = kept normal forms)
    flat = [(k, link) for k, (links, _) in enumerate(meta) for link in links]
    cases = [uc.Case(link, 'http', 'utf-8', 'scrape') for _, link in flat]
    for c in cases:
        uc.run_real(wu, c, 'orlog')
    replies = ctx.model.ask([c.line for c in cases])
    kept = {}
    for (k, link), rep in zip(flat, replies):
        if rep.startswith('some ='):
            from runner import dec_str
            kept.setdefault(k, set()).add(dec_str(rep[len('some ='):]))
        elif rep != 'none':
            kept.setdefault(k, set()).add(rep)
    for k, (links, added) in enumerate(meta):
        if set(added) != kept.get(k, set()):
            ctx.disagree('scrape', {'stream': 'scrape', 'links': links, 'rewriter': None},
                         sorted(kept.get(k, set()))[:8], sorted(set(added))[:8])
    if link_lists:
        ctx.sample({'stream': 'scrape', 'links': link_lists[0][:6], 'rewriter': None})


START_URLS = ['http\u017f://example.com/', 'w\u017f://h/', '\uff48ttp://h/', 'http://[::1]:8080/', 'http://[::1]/', 'https://[2001:db8::1]:443/x', 'https://[2001:DB8:0:0::1]:8443/', 'ftp://[::1]:2121/pub/',
              'http://[::ffff:1.2.3.4]:81/', 'http://127.0.0.1:8080/', 'http://0x7f.1:80/', 'http://example.com/', 'http://example.com:80/a',
              'http://example.com:8080/', 'https://example.com:80/', 'ftp://example.com/', 'ftp://example.com:21/', 'ftp://example.com:80/f',
              'http://bücher.example:8080/', 'http://EXAMPLE.com.:81', 'example.com:8000/p', 'localhost:8080', 'http://u:p@[::1]:8080/x?y#z',
              'ws://h/', 'wss://h:80/', 'gopher://h:70/', 'mailto:x', 'HTTP://[A::1]:81/']


def sitemaps_batch(ctx, wu, starts):
    """ProcessingRule.add_extra_urls (--sitemaps) for a level-0 start URL: never raises; queues what URLInfo gives
    for scheme://hostname_with_port/robots.txt and /sitemap.xml; nothing at level 1"""
    from wpull.pipeline.item import URLRecord, Status
    from wpull.pipeline.session import ItemSession
    from wpull.processor.rule import FetchRule, ProcessingRule
    cases = []
    for start in starts:
        def after(info, start=start):
            outs = []
            for level in (0, 1):
                record = URLRecord()
                record.url = start
                record.status = Status.in_progress
                record.level = level
                record.inline_level = None
                record.root_url = None
                record.parent_url = None
                record.link_type = None
                app = _AppSession()
                item = ItemSession(app, record)
                rule = ProcessingRule(FetchRule(), sitemaps=True)
                rule.add_extra_urls(item)
                item.finish()
                outs.append(list(app.factory['URLTable'].added))
            return outs
        c = uc.Case(start, 'http', 'utf-8', 'sitemaps')
        uc.run_real(wu, c, 'extra', after=after)
        cases.append(c)
    live = [c for c in cases if not isinstance(c.exc, ValueError)]      # a start URL is a valid URL
    replies = ctx.model.ask([c.line for c in live])
    for c, rep in zip(live, replies):
        case = {'stream': 'sitemaps', 'url': c.url}
        ctx.case(('sitemaps', c.url), tags=['sitemaps:' + ('exc' if c.exc is not None else 'ok')] + c.tags[:1])
        if c.exc is not None:
            if isinstance(c.exc, uc.Timeout):
                ctx.fail('nontermination', 'add_extra_urls', case, 'timeout')
            else:
                ctx.fail('raises', 'add_extra_urls', case, 'ProcessingRule.add_extra_urls raised %s: %s for the start URL %r'
                         % (type(c.exc).__name__, str(c.exc)[:200], c.url))
            real = 'exc ' + uc.exc_name(c.exc)
        else:
            lvl0, lvl1 = c.real
            info = c.info
            expected = [wu.URLInfo.parse('%s://%s%s' % (info.scheme, info.hostname_with_port, p)).url
                        for p in ('/robots.txt', '/sitemap.xml')]
            if lvl0 != expected or lvl1:
                ctx.fail('extra-urls-wrong', 'add_extra_urls', case, 'queued %r (level 1: %r), expected %r' % (lvl0, lvl1, expected))
            real = 'ok ' + ('~' if not lvl0 else '/'.join(enc(u) for u in lvl0))
        if rep != real:
            ctx.disagree('sitemaps', case, rep, real)
    if cases:
        ctx.sample({'stream': 'sitemaps', 'url': cases[0].url})


def gen_starts(ctx, rng, n):
    out = list(START_URLS)
    for _ in range(n):
        spec = uc.Spec(rng)
        if rng.random() < 0.5:
            spec.hostkind = 'ipv6'
            v = rng.getrandbits(128)
            for g in range(8):
                if rng.random() < 0.5:
                    v &= ~(0xffff << (16 * g))
            spec.host = v
        out.append(spec.render(rng))
    return out


def itemsession_batch(ctx, wu, rounds, rng):
    """the real ItemSession on a real (in-memory SQLite) URL table: every unparseable link is offered several times, within
    one item session and across item sessions of one process, through add_url and add_child_url, flush included:
    add never raises, nothing unparseable is queued, set_status / skip / finish never raise, the good links are stored"""
    from wpull.database.base import AddURLInfo
    from wpull.database.sqltable import SQLiteURLTable
    from wpull.database.wrap import URLTableHookWrapper
    from wpull.pipeline.item import Status
    from wpull.pipeline.session import ItemSession
    for rnd in range(rounds):
        pool = list(JUNK_LINKS) + ['x:\ud800', '\udc80', 'http://h/\udfff?q', 'mailto:\ud800@x'] + [uc.gen_malformed(rng) for _ in range(12)]
        bad, maybe_good = [], []
        for link in pool:
            try:
                ok = wu.parse_url_or_log(link) is not None
            except Exception:
                ok = False
            if not ok:
                bad.append(link)
            else:
                try:
                    link.encode('utf-8')
                    maybe_good.append(link)
                except UnicodeError:
                    # accepted by the parser (no network scheme: nothing is encoded) but not storable in the SQLite
                    # table: a matter of the table / crawl robustness (C14, C09), reported to the coordinator, not offered here
                    ctx.tag('itemsession:parseable-but-unstorable-surrogate')
        rng.shuffle(bad)
        bad = bad[:rng.randrange(2, 9)]
        table = URLTableHookWrapper(SQLiteURLTable(path=':memory:'))
        pages = ['http://example.com/r%d/page%d' % (rnd, i) for i in range(rng.randrange(2, 5))]
        table.add_many([AddURLInfo(p, None, None) for p in pages])
        app = type('App', (), {})()
        app.factory = {'URLTable': table}
        good_all = []
        case = {'stream': 'itemsession', 'bad': bad, 'pages': len(pages), 'seed': [rnd]}
        failed = False
        for number in range(len(pages)):
            record = table.check_out(Status.todo)
            item = ItemSession(app, record)
            offers = []
            for link in bad:
                offers += [link] * rng.choice([1, 2])       # again on every page, sometimes twice on one page
            good = ['http://example.com/r%d/good%d-%d' % (rnd, number, k) for k in range(rng.randrange(1, 4))]
            good += [g for g in maybe_good if rng.random() < 0.2]
            offers += good
            rng.shuffle(offers)
            for link in offers:
                try:
                    # (add_url is reached through add_child_url, as in the crawler; rows without URL properties mixed
                    # into one batch are a matter of the table, property C14)
                    kw = {}
                    if rng.random() < 0.3:
                        kw['inline'] = True
                    if rng.random() < 0.3:
                        kw['replace'] = True        # the plugin interface: re-queue a link
                    if rng.random() < 0.2:
                        kw['level'] = rng.choice([0, 1, 7])
                    if rng.random() < 0.2:
                        kw['post_data'] = rng.choice(['a=b', ''])
                    if rng.random() < 0.1:
                        kw['link_type'] = None
                    item.add_child_url(link, **kw)
                except BaseException as e:
                    ctx.fail('raises', 'ItemSession.add_url', case, 'page %d: add_child_url(%r, %s) raised %s: %s'
                             % (number, link, ', '.join('%s=%r' % kv for kv in sorted(kw.items())), type(e).__name__, str(e)[:150]))
                    failed = True
            queued = [info.url for info in item._add_url_batch]
            for link in bad:
                if link in queued:
                    ctx.fail('unparseable-queued', 'ItemSession.add_url', case,
                             'page %d: the unparseable link %r was put into the add batch (offer number %d in this process)' % (number, link, number + 1))
                    failed = True
            good_all += good
            try:
                how = rng.choice(['done', 'skip', 'error'])
                if how == 'skip':
                    item.skip()
                else:
                    item.set_status(Status.done if how == 'done' else Status.error)
            except BaseException as e:
                ctx.fail('raises', 'ItemSession.set_status', case, 'page %d: the flush raised %s: %s' % (number, type(e).__name__, str(e)[:150]))
                failed = True
        stored = sorted(r.url for r in table.get_all())
        expected = sorted(set(pages + good_all))
        ctx.case(('itemsession', rnd, tuple(bad)), tags=['itemsession:' + ('fail' if failed else 'ok')])
        if stored != expected:
            ctx.fail('links-lost', 'ItemSession', case, 'the table holds %d URLs, expected %d; missing %r, extra %r'
                     % (len(stored), len(expected), sorted(set(expected) - set(stored))[:5], sorted(set(stored) - set(expected))[:5]))
    ctx.sample({'stream': 'itemsession', 'rounds': rounds})


def gen_rewrite_urls(ctx, rng, n):
    out = list(uc.BRACE_LINKS) + list(START_URLS)
    for _ in range(n):
        u = uc.Spec(rng).render(rng).split('#')[0]
        brace = rng.choice(['{id}', '{}', '{0}', '{0!r}', '{:>9}', '{', '}', '{{x}}', '%s', '%(x)s', '{a}{b}', ''])
        pos = rng.choice(['path', 'query', 'both'])
        if pos in ('path', 'both'):
            u = u.replace('?', '/' + brace + '?', 1) if '?' in u else u + '/' + brace
        if pos in ('query', 'both'):
            u += ('&' if '?' in u else '?') + 'k=' + brace
        u += rng.choice(['#!', '#!frag', '#!' + brace, '#!/a?b', '#x', '', '#!a=b&c={d}'])
        if rng.random() < 0.2:
            u += rng.choice(['?sid=' + 'a' * 32, '&jsessionid=' + '0' * 32])
        out.append(u)
    return out


def rewrite_batch(ctx, wu, urls):
    """URLRewriter.rewrite directly and through the start-URL import (InputURLTask._read_input_urls), each option
    combination: nothing but ValueError-or-skip, and the rewritten URL equals the concatenation reference"""
    from wpull.urlrewrite import URLRewriter
    from wpull.application.tasks.database import InputURLTask
    import types
    cases = []
    for u in urls:
        for combo in REWRITER_COMBOS[1:]:
            case = {'stream': 'rewrite', 'url': u, 'rewriter': list(combo)}
            rewriter = URLRewriter(hash_fragment=combo[0], session_id=combo[1])
            wu.URLInfo.parse.__func__.cache_clear()
            try:
                info = wu.URLInfo.parse(u)
            except ValueError:
                info = None
            except Exception as e:
                ctx.fail('non-valueerror', 'URLInfo.parse', dict(case, stream='parse', default_scheme='http', encoding='utf-8'),
                         'parse raised %s: %s' % (type(e).__name__, str(e)[:200]))
                continue
            ctx.case(('rewrite', u, combo), tags=['rewrite:' + ('unparseable' if info is None else 'ok'), 'rewrite:combo=%s' % (combo,)])
            ref = None
            if info is not None:
                ref = uc.ref_rewrite(wu, info, combo[0], combo[1]).url
                try:
                    with uc.guard():
                        got = rewriter.rewrite(info).url
                except uc.Timeout:
                    ctx.fail('nontermination', 'URLRewriter.rewrite', case, 'timeout')
                    continue
                except BaseException as e:
                    ctx.fail('raises', 'URLRewriter.rewrite', case, 'rewrite of the parsed URL raised %s: %s' % (type(e).__name__, str(e)[:200]))
                    got = None
                if got is not None and got != ref:
                    ctx.fail('rewrite-wrong', 'URLRewriter.rewrite', case, 'rewritten to %r, expected %r' % (got, ref))
            # the start-URL import with this rewriter
            session = types.SimpleNamespace(
                args=types.SimpleNamespace(urls=[u], input_file=None, force_html=False, base=None, local_encoding=None),
                factory={'URLRewriter': rewriter})
            try:
                with uc.guard():
                    infos = [i.url for i in InputURLTask._read_input_urls(session) if i]
            except uc.Timeout:
                ctx.fail('nontermination', '_read_input_urls', case, 'timeout')
                continue
            except BaseException as e:
                ctx.fail('raises', '_read_input_urls', case, 'the start-URL import raised %s: %s' % (type(e).__name__, str(e)[:200]))
                continue
            if infos != ([] if ref is None else [ref]):
                ctx.fail('rewrite-wrong', '_read_input_urls', case, 'imported %r, expected %r' % (infos, ref))
        if True:
            cases.append(uc.Case(u, 'http', 'utf-8', 'rewrite'))
    # model: the --escaped-fragment part (hash_fragment only)
    from wpull.urlrewrite import URLRewriter as _R
    rw = _R(hash_fragment=True, session_id=False)
    for c in cases:
        uc.run_real(wu, c, 'rewrite', after=lambda info: 'ok ' + uc.eres(lambda: rw.rewrite(info).url))
    live = [c for c in cases if not c.skip]
    replies = ctx.model.ask([c.line for c in live])
    for c, rep in zip(live, replies):
        if rep != c.real:
            ctx.disagree('rewrite', {'stream': 'rewrite', 'url': c.url, 'rewriter': [True, False]}, rep, c.real)
    if urls:
        ctx.sample({'stream': 'rewrite', 'url': urls[0]})


JUNK_LINKS = ['http://[::1/unclosed', 'http://exa mple.com/', 'http://example.com:99999999/', 'http://' + 'a' * 70 + '.com/',
              'http://example.com/\ud800', 'http://:/', '', ':', 'http://', 'http://\udc80@h/', 'http://h:x/', 'http://[fe80::1%eth0]/',
              'http://a..b/', '\x00', 'http://h/\x01', '//', 'http://@/', 'http://[]', 'http://é' + 'a' * 64 + '.com/']
GOOD_LINKS = uc.BRACE_LINKS + ['http\u017f://example.com/x', 'w\u017f://h/', 'W\u017f\u017f://h/y#!z', '\uff46tp://h/', 'http://example.com/page#!state', 'http://example.com/a.aspx?sid=0123456789abcdef0123456789abcdef',
              'http://example.com/x?a=b#!c', 'https://example.com/(S(abcdefghijklmnopqrstuvwx))/p.aspx', 'ftp://example.com/f',
              'mailto:x@y', 'example.com/naked', 'http://example.com/?jsessionid=0123456789abcdef0123456789abcdef&z=1#!']


def gen_link_lists(ctx, rng, n):
    seeds = uc.seed_urls(ctx.repo) or ['http://a/b']
    out = [JUNK_LINKS + GOOD_LINKS, list(JUNK_LINKS), list(GOOD_LINKS), []]
    for _ in range(n):
        links = []
        for _ in range(rng.randrange(1, 8)):
            r = rng.random()
            if r < 0.3:
                links.append(rng.choice(JUNK_LINKS))
            elif r < 0.5:
                links.append(uc.gen_malformed(rng))
            elif r < 0.65:
                links.append(rng.choice(GOOD_LINKS))
            elif r < 0.8:
                links.append(uc.mutate(rng, rng.choice(seeds + GOOD_LINKS)))
            else:
                links.append(uc.Spec(rng).render(rng) + rng.choice(['', '#!frag', '#!a=b&c', '?sid=' + 'a' * 32, '#!', '{id}#!x', '?{}#!{0}']))
        out.append(links)
    return out


def gen_cases(ctx, rng, n_mal, n_seed, n_spec):
    seeds = uc.seed_urls(ctx.repo)
    cases = [uc.Case(s, kind='seed') for s in seeds]
    for _ in range(n_mal):
        ds, encoding = uc.pick_config(rng)
        cases.append(uc.Case(uc.gen_malformed(rng), ds, encoding, 'malformed'))
    for _ in range(n_seed):
        ds, encoding = uc.pick_config(rng)
        cases.append(uc.Case(uc.mutate(rng, rng.choice(seeds)) if seeds else 'http://a/', ds, encoding, 'seed-mutated'))
    for _ in range(n_spec):
        ds, encoding = uc.pick_config(rng)
        u = uc.Spec(rng).render(rng)
        cases.append(uc.Case(uc.mutate(rng, u) if rng.random() < 0.5 else u, ds, encoding, 'spec'))
    return cases


def gen_pairs(ctx, rng, n):
    seeds = uc.seed_urls(ctx.repo) or ['http://a/b']
    out = []
    for _ in range(n):
        base = rng.choice([rng.choice(seeds), 'http://example.com/a/b?c#d', uc.gen_malformed(rng), 'http://[::1]/x', 'mailto:x', '', 'HTTP://h'])
        r = rng.random()
        if r < 0.3:
            link = '//' + rng.choice(['', 'h', 'h/p', '[', '[::1', '[::1]/x', 'é.com/\udc80', '/', '//x', uc.gen_malformed(rng)])
        elif r < 0.6:
            link = uc.gen_malformed(rng)
        elif r < 0.8:
            link = uc.mutate(rng, rng.choice(seeds))
        else:
            link = rng.choice(['', '.', '..', '../x', '?q', '#f', 'x y', 'http://[', 'http://[x]/', '//[', 'a:b', ':', '\udc80', 'http://a@[b', '//℀.com', 'http://a／b/', '//a＃b'])
        out.append((base, link))
    return out


def exhaustive(ctx, wu):
    import itertools
    cases = []
    for n in range(0, 5):
        for t in itertools.product(uc.SOUP, repeat=n):
            cases.append(uc.Case(''.join(t), kind='exhaustive'))
    for n in range(0, 6):
        for t in itertools.product(uc.SOUP, repeat=n):
            cases.append(uc.Case('http://' + ''.join(t), kind='exhaustive'))
    for k in range(0, len(cases), 20000):
        batch(ctx, wu, cases[k:k + 20000])
    ctx.note('exhaustive', 'all strings of length <= 4, and "http://" + all strings of length <= 5, over %r' % ''.join(uc.SOUP))


def replay(ctx, case, kind=None, where=None):
    wu = uc.setup(ctx)
    with uc.replay_level(case):
        _replay(ctx, wu, case)


def _replay(ctx, wu, case):
    s = case.get('stream', 'parse')
    if s in ('parse', 'orlog'):
        uc.replay_history(wu, case)
        batch(ctx, wu, [uc.case_of_json(case)], op=s)
    elif s == 'normalize':
        uc.stream_normalize(ctx, wu, [uc.case_of_json(case)])
    elif s == 'longrun':
        uc.replay_longrun(ctx, wu, case)
    elif s == 'pct':
        uc.stream_pct256(ctx, wu)
    elif s == 'join':
        join_batch(ctx, wu, [(case['base'], case['url'])])
    elif s == 'scrape':
        scrape_batch(ctx, wu, [case['links']])
    elif s == 'htmljoin':
        html_batch(ctx, wu, [case])
    elif s == 'sitemaps':
        sitemaps_batch(ctx, wu, [case['url']])
    elif s == 'rewrite':
        rewrite_batch(ctx, wu, [case['url']])
    elif s == 'itemsession':
        import random
        itemsession_batch(ctx, wu, 30, random.Random(0))
    else:
        raise Infra('unknown replay stream %r' % s)


SCHEMELESS = ['example.com:8080/x', 'localhost:8080', 'localhost:', 'LOCALHOST:80/a', 'a.b:c', 'a.b:', 'x.y:z:1', 'h.x:99999', 'h.x:-1',
              'localhost:x', 'example.com', 'example.com/p?q', '//example.com/', 'a.b:80:90', '\u00e9.x:1', 'a.b:\ud800', 'localhost:\x00',
              'a..b:1', 'user@h.x:80', '[::1]:80', 'h.x:8_0', ' h.x:80 ', 'h.x:', ':', 'x:', 'mailto:a@b', 'javascript:void(0)']


def run(ctx):
    import logging
    wu = uc.setup(ctx)
    orig_fail = ctx.fail

    def fail(kind, where, case, detail=''):
        # every failing input records the logging level it was observed under (replay re-creates it)
        if isinstance(case, dict) and uc.LEVEL['now'] != 'WARNING' and 'log_level' not in case:
            case = dict(case, log_level=uc.LEVEL['now'])
        return orig_fail(kind, where, case, detail)
    ctx.fail = fail

    def rs(ctx_, name, fn, level=logging.WARNING):
        def body():
            with uc.log_level(level):
                return fn()
        return uc.run_stream(ctx_, name + '@' + logging.getLevelName(level), body)

    def by_level(name, items, fn):
        """the logging level as a dimension: the inputs of a stream are split over WARNING / INFO / DEBUG"""
        for k, level in enumerate(uc.LEVELS):
            part = items[k::3]
            if part:
                rs(ctx, name, lambda part=part: fn(part), level=level)

    rs(ctx, 'consts', lambda: uc.stream_consts(ctx, wu))
    for j in uc.load_corpus(ctx, 'C11'):
        rs(ctx, 'corpus', lambda j=j: replay(ctx, j.get('case', j)))
    # long-lived process: several thousand distinct hosts / paths / queries before anything else is parsed;
    # the level is raised to DEBUG in the middle (what WARCRecorder._setup_log / --debug do to the root logger)
    n_warm = ctx.scale(3500, 30000)
    rs(ctx, 'longrun', lambda: uc.warm_process(ctx, wu, n_warm // 2))
    rs(ctx, 'longrun', lambda: uc.warm_process(ctx, wu, n_warm - n_warm // 2, start=n_warm // 2), level=logging.DEBUG)
    rng = ctx.rng
    # the same inputs at every level, caches cleared between (run_real clears them per case)
    lrng = ctx.subrng('loglevel')
    same = [uc.Case(u, ds, 'utf-8', 'loglevel') for u in SCHEMELESS for ds in ('http', None, 'ftp')]
    same += [uc.Case(s_, kind='loglevel') for s_ in uc.seed_urls(ctx.repo)]
    same += [uc.Case(uc.gen_malformed(lrng), *uc.pick_config(lrng), 'loglevel') for _ in range(ctx.scale(1200, 20000))]
    for level in uc.LEVELS:
        rs(ctx, 'loglevel-parse', lambda: batch(ctx, wu, [uc.Case(c.url, c.ds, c.encoding, c.kind) for c in same]), level=level)
        rs(ctx, 'loglevel-orlog', lambda: batch(ctx, wu, [uc.Case(c.url, 'http', c.encoding, c.kind) for c in same[::2]], op='orlog'), level=level)
    nn = uc.non_network_cases(ctx.subrng('nonnet'), ctx.scale(600, 8000))
    nn += uc.confusable_scheme_cases(ctx.subrng('confusable'), ctx.scale(600, 8000))
    by_level('non-network', nn, lambda part: batch(ctx, wu, part))
    by_level('non-network-orlog', [uc.Case(c.url, 'http', c.encoding, c.kind) for c in nn], lambda part: batch(ctx, wu, part, op='orlog'))
    by_level('normalize', nn + same[::3], lambda part: uc.stream_normalize(ctx, wu, part))
    rs(ctx, 'pct256', lambda: uc.stream_pct256(ctx, wu))
    rs(ctx, 'int', lambda: uc.stream_int(ctx, ctx.scale(3000, 60000), ctx.subrng('int')))
    sweep = uc.byte_sweep_cases()
    by_level('byte-sweep', sweep, lambda part: batch(ctx, wu, part))
    by_level('byte-sweep-orlog', [uc.Case(c.url, 'http', c.encoding, c.kind) for c in sweep[::2]], lambda part: batch(ctx, wu, part, op='orlog'))
    n_mal, n_seed, n_spec = ctx.scale(6000, 150000), ctx.scale(3000, 80000), ctx.scale(2000, 50000)
    chunks = max(1, n_mal // 6000)
    for k in range(chunks):
        cases = gen_cases(ctx, rng, n_mal // chunks, n_seed // chunks, n_spec // chunks)
        by_level('parse', cases, lambda part: batch(ctx, wu, part))
        ol = [uc.Case(c.url, 'http', c.encoding, c.kind) for c in cases[::3]]
        by_level('orlog', ol, lambda part: batch(ctx, wu, part, op='orlog'))
    by_level('join', gen_pairs(ctx, ctx.subrng('join'), ctx.scale(3000, 60000)), lambda part: join_batch(ctx, wu, part))
    by_level('scrape', gen_link_lists(ctx, ctx.subrng('scrape'), ctx.scale(400, 6000)), lambda part: scrape_batch(ctx, wu, part))
    irng = ctx.subrng('itemsession')
    for level in uc.LEVELS:
        rs(ctx, 'itemsession', lambda: itemsession_batch(ctx, wu, ctx.scale(25, 250), irng), level=level)
    by_level('rewrite', gen_rewrite_urls(ctx, ctx.subrng('rewrite'), ctx.scale(500, 8000)), lambda part: rewrite_batch(ctx, wu, part))
    by_level('sitemaps', gen_starts(ctx, ctx.subrng('sitemaps'), ctx.scale(600, 10000)), lambda part: sitemaps_batch(ctx, wu, part))
    hrng = ctx.subrng('html')
    by_level('htmljoin', [gen_doc(hrng) for _ in range(ctx.scale(600, 10000))], lambda part: html_batch(ctx, wu, part))
    if ctx.tier == 'thorough' and ctx.boost == 1:
        rs(ctx, 'exhaustive', lambda: exhaustive(ctx, wu), level=logging.DEBUG)
        ctx.exhaustive = True
    # the verdict for a URL must not depend on what was parsed before: earlier and new inputs again, caches kept
    rs(ctx, 'longrun-recheck', lambda: uc.recheck_process(ctx, wu, ctx.subrng('recheck'), 300, 300), level=logging.DEBUG)
    ctx.note('long_lived_process', '%d URLs parsed in this one process' % uc.HISTORY['parsed'])
    ctx.note('log_levels', 'every stream runs with the root logger at WARNING, INFO and DEBUG (a formatting handler attached); '
             'the level is raised to DEBUG in the middle of the long-lived process; %d log records failed to format' % uc.NullHandler.errors)
    ctx.fail = orig_fail


def search(ctx):
    wu = uc.setup(ctx)
    rng = ctx.subrng('search')
    batch(ctx, wu, gen_cases(ctx, rng, ctx.scale(300, 800), ctx.scale(200, 500), ctx.scale(100, 300)))
    join_batch(ctx, wu, gen_pairs(ctx, rng, ctx.scale(100, 300)))
    scrape_batch(ctx, wu, gen_link_lists(ctx, rng, ctx.scale(20, 60)))
    html_batch(ctx, wu, [gen_doc(rng) for _ in range(ctx.scale(30, 100))])
    sitemaps_batch(ctx, wu, gen_starts(ctx, rng, ctx.scale(30, 100)))
    rewrite_batch(ctx, wu, gen_rewrite_urls(ctx, rng, ctx.scale(30, 100)))
    itemsession_batch(ctx, wu, ctx.scale(10, 30), rng)
