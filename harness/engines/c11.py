"""C11 — URL parsing and joining are total: any text gives a result or a ValueError (engine `Url`).

Streams (model `Wpull.Url` vs the real code in ctx.repo):
  parse    URLInfo.parse + every documented attribute / accessor, or the exception class
  orlog    parse_url_or_log
  join     wpull.scraper.util.urljoin_safe (stdlib urllib.parse.urljoin = logged parameter)
  int / consts / unidb
Direct oracle on the real code: parse raises nothing but ValueError, returns within the time guard, every
attribute of a result can be read; parse_url_or_log never raises; urljoin raises only ValueError and
urljoin_safe never raises.
"""
import urllib.parse

import compat  # noqa: F401
from runner import enc, Infra
from engines import url_common as uc

RULE = ('parse/orlog: malformed stream (bracket and colon soup over {h t p : / . @ [ ] % 0 x}, huge/odd ports, '
        '63/64/300-character labels, IPv6 bracket forms, lone surrogates in every component, Unicode spaces and digits), '
        'the string constants of wpull/url_test.py and 1-3 character-level mutations of them, grammar-directed URLs; '
        '12% default_scheme in {None, "", ftp, https, mailto, x.y}, 18% encoding != utf-8; join: (base, link) pairs from the same '
        'pools plus scheme-relative links; thorough adds all strings of length <= 4 (+ "http://" + length <= 5) over the soup '
        'alphabet. non-trivial = input non-empty; distinct by (stream, url, default_scheme, encoding)')
TRUSTED = list(uc.TRUSTED_COMMON) + [
    'urllib.parse.urljoin raises only ValueError (hypothesis of urljoin_safe_only_valueerror; monitored on every sampled call)']
ASSUMPTIONS = ['termination of the real code is observed through a 10 s guard per call; termination of the model is '
               "Lean's totality check (no partial def, no fuel in the URL model except natDec's digit fuel)",
               'document encodings are ASCII-compatible stateless codecs (see C10)']
UNPROVED = []


def batch(ctx, wu, cases, op='parse'):
    uc.correspond(ctx, wu, cases, op=op, stream=op)
    for c in cases:
        ctx.case((op,) + c.key(), nontrivial=bool(c.url), tags=[op + ':' + t for t in c.tags[:1]] + c.tags[1:] + ['kind:' + c.kind])
        uc.oracle_total(ctx, c, op)
    for c in cases[:2]:
        ctx.sample(dict(c.as_json(), stream=op))


def join_batch(ctx, wu, pairs):
    import wpull.scraper.util as su
    reqs, reals = [], []
    for base, link in pairs:
        wu.urljoin.cache_clear()
        log = []
        orig = urllib.parse.urljoin

        def logging_join(b, u, allow_fragments=True, _log=log, _orig=orig):
            try:
                r = _orig(b, u, allow_fragments=allow_fragments)
            except Exception as e:
                _log.append((u, e))
                raise
            _log.append((u, r))
            return r
        urllib.parse.urljoin = logging_join
        exc = None
        try:
            with uc.guard():
                try:
                    r = su.urljoin_safe(base, link)
                    real = 'none' if r is None else 'some ' + enc(r)
                except uc.Timeout:
                    raise
                except BaseException as e:
                    exc = e
                    real = 'exc ' + uc.exc_name(e)
        except uc.Timeout:
            real = 'timeout'
            ctx.fail('nontermination', 'urljoin_safe', {'stream': 'join', 'base': base, 'url': link}, 'timeout')
        finally:
            urllib.parse.urljoin = orig
        if exc is not None:
            ctx.fail('raises', 'urljoin_safe', {'stream': 'join', 'base': base, 'url': link},
                     'urljoin_safe raised %s: %s' % (type(exc).__name__, str(exc)[:200]))
        # the unguarded join: only ValueError
        wu.urljoin.cache_clear()
        try:
            wu.urljoin(base, link)
        except ValueError:
            pass
        except Exception as e:
            ctx.fail('non-valueerror', 'urljoin', {'stream': 'join', 'base': base, 'url': link},
                     'urljoin raised %s: %s' % (type(e).__name__, str(e)[:200]))
        for u, v in log:
            if isinstance(v, BaseException) and not isinstance(v, ValueError):
                ctx.tag('stdlib-urljoin-raised:' + type(v).__name__)
        table = uc.dedupe((k, uc.eexc_value(v)) for k, v in log)
        reqs.append('url join %s %s %s' % (enc(base), enc(link), uc.etable(table)))
        reals.append(real)
        ctx.case(('join', base, link), nontrivial=bool(link), tags=['join:' + real.split(' ')[0]])
    replies = ctx.model.ask(reqs)
    for (base, link), rep, real in zip(pairs, replies, reals):
        if rep != real:
            ctx.disagree('join', {'stream': 'join', 'base': base, 'url': link}, rep, real)
    if pairs:
        ctx.sample({'stream': 'join', 'base': pairs[0][0], 'url': pairs[0][1]})


def gen_cases(ctx, rng, n_mal, n_seed, n_spec):
    seeds = uc.seed_urls(ctx.repo)
    cases = [uc.Case(s, kind='seed') for s in seeds]
    for _ in range(n_mal):
        ds, encoding = uc.pick_config(rng)
        cases.append(uc.Case(uc.gen_malformed(rng), ds, encoding, 'malformed'))
    for _ in range(n_seed):
        ds, encoding = uc.pick_config(rng)
        cases.append(uc.Case(uc.mutate(rng, rng.choice(seeds)) if seeds else 'http://a/', ds, encoding, 'seed-mutated'))
    for _ in range(n_spec):
        ds, encoding = uc.pick_config(rng)
        u = uc.Spec(rng).render(rng)
        cases.append(uc.Case(uc.mutate(rng, u) if rng.random() < 0.5 else u, ds, encoding, 'spec'))
    return cases


def gen_pairs(ctx, rng, n):
    seeds = uc.seed_urls(ctx.repo) or ['http://a/b']
    out = []
    for _ in range(n):
        base = rng.choice([rng.choice(seeds), 'http://example.com/a/b?c#d', uc.gen_malformed(rng), 'http://[::1]/x', 'mailto:x', '', 'HTTP://h'])
        r = rng.random()
        if r < 0.3:
            link = '//' + rng.choice(['', 'h', 'h/p', '[', '[::1', '[::1]/x', 'é.com/\udc80', '/', '//x', uc.gen_malformed(rng)])
        elif r < 0.6:
            link = uc.gen_malformed(rng)
        elif r < 0.8:
            link = uc.mutate(rng, rng.choice(seeds))
        else:
            link = rng.choice(['', '.', '..', '../x', '?q', '#f', 'x y', 'http://[', 'http://[x]/', '//[', 'a:b', ':', '\udc80', 'http://a@[b', '//℀.com', 'http://a／b/', '//a＃b'])
        out.append((base, link))
    return out


def exhaustive(ctx, wu):
    import itertools
    cases = []
    for n in range(0, 5):
        for t in itertools.product(uc.SOUP, repeat=n):
            cases.append(uc.Case(''.join(t), kind='exhaustive'))
    for n in range(0, 6):
        for t in itertools.product(uc.SOUP, repeat=n):
            cases.append(uc.Case('http://' + ''.join(t), kind='exhaustive'))
    for k in range(0, len(cases), 20000):
        batch(ctx, wu, cases[k:k + 20000])
    ctx.note('exhaustive', 'all strings of length <= 4, and "http://" + all strings of length <= 5, over %r' % ''.join(uc.SOUP))


def replay(ctx, case, kind=None, where=None):
    wu = uc.setup(ctx)
    s = case.get('stream', 'parse')
    if s in ('parse', 'orlog'):
        batch(ctx, wu, [uc.case_of_json(case)], op=s)
    elif s == 'join':
        join_batch(ctx, wu, [(case['base'], case['url'])])
    else:
        raise Infra('unknown replay stream %r' % s)


def run(ctx):
    wu = uc.setup(ctx)
    uc.stream_consts(ctx, wu)
    for j in uc.load_corpus(ctx, 'C11'):
        replay(ctx, j.get('case', j))
    rng = ctx.rng
    uc.stream_int(ctx, ctx.scale(3000, 60000), ctx.subrng('int'))
    n_mal, n_seed, n_spec = ctx.scale(6000, 150000), ctx.scale(3000, 80000), ctx.scale(2000, 50000)
    chunks = max(1, n_mal // 6000)
    for k in range(chunks):
        cases = gen_cases(ctx, rng, n_mal // chunks, n_seed // chunks, n_spec // chunks)
        batch(ctx, wu, cases)
        ol = [uc.Case(c.url, 'http', c.encoding, c.kind) for c in cases[::3]]
        batch(ctx, wu, ol, op='orlog')
    join_batch(ctx, wu, gen_pairs(ctx, ctx.subrng('join'), ctx.scale(3000, 60000)))
    if ctx.tier == 'thorough' and ctx.boost == 1:
        exhaustive(ctx, wu)
        ctx.exhaustive = True


def search(ctx):
    wu = uc.setup(ctx)
    rng = ctx.subrng('search')
    batch(ctx, wu, gen_cases(ctx, rng, ctx.scale(300, 800), ctx.scale(200, 500), ctx.scale(100, 300)))
    join_batch(ctx, wu, gen_pairs(ctx, rng, ctx.scale(100, 300)))
