"""C16 — Every HTTP request on the wire matches the URL being fetched.

Streams (model `Wpull.Request` vs the real code in the repo under test):
  prep     Request(url).prepare_for_send(full_url).to_bytes()      function level: generated URLs x proxy/no proxy x fields
  prep2    prepare_for_send called twice with different full_url (as _process_redirect + Stream.write_request do)
  names    str.title / str.capitalize on field names; basic-auth text; hostname_with_port / URLInfo.url
  referer  WebProcessorSession._populate_common_request (referrer suppression https -> http)
  session  lock-step co-simulation of hop sequences: the REAL WebSession + http Client + Stream + ConnectionPool
           + CookieJarWrapper + DeFactoCookiePolicy + RedirectTracker over harness/fakenet.py, answering from
           generated redirect scripts; the bytes each fake server receives per hop vs the model's;
           the same through the REAL HTTPProxyConnectionPool (http chains): absolute-form target on EVERY hop
  cookiefile  oracle only: BetterMozillaCookieJar.load on generated cookies.txt files (comments, '#HttpOnly_' lines, dotted and
           host-only domains, session cookies): every cookie is stored under exactly the domain its line names
  app      oracle only: the REAL application (AppArgumentParser + Builder factory + ClientSetupTask + pipeline + URL table +
           processor) x cookie option sets {default, --save-cookies, --keep-session-cookies, --load-cookies, --no-cookies} x
           twin-host redirect chains (cookie provenance), and redirects with hostile Location values to a page with links
           (the Referer of every child request must be a clean normalised URL), and start URLs with user-info x 307/308 to
           another origin x 401 challenges there (every Authorization value belongs to the origin it is sent to), and the
           proxy dimension (--http-proxy, --proxy-user/--proxy-password, --proxy-exclude-hostnames; the in-memory network plays the
           proxy: absolute-form GETs, CONNECT tunnels with a pass-through stand-in for TLS, several https origins, keep-alive):
           a tunnel only carries requests of its CONNECT origin; Proxy-Authorization only ever goes to the proxy
Direct oracle (independent of the model) on every real request head: one request line with exactly two SP,
field lines, blank line, no bare CR/LF, target = path?query (absolute URL with a proxy), exactly one Host equal to
host[:non-default port] of the hop URL and of the host actually connected to, credentials and cookies only
to the host they belong to.
"""
import types
import urllib.parse
import compat  # noqa: F401
from runner import enc, Infra, unjson
from engines import request_common as rc

RULE = ('prep: grammar-generated URLs (schemes, user-info, IDN/IPv4-variant/IPv6 hosts, default/non-default ports, '
        'encoded and raw delimiters, CR/LF/space/non-ASCII in every component) x origin/absolute form x field sets '
        '(odd-cased names, empty/hostile values, Referer from canonical parents); '
        'session: redirect scripts of length 0-8 over 301/302/303/307/308 x same/other host x http<->https x userinfo on '
        'first/later hop x Set-Cookie on any hop x 401 at any hop x relative/scheme-relative/missing/garbage Location x '
        'cookie jar on/off x global login on/off x GET/POST. non-trivial = URL parses and the case is distinct by canonical input')
TRUSTED = ['app stream through a proxy: Connection.start_tls is replaced by a pass-through (same byte stream) because the in-memory network has no TLS peer',
           'URL parsing/joining (URLInfo.parse, urljoin) is a parameter: the components of each hop URL are taken from the real parse',
           'http.cookiejar: the jar\'s Cookie text per add_cookie_header call is logged from the real run and passed to the model',
           'harness/fakenet.py in-memory transports; every host name resolves to its own address']
ASSUMPTIONS = ['canonical URL components (hostname, path, query, normalised user-info) contain no CR, LF, SP and are < U+0100 '
               '(C10 proves 0x21..0x7e; monitored here on every generated URL: kind url-char-class)',
               'field names are ASCII (constants of the code or configuration); field values other than Host/Authorization/Cookie '
               'come from configuration and parsed header lines and are CR/LF-free',
               'IPv6 literals with zone identifiers (%zone, %25zone, white space, brackets inside) are generated in start URLs, '
               'Locations and scheme-relative Locations, directly and through the proxy: the tree must reject them (C10/C11 repair of url.py)']
UNPROVED = ['every_hop_host_and_credentials for sessions WITH a cookie jar (the urllib round trip of CookieJarWrapper.add_cookie_header '
            'is modelled and co-simulated hop by hop, but the chain induction is proved only without jar; fresh_hop_fields holds for any state either way)',
            'that one value stored under a name is one line on the wire needs the names-are-distinct invariant of the Fields list '
            '(not proved; the wire oracle counts Host lines on every real request)']


# ------------------------------------------------------------------ prep
def gen_pairs(rng, hostile):
    pairs = []
    for _ in range(rng.choice([0, 1, 2, 3, 5])):
        pairs.append((rng.choice(rc.FIELD_NAMES), rc.gen_value(rng, hostile)))
    if rng.random() < 0.3:
        kind, info = rc.parse_url(rc.gen_url(rng))
        if kind == 'url':
            pairs.append(('Referer', info.url))
    if rng.random() < 0.12:
        # header values above 1 KiB (a Cookie field of many cookies, a referrer with a long query): still ONE line each
        n = rng.choice([1000, 1023, 1024, 1025, 1500, 2500, 4000])
        style = rng.random()
        if style < 0.4:
            parts, size = [], 0
            while size < n:
                p = 'c%d=%s' % (len(parts), ''.join(rng.choice('abcdef0123456789') for _ in range(rng.randrange(20, 90))))
                parts.append(p)
                size += len(p) + 2
            pairs.append(('Cookie', '; '.join(parts)))
        elif style < 0.75:
            pairs.append(('Referer', 'http://a.example/search?q=' + ''.join(rng.choice('abcxyz%20+&=') for _ in range(n))))
        else:
            pairs.append((rng.choice(['X-Long', 'User-Agent', 'Accept']), ' '.join('w%d' % rng.randrange(10 ** 6) for _ in range(n // 7))))
    return pairs


def values_clean(pairs):
    return all('\r' not in v and '\n' not in v for _, v in pairs)


def check_head(ctx, case, data, info, full, pairs, where):
    """the property itself on one real request head"""
    problems, method, target, version, fields = rc.split_request(data)
    if problems:
        ctx.fail('request-shape', where, case, 'request head %r: %s' % (data[:300], problems))
        return
    canon = info.url
    if full:
        want = canon
    else:
        sp = urllib.parse.urlsplit(canon)
        want = sp.path + ('?' + sp.query if sp.query else '')
    if target.decode('latin-1') != want:
        ctx.fail('target-mismatch', where, case, 'target %r, URL %r' % (target, canon))
    hosts = [v for n, v in fields if n.lower() == 'host']
    # one line per field, exactly the fields expected (no folding onto continuation lines, nothing added or lost)
    given_host = any(n.lower() == 'host' for n, _ in pairs)
    want_fields = sorted((n.lower(), v.encode('latin-1', 'replace').strip(b' \t\n\r\x0b\x0c').decode('latin-1')) for n, v in pairs)
    got_fields = sorted((n.lower(), v) for n, v in fields if given_host or n.lower() != 'host')
    if want_fields != got_fields:
        extra = [f for f in got_fields if f not in want_fields][:3]
        missing = [f for f in want_fields if f not in got_fields][:3]
        ctx.fail('field-lines', where, case, 'the field lines on the wire are not the fields of the request: unexpected %r, missing %r'
                 % ([(n, v[:80]) for n, v in extra], [(n, v[:80] + ('… (%d chars)' % len(v) if len(v) > 80 else '')) for n, v in missing]))
    if given_host:
        return          # a Host field configured by the caller is left alone (not URL data)
    if len(hosts) != 1:
        ctx.fail('host-count', where, case, 'Host fields %r' % hosts)
    elif rc.host_value_problem(hosts[0]) and not any(ord(ch) == 0x7f for ch in hosts[0]):
        ctx.fail('request-shape', where, case, 'the Host value %r is not a host name: %s (smuggled from the URL)' % (hosts[0], rc.host_value_problem(hosts[0])))
    elif hosts[0] != rc.expected_host(info):
        ctx.fail('host-mismatch', where, case, 'Host %r, URL %r' % (hosts[0], canon))


def monitor_class(ctx, case, info, where='URLInfo.parse'):
    comps = [info.hostname, info.path, info.query or '']
    try:
        whole = info.url
    except Exception as e:
        ctx.fail('url-char-class', where, case, 'URLInfo.url raises %s for an accepted URL (hostname %r)' % (type(e).__name__, info.hostname))
        return
    weak_bad = [c for c in comps + [whole] if any(ch in '\r\n \t\x0b\x0c' or ord(ch) > 255 for ch in c)]
    if not weak_bad and any(ch in info.hostname for ch in '[]'):
        weak_bad = [info.hostname]
    if weak_bad:
        ctx.fail('url-char-class', where, case, 'canonical component with CR/LF/SP/non-latin-1: %r' % weak_bad)
    elif not all(rc.component_class_ok(c) for c in comps + [info.url]):
        ctx.tag('url-char-class:outside-21-7e(not line breaking)')


def stream_prep(ctx, cases):
    lines, meta = [], []
    for url, method, version, pairs, full in cases:
        kind, info = rc.parse_url(url)
        if kind != 'url':
            ctx.case(('prep', url), nontrivial=False, tags=['prep:' + kind])
            continue
        lines.append(rc.prep_line(rc.urlc(info), method, version, pairs, full))
        meta.append((url, method, version, pairs, full, info))
    replies = ctx.model.ask(lines)
    for (url, method, version, pairs, full, info), rep in zip(meta, replies):
        case = {'stream': 'prep', 'url': url, 'method': method, 'version': version, 'pairs': pairs, 'full': full}
        k, val, _req = rc.real_prep(url, method, version, pairs, full)
        real = ('ok ' + enc(val)) if k == 'ok' else ('exc ' + val)
        tags = ['prep:' + k, 'prep:full' if full else 'prep:origin']
        if info.username or info.password:
            tags.append('prep:userinfo')
        if info.is_ipv6():
            tags.append('prep:ipv6')
        ctx.case(('prep', url, method, version, tuple(pairs), full), tags=tags)
        if real != rep:
            ctx.disagree('prep', case, rep, real)
        monitor_class(ctx, case, info)
        # the URL as it sits in the URL table is the CANONICAL string; the processor builds the request from that string.
        # STRING comparison: the target on the wire is the path?query text of the table URL (not one recomputed by parsing it again)
        try:
            canon = info.url
            k2, val2, _r2 = rc.real_prep(canon, 'GET', 'HTTP/1.1', [], full)
            if k2 == 'ok':
                tgt = val2.split(b' ')[1].decode('latin-1')
                rest = canon.partition('://')[2]
                cut = min([i for i in (rest.find('/'), rest.find('?')) if i >= 0] or [len(rest)])
                want_t = canon if full else (rest[cut:] or '/')
                if tgt != want_t:
                    ctx.fail('target-mismatch', 'URLInfo.parse-table-URL', dict(case, table_url=canon),
                             'the table URL %r is fetched with request target %r: not the path and query of the URL being fetched' % (canon, tgt))
        except Exception as e:
            ctx.fail('url-char-class', 'URLInfo.parse', case, 'the canonical URL cannot be turned into a request: %s' % type(e).__name__)
        if k == 'ok' and values_clean(pairs) and method.isalpha() and method.isascii() and version.startswith('HTTP/'):
            check_head(ctx, case, val, info, full, pairs, 'Request.to_bytes')
    if meta:
        ctx.sample({'stream': 'prep', 'url': meta[0][0], 'fields': meta[0][3], 'full_url': meta[0][4]})


def stream_prep2(ctx, cases):
    """prepare_for_send called twice with (possibly) different full_url: the last call decides"""
    lines, meta = [], []
    for url, method, version, pairs, f1, f2 in cases:
        kind, info = rc.parse_url(url)
        if kind != 'url':
            continue
        lines.append(rc.prep2_line(rc.urlc(info), method, version, pairs, f1, f2))
        meta.append((url, method, version, pairs, f1, f2, info))
    replies = ctx.model.ask(lines)
    for (url, method, version, pairs, f1, f2, info), rep in zip(meta, replies):
        case = {'stream': 'prep2', 'url': url, 'method': method, 'version': version, 'pairs': pairs, 'full1': f1, 'full2': f2}
        k, val, _req = rc.real_prep2(url, method, version, pairs, f1, f2)
        real = ('ok ' + enc(val)) if k == 'ok' else ('exc ' + val)
        ctx.case(('prep2', url, method, version, tuple(pairs), f1, f2), tags=['prep2:%s->%s' % ('full' if f1 else 'origin', 'full' if f2 else 'origin')])
        if real != rep:
            ctx.disagree('prep2', case, rep, real)
        if k == 'ok' and values_clean(pairs):
            check_head(ctx, case, val, info, f2, pairs, 'Request.prepare_for_send-twice')


# ------------------------------------------------------------------ names / auth / hostport / referer
def stream_small(ctx, rng, n):
    from wpull.url import URLInfo
    import base64
    names = [''.join(rng.choice('abzAZ09-_ .:') for _ in range(rng.randrange(0, 9))) for _ in range(n)] + rc.FIELD_NAMES
    reps = ctx.model.ask(['request title ' + enc(s) for s in names])
    for s, rep in zip(names, reps):
        real = enc(s.title()) + ' ' + enc(s.capitalize())
        ctx.case(('title', s), nontrivial=bool(s), tags=['names:title'])
        if real != rep:
            ctx.disagree('names', {'stream': 'title', 'name': s}, rep, real)
    from wpull.protocol.http.web import WebSession
    from wpull.protocol.http.request import Request as _Request
    import urllib.parse as _up
    creds = [(rc.gen_value(rng, True) or 'u', rc.gen_value(rng, True) or 'p') for _ in range(n)]
    creds += [(_up.unquote(rc.gen_long_cred(rng, 20, 150)), _up.unquote(rc.gen_long_cred(rng, 20, 150))) for _ in range(n // 3 + 5)]
    creds += [('u', 'p'), ('é', '€'), ('\udc80', 'x'), ('a:b', 'c'), ('u' * 40, 'p' * 17), ('u' * 40, 'p' * 16), ('x' * 200, 'y' * 200)]
    reps = ctx.model.ask(['request auth %s %s' % (enc(u), enc(p)) for u, p in creds])
    for (u, p), rep in zip(creds, reps):
        # the REAL WebSession._add_basic_auth_header on a request with that login
        req = _Request('http://h.example/')
        req.username, req.password = u, p
        # a real (fresh) WebSession object: the method may keep state on it
        WebSession(req, http_client=None, redirect_tracker=None, request_factory=_Request)._add_basic_auth_header(req)
        real = req.fields.get('Authorization') or ''
        ctx.case(('auth', u, p), tags=['names:auth', 'names:auth-long' if len(u) + len(p) >= 57 else 'names:auth-short'])
        case = {'stream': 'auth', 'user': u, 'password': p}
        if enc(real) != rep:
            ctx.disagree('names', case, rep, enc(real))
        if '\r' in real or '\n' in real:
            ctx.fail('request-shape', '_add_basic_auth_header', case, 'line break inside the Authorization value %r' % real)
        want = '{}:{}'.format(u, p).encode('utf-8', 'replace')
        try:
            got = base64.b64decode(real[6:], validate=True) if real.startswith('Basic ') else None
        except Exception:
            got = None
        if got != want:
            ctx.fail('credentials-garbled', '_add_basic_auth_header', case, 'Authorization %r does not decode to the credentials' % real[:120])
    urls = [rc.gen_url(rng) for _ in range(n)]
    infos = [(u, rc.parse_url(u)) for u in urls]
    infos = [(u, i) for u, (k, i) in infos if k == 'url']
    reps = ctx.model.ask(['request hostport ' + rc.url_token(rc.urlc(i)) for _, i in infos])
    for (u, i), rep in zip(infos, reps):
        ctx.case(('hostport', u), tags=['names:hostport'])
        monitor_class(ctx, {'stream': 'hostport', 'url': u}, i)
        try:
            real = enc(i.hostname_with_port) + ' ' + enc(i.url)
        except Exception as e:
            ctx.fail('url-char-class', 'URLInfo.parse', {'stream': 'hostport', 'url': u},
                     'URL accepted by the parser but its Host value cannot be built: %s (hostname %r)' % (type(e).__name__, i.hostname))
            continue
        if real != rep:
            ctx.disagree('names', {'stream': 'hostport', 'url': u}, rep, real)
        if i.hostname_with_port != rc.expected_host(i):
            ctx.fail('host-mismatch', 'URLInfo.hostname_with_port', {'stream': 'hostport', 'url': u},
                     '%r vs %r' % (i.hostname_with_port, rc.expected_host(i)))
    stream_referer(ctx, gen_referer_cases(rng, n))


USERINFO_SHAPES = ['pu{n}:secret{n}', 'pu{n}', ':token{n}', ':', '', 'pu{n}%3Ax:pw%40y{n}', 'p%40u{n}:s%3Aw{n}', ':p%3A%40{n}', 'pu{n}:',
                   '%3A:{n}secret', 'pu{n}:pw{n}:more', ':tok%20en{n}']


def gen_userinfo(rng):
    return rng.choice(USERINFO_SHAPES).format(n=rng.randrange(1000))


def gen_referer_cases(rng, n):
    cases = []
    for _ in range(n):
        k, child = rc.parse_url(rc.gen_url(rng, simple=True))
        if rng.random() < 0.5:
            # every shape of user-info: user:pw@, user@, :pw@ (token style, EMPTY user name), :@, @, percent-encoded ':' and '@'
            # inside either part, IPv6 hosts with user-info
            purl = 'http%s://%s@%s/dir/page?x=1' % (rng.choice(['', 's']), gen_userinfo(rng),
                                                   rng.choice(CHAIN_HOSTS[:6] + ['[2001:db8::2]:8080', '[::1]:81', 'a.example:8080']))
        else:
            purl = rc.gen_url(rng)
        k2, parent = rc.parse_url(purl)
        if k != 'url' or k2 != 'url':
            continue
        pre = rng.choice([None, None, '', 'http://preset.example/'])
        cases.append({'stream': 'referer', 'child': child.url, 'parent': rng.choice([parent.url, parent.url, parent.url, None, '']), 'preset': pre,
                      'http_login': rng.choice([None, None, ['GU', 'GP']])})
    return cases


def stream_referer(ctx, cases):
    """WebProcessorSession._populate_common_request: referrer of a child request from the parent URL of the record"""
    from wpull.processor.web import WebProcessorSession
    from wpull.protocol.http.request import Request
    from wpull.url import URLInfo
    # a canonical URL must parse again (C10); one that does not is reported, not crashed on
    usable = []
    for c in cases:
        try:
            URLInfo.parse(c['child'])
            if c['parent']:
                URLInfo.parse(c['parent'])
            usable.append(c)
        except ValueError as e:
            ctx.fail('url-char-class', 'URLInfo.parse', c, 'a canonical URL produced by the parser is refused by the parser: %s' % e)
    cases = usable
    lines = []
    for c in cases:
        child = URLInfo.parse(c['child'])
        pairs = [('User-Agent', 'ua')] + ([('Referer', c['preset'])] if c['preset'] is not None else [])
        lines.append('request referer %s %s %s' % (rc.fields_token(pairs), enc(c['parent'] or ''), enc(child.scheme)))
    reps = ctx.model.ask(lines)
    for c, rep in zip(cases, reps):
        child = URLInfo.parse(c['child'])
        parent, pre = c['parent'], c['preset']
        req = Request(child.url)
        req.fields['User-Agent'] = 'ua'
        if pre is not None:
            req.fields['Referer'] = pre
        rec = types.SimpleNamespace(parent_url=parent, url_info=child)
        http_login = c.get('http_login')
        ns = types.SimpleNamespace(_item_session=types.SimpleNamespace(url_record=rec),
                                   _add_referrer=WebProcessorSession._add_referrer,
                                   _fetch_rule=types.SimpleNamespace(http_login=tuple(http_login) if http_login else None))
        WebProcessorSession._populate_common_request(ns, req)
        # the login attributes (what a 401 challenge is answered with, and what survives Request.copy() on a 307/308)
        # are the configured login or nothing — never the URL's own user-info (model: populateLogin)
        want_login = tuple(http_login) if http_login else (None, None)
        if (req.username, req.password) != want_login:
            ctx.fail('cross-host-credentials', 'WebProcessorSession._populate_common_request', c,
                     'request for %r got login attributes %r (configured login %r): URL credentials copied into attributes '
                     'that outlive the URL' % (c['child'], (req.username, req.password), http_login))
        flat = []
        for nme, v in req.fields.get_all():
            flat += [nme, v]
        real = rc.enc_lists(flat)
        ref = req.fields.get('Referer')
        pinfo = URLInfo.parse(parent) if parent else None
        tags = ['referer:' + ('set' if ref else 'none')]
        if pinfo is not None and (pinfo.username or pinfo.password):
            tags.append('referer:parent-with-userinfo')
        ctx.case(('referer', child.url, parent, pre), tags=tags)
        if real != rep:
            ctx.disagree('referer', c, rep, real)
        if ref and (parent or '').startswith('https://') and child.scheme == 'http' and ref == parent:
            ctx.fail('referrer-leak', '_add_referrer', c, 'https referrer sent to http URL')
        if ref and not pre and '@' in urllib.parse.urlsplit(ref).netloc:
            ctx.fail('cross-host-credentials', '_add_referrer', c,
                     'Referer %r (request to %s) carries user-info of the referring page %r' % (ref, child.hostname_with_port, parent))
        elif ref and not pre and pinfo is not None and (pinfo.username or pinfo.password):
            # credentials of the referring page's host must not travel in ANY field to the linked host
            netloc = urllib.parse.urlsplit(ref).netloc
            secrets = [x for x in (pinfo.password, pinfo.username) if x]
            from wpull.url import normalize_password, normalize_username
            forms = set(secrets) | {normalize_password(x) for x in secrets} | {normalize_username(x) for x in secrets}
            # short secrets ('p') occur in host names by chance: judge those by the authority only
            if '@' in netloc or any(len(f) >= 5 and f in ref for f in forms):
                ctx.fail('cross-host-credentials', '_add_referrer', c,
                         'Referer %r (request to %s) carries the user-info of the referring page %r' % (ref, child.hostname_with_port, parent))

# ------------------------------------------------------------------ session
CHAIN_HOSTS = ['a.example', 'b.example', 'sub.a.example', 'c.test', '10.0.0.5', '[::1]', 'a.example:8080', 'b.example:81',
               # hosts that are textual prefixes / near twins of each other: IPv6 literals differing in a decimal last
               # group (a ':\\d+$' port strip would merge them), host vs host:port, name vs longer name
               '[::2]', '[2001:db8::2]', '[2001:db8::5]', '[2001:db8::2]:8080', 'a.example.c.test', 'xa.example', '10.0.0.50']
TWIN_HOSTS = [('[2001:db8::2]', '[2001:db8::5]'), ('[::1]', '[::2]'), ('[2001:db8::5]', '[2001:db8::2]:8080'), ('10.0.0.5', '10.0.0.50'),
              ('a.example', 'xa.example'), ('a.example', 'a.example.c.test'), ('[2001:db8::2]', '[2001:db8::]')]


def gen_location(rng, uid, http_only=False):
    """a Location value (bytes) or None; http_only: never an https target (proxy runs: no CONNECT/TLS over fakenet)"""
    r = rng.random()
    if http_only and 0.73 <= r < 0.85:
        r = 0.1
    if r < 0.45:
        host = rng.choice(CHAIN_HOSTS)
        if rng.random() < 0.08:
            host = rng.choice(rc.HOSTS_IPV6_ODD)          # zone ids / odd bracket contents: must be rejected
        elif rng.random() < 0.06:
            # a host with a latin-1 compatibility character (U+00A0, U+00A8, …) that name preparation maps to a space
            return ('%s://%s/n%d' % ('http' if http_only else rng.choice(['http', 'https']), rc.gen_nfkc_host(rng, latin1=True), uid)).encode('latin-1')
        scheme = 'http' if http_only else rng.choice(['http', 'http', 'https'])
        ui = ''
        if rng.random() < 0.2:
            ui = 'lu%d:lp%d@' % (uid, uid)
            if rng.random() < 0.4:
                ui = 'lu%d%s:lp%d%s@' % (uid, rc.gen_long_cred(rng, 20, 90), uid, rc.gen_long_cred(rng, 20, 90))
        return ('%s://%s%s/p%d%s' % (scheme, ui, host, uid, rng.choice(['', '?k=%d' % uid, '/x y', '/%0D%0AHost:%20evil']))).encode()
    if r < 0.65:
        return rng.choice(['/r%d', 'rel%d', '?q=%d', '../up%d', './%d', '/a b/%d', '/é%d']) .__mod__(uid).encode('latin-1')
    if r < 0.73:
        return ('//%s/sr%d' % (rng.choice(CHAIN_HOSTS + rc.HOSTS_IPV6_ODD[:6]), uid)).encode('utf-8')
    if r < 0.85:
        return rc.gen_url(rng).encode('utf-8', 'replace')
    if r < 0.9:
        return None
    return rng.choice([b'', b' ', b'http://[', b'http://', b'http://h:99999/', b'http://h:x/', b'mailto:x@y', b'ftp://f.example/z',
                       b'http:// sp ace/', b'javascript:void(0)', b'\xff\xfe', b'http://exa mple.test/a b', b'#frag', b'http://a.example:80/d',
                       b'http://a.example:443/d' if http_only else b'https://a.example:443/d', b'HTTP://A.EXAMPLE/Up'])


def gen_script(rng, http_only=False):
    n = rng.choice([0, 1, 1, 2, 2, 3, 4, 5, 6, 8])
    replies = []
    for k in range(n):
        r = rng.random()
        if r < 0.12:
            rep = {'status': 401, 'location': None if rng.random() < 0.8 else gen_location(rng, k, http_only)}
        else:
            rep = {'status': rng.choice([301, 302, 303, 307, 307, 308, 308]), 'location': gen_location(rng, k, http_only)}
        rep['cookies'] = []
        if rng.random() < 0.06:
            # many long cookies: the Cookie field of a later hop to this host exceeds 1 KiB (within the 4100-byte policy limit)
            rep['cookies'] = [('big%d_%d=%s' % (k, j, ''.join(rng.choice('abcdef0123456789') for _ in range(60)))).encode() for j in range(rng.randrange(16, 30))]
        elif rng.random() < 0.35:
            c = 'ck%d=v%d' % (k, rng.randrange(1000))
            d = rng.choice(['', '', '; Domain=.example', '; Domain=a.example', '; Domain=b.example', '; Domain=.a.example', '; Path=/', '; Secure', '; Domain=c.test'])
            rep['cookies'].append((c + d).encode())
        rep['mode'] = 'resp'
        replies.append(rep)
    fin = rng.random()
    if fin < 0.6:
        replies.append({'status': rng.choice([200, 200, 204, 404, 500, 401]), 'location': None if rng.random() < 0.9 else b'/loc-on-final',
                        'cookies': [], 'mode': 'resp'})
    elif fin < 0.7:
        replies.append({'status': 0, 'mode': rng.choice(['close', 'garbage'])})
    return replies


def gen_chain_case(rng, proxy=False):
    url = rc.gen_url(rng, hosts=CHAIN_HOSTS[:6], simple=True)
    if proxy and url.startswith('https://'):
        url = 'http://' + url[len('https://'):]
    login = None
    if rng.random() < 0.4:
        login = ('GU', 'GP')
        if rng.random() < 0.4:
            login = ('GU' + urllib.parse.unquote(rc.gen_long_cred(rng, 20, 100)), 'GP' + urllib.parse.unquote(rc.gen_long_cred(rng, 20, 100)))
    method, body = 'GET', None
    if rng.random() < 0.15:
        method = 'POST'      # no body: a replayed body is the wire engine's business (C08), the method is what matters here
    extra = []
    if rng.random() < 0.3:
        extra.append(('Referer', rng.choice(['https://parent.example/page', 'http://a.example/from?x=1'])))
    factory = [('User-Agent', 'ua/1')]
    if rng.random() < 0.3:
        factory.append(('accept-encoding', 'gzip, deflate'))
    if rng.random() < 0.1:
        factory.append(('X-Multi', 'one'))
        factory.append(('X-Multi', 'two'))
    replies = gen_script(rng, http_only=proxy)
    use_jar = rng.random() < 0.75
    max_redirects = rng.choice([0, 1, 2, 3, 5, 20, 20])
    if rng.random() < 0.12:
        # aimed at state that sticks to the ORIGINAL request object: a 401 that sets a cookie (the retry then carries
        # Cookie + Authorization), followed by a 307/308 replay to another host, and back
        login = login or ('GU', 'GP')
        use_jar = True
        max_redirects = 20
        other = rng.choice(['b.example', 'c.test', 'sub.a.example', '[::1]'])
        start_host = urllib.parse.urlsplit(url).netloc.rpartition('@')[2]
        if rng.random() < 0.6 and not start_host.startswith('[') and not start_host[0].isdigit():
            # a host whose name ENDS with the first host's name (sub-domain, look-alike): it never challenged,
            # so the login the first host accepted must not be sent to it
            other = rng.choice(['www.', 'login.', 'evil', 'not-', 'x']) + start_host
        replies = [{'status': 401, 'location': None, 'cookies': [b'ckA=v%d' % rng.randrange(1000)], 'mode': 'resp'},
                   {'status': rng.choice([307, 308]), 'location': ('http://%s/t%d' % (other, rng.randrange(100))).encode(),
                    'cookies': [b'ckB=v%d' % rng.randrange(1000)] if rng.random() < 0.5 else [], 'mode': 'resp'}] + replies
    elif rng.random() < 0.10:
        # the Authorization value is computed more than once in one session, from different inputs: user-info in the first URL
        # AND in the Location; a URL login plus the configured login and a replayed redirect whose target answers 401
        u = rng.randrange(1000)
        h1, h2 = rng.sample(['a.example', 'b.example', 'c.test', 'sub.a.example', 'a.example:8080'], 2)
        url = 'http://alice%d:wonder%d@%s/start' % (u, u, h1)
        max_redirects = 20
        if rng.random() < 0.5:
            replies = [{'status': rng.choice([301, 302, 303, 307, 308]), 'location': ('http://bob%d:builder%d@%s/next' % (u, u, h2)).encode(), 'cookies': [], 'mode': 'resp'},
                       {'status': rng.choice([200, 302]), 'location': ('http://carol%d:pw%d@%s/third' % (u, u, h1)).encode(), 'cookies': [], 'mode': 'resp'},
                       {'status': 200, 'location': None, 'cookies': [], 'mode': 'resp'}]
        else:
            login = ('carol%d' % u, 'pw%d' % u)
            replies = [{'status': rng.choice([307, 308]), 'location': ('http://%s/next' % h2).encode(), 'cookies': [], 'mode': 'resp'},
                       {'status': 401, 'location': None, 'cookies': [], 'mode': 'resp'},
                       {'status': 200, 'location': None, 'cookies': [], 'mode': 'resp'}]
    elif rng.random() < 0.12:
        # aimed at the cookie jar's notion of "host": twin hosts, every host issuing its own host-only cookie,
        # bouncing between them so that each is fetched after the other has set a cookie
        h1, h2 = rng.choice(TWIN_HOSTS)
        if rng.random() < 0.5:
            h1, h2 = h2, h1
        url = 'http://%s/login' % h1
        use_jar = True
        max_redirects = 20
        code = lambda: rng.choice([301, 302, 303, 307, 308])
        big = [('bigT_%d=%s' % (j, 'x' * 70)).encode() for j in range(18)] if rng.random() < 0.4 else []
        replies = [{'status': code(), 'location': ('http://%s/a' % h2).encode(), 'cookies': [b'ckT1=v%d' % rng.randrange(1000)] + big, 'mode': 'resp'},
                   {'status': code(), 'location': ('http://%s/b' % h1).encode(), 'cookies': [b'ckT2=v%d' % rng.randrange(1000)], 'mode': 'resp'},
                   {'status': code(), 'location': ('//%s/c' % h2).encode(), 'cookies': [b'ckT3=v%d; Path=/' % rng.randrange(1000)], 'mode': 'resp'},
                   {'status': 200, 'location': None, 'cookies': [], 'mode': 'resp'}]
    return {'stream': 'session', 'url': url, 'proxy': proxy, 'replies': replies, 'max_redirects': max_redirects,
            'use_jar': use_jar, 'login': login, 'method': method, 'body': body, 'extra': extra, 'factory': factory}


def cookie_owner_ok(req_host, set_host, domain_attr):
    def bare(h):
        # cookies are per host, not per port: strip ':port' (also after an IPv6 literal)
        if h.startswith('['):
            h = h[:h.index(']') + 1] if ']' in h else h
        else:
            h = h.rsplit(':', 1)[0] if ':' in h else h
        return h.lower()
    rh, sh = bare(req_host), bare(set_host)
    if rh == sh:
        return True
    if domain_attr:
        d = domain_attr.lstrip('.').lower()
        def dm(h):
            return h == d or h.endswith('.' + d)
        return dm(rh) and dm(sh)
    return False


def check_session_case(ctx, case):
    from wpull.url import URLInfo
    kind, info0 = rc.parse_url(case['url'])
    if kind != 'url':
        ctx.case(('session', case['url']), nontrivial=False, tags=['session:unparseable-start'])
        return
    replies = case['replies']
    login = tuple(case['login']) if case.get('login') else None
    factory = [tuple(p) for p in case.get('factory', [('User-Agent', 'ua/1')])]
    extra = [tuple(p) for p in case.get('extra', [])]
    res = rc.run_session(case['url'], replies, max_redirects=case['max_redirects'], use_jar=case['use_jar'],
                         factory_pairs=factory, extra_pairs=extra, login=login, method=case.get('method', 'GET'),
                         body=case.get('body'), proxy=case.get('proxy', False))
    line = rc.session_line(res, case['max_redirects'], case['use_jar'], factory, login, case.get('method', 'GET'),
                           proxy=case.get('proxy', False))
    rep = ctx.model.ask([line])[0]
    m_out, m_last, m_hops = rc.parse_session_reply(rep)
    real_heads = [h[2] for h in res['hops']]
    codes = [r.get('status') for r in replies[:len(res['hops'])]]
    tags = ['session:hops=%d' % min(len(res['hops']), 9), 'session:' + res['outcome'], 'session:proxy' if case.get('proxy') else 'session:direct']
    for c in set(codes):
        if c in rc.REDIRECT_CODES:
            tags.append('session:code=%d' % c)
    hosts_seen = {h[0] for h in res['hops']}
    if len(hosts_seen) > 1:
        tags.append('session:cross-host')
    if any(c in (307, 308) for c in codes) and len(hosts_seen) > 1:
        tags.append('session:repeat-cross-host')
    if res['answers'] and any(res['answers']):
        tags.append('session:cookie-sent')
    ctx.case(('session', repr(case)), nontrivial=len(res['hops']) > 0, tags=tags)
    if (m_out, m_last, m_hops) != (res['outcome'], res['last'], real_heads):
        ctx.disagree('session', case, {'outcome': m_out, 'last': m_last, 'hops': m_hops},
                     {'outcome': res['outcome'], 'last': res['last'], 'hops': real_heads})
    if res['outcome'] == 'non-http-next-request':
        ctx.fail('non-http-hop', 'WebSession._process_redirect', case, 'a redirect produced a next request that is not an http(s) URL')
    if res['outcome'] in ('stalled', 'runaway'):
        ctx.fail('no-termination', 'WebSession', case, 'session %s after %d requests' % (res['outcome'], len(res['hops'])))
    # ---- direct oracle on the real hops
    # the URL each hop is FOR, derived by the harness from the start URL and the Location values the server sent (not from
    # the request object): hop 0 = start URL; after a redirect reply the joined Location; after a 401 the same URL again
    import wpull.url
    hop_url = [info0]
    for k in range(len(res['hops']) - 1):
        r = replies[k] if k < len(replies) else {'status': 200, 'mode': 'resp'}
        nxt = hop_url[-1]
        if nxt is not None and r.get('mode', 'resp') == 'resp' and r.get('status') in rc.REDIRECT_CODES and r.get('location') is not None:
            # the Location text as the response header parser delivered it (a value is cut at U+0085 and the like)
            loc_text = res['locs'].get(k)
            if loc_text is None:
                loc_text = r['location'].decode('latin-1').strip()
            try:
                kk, li = rc.parse_url(wpull.url.urljoin(nxt.url, loc_text))
                nxt = li if kk == 'url' else None
            except ValueError:
                nxt = None
        hop_url.append(nxt)
    for k, (host, port, head, body) in enumerate(res['hops']):
        want = hop_url[k] if k < len(hop_url) else None
        if want is None:
            continue
        p0, m0, target0, v0, fields0 = rc.split_request(head)
        if p0:
            continue
        sp = urllib.parse.urlsplit(want.url)
        want_target = want.url if case.get('proxy') else sp.path + ('?' + sp.query if sp.query else '')
        hv = [v for n, v in fields0 if n.lower() == 'host']
        conn_ok = case.get('proxy') or (host == want.hostname and port == want.port)
        if target0.decode('latin-1') != want_target or hv != [rc.expected_host(want)] or not conn_ok:
            ctx.fail('hop-url-mismatch', 'WebSession._process_redirect', case,
                     'hop %d is for %r (the URL the %s named) but the request on the wire is %r with Host %r, sent to %s:%d'
                     % (k, want.url, 'redirect' if k else 'caller', head.split(b'\r\n')[0].decode('latin-1'), hv, host, port))
            break
    cookie_src = {}
    userinfo_src = {}
    challenged = set()          # origins (Host values) that have answered 401 so far in this visit
    if info0.username or info0.password:
        userinfo_src.setdefault((info0.username or '', info0.password or ''), set()).add(rc.expected_host(info0))
    for k, (host, port, head, body) in enumerate(res['hops']):
        problems, method, target, version, fields = rc.split_request(head)
        where = 'WebSession.hop'
        if problems:
            ctx.fail('request-shape', where, case, 'hop %d head %r: %s' % (k, head[:300], problems))
            continue
        hvals = [v for n, v in fields if n.lower() == 'host']
        name = '[%s]' % host if ':' in host else host
        if hvals and rc.host_value_problem(hvals[0]) and not any(ord(ch) == 0x7f for ch in hvals[0]):
            ctx.fail('request-shape', where, case, 'hop %d: the Host value %r is not a host name: %s (smuggled from the URL / Location)'
                     % (k, hvals[0], rc.host_value_problem(hvals[0])))
        if len(hvals) != 1:
            ctx.fail('host-count', where, case, 'hop %d: Host fields %r' % (k, hvals))
        elif case.get('proxy'):
            # every hop goes to the proxy: the target must be the absolute URL of the hop (first request,
            # follow-up, 307/308 replay or authentication retry alike) and Host must name that URL's host
            t = target.decode('latin-1')
            base = res['bases'][k] if k < len(res['bases']) else None
            if (host, port) != ('proxy.test', 3128):
                ctx.fail('target-mismatch', where, case, 'hop %d bypassed the proxy: sent to %s:%d' % (k, host, port))
            elif not t.startswith('http://') or (base is not None and t != base) or (k == 0 and t != info0.url):
                ctx.fail('target-mismatch', where, case,
                         'hop %d through the proxy has target %r, URL being fetched %r (head %r)' % (k, t, base if base else info0.url, head[:200]))
            else:
                netloc = urllib.parse.urlsplit(t).netloc.rpartition('@')[2]
                if hvals[0] != netloc:
                    ctx.fail('host-mismatch', where, case, 'hop %d target %r carries Host %r' % (k, t, hvals[0]))
        elif hvals[0] not in (name, '%s:%d' % (name, port)) or (hvals[0] == name and port not in (80, 443)):
            ctx.fail('host-mismatch', where, case, 'hop %d sent to %s:%d carries Host %r (head %r)' % (k, host, port, hvals[0], head[:200]))
        if not case.get('proxy') and not target.startswith(b'/'):
            ctx.fail('target-mismatch', where, case, 'hop %d target %r' % (k, target))
        if not case.get('proxy') and k < len(res['bases']) and res['bases'][k]:
            sp = urllib.parse.urlsplit(res['bases'][k])
            want = sp.path + ('?' + sp.query if sp.query else '')
            if target.decode('latin-1') != want:
                ctx.fail('target-mismatch', where, case, 'hop %d target %r, URL being fetched %r' % (k, target, res['bases'][k]))
        # credentials
        for n, v in fields:
            if n.lower() == 'authorization':
                up = rc.decode_basic(v)
                ok_sources = set()
                if login:
                    ok_sources.add(login)
                here = [ui for ui, hs in userinfo_src.items() if (hvals[0] if hvals else None) in hs]
                for ui in here:
                    ok_sources.add(ui)
                    if login:
                        ok_sources.add((ui[0] or login[0], ui[1] or login[1]))
                if up not in {'%s:%s' % src for src in ok_sources}:
                    owner = [sorted(hs) for ui, hs in userinfo_src.items() if '%s:%s' % ui == up]
                    ctx.fail('cross-host-credentials', where, case,
                             'hop %d to %s carries credentials %r that belong to %r (head %r)' % (k, hvals, up, owner, head[:300]))
                elif up not in {'%s:%s' % (ui[0] or (login[0] if login else ''), ui[1]) for ui in here if ui[1]} \
                        and (hvals[0] if hvals else None) not in challenged:       # a password in the hop URL addresses the login to that host
                    # the configured login (or a URL user name completed with it) goes only to an origin that asked for it:
                    # one that has answered 401 in this visit — not to a host that merely has a similar name
                    ctx.fail('unchallenged-credentials', 'WebSession.start', case,
                             'hop %d to %s carries the login %r although that origin never sent a challenge (challenged so far: %s; head %r)'
                             % (k, hvals, up, sorted(challenged), head[:300]))
            if n.lower() == 'cookie':
                for part in v.split(';'):
                    cname = part.strip().split('=', 1)[0]
                    src = cookie_src.get(cname)
                    if src is None:
                        ctx.fail('cross-host-cookie', where, case, 'hop %d carries unknown cookie %r' % (k, part))
                    elif not cookie_owner_ok(hvals[0] if hvals else host, src[0], src[1]):
                        ctx.fail('cross-host-cookie', where, case,
                                 'hop %d to %s carries cookie %r set by %s (Domain=%r)' % (k, hvals, part, src[0], src[1]))
        # learn from the reply to this hop
        if k < len(replies) and replies[k].get('mode', 'resp') == 'resp' and replies[k].get('status') == 401 and hvals:
            challenged.add(hvals[0])
        if k < len(replies) and replies[k].get('mode', 'resp') == 'resp':
            for c in replies[k].get('cookies', ()):
                txt = c.decode('latin-1')
                cname = txt.split('=', 1)[0]
                dom = None
                for a in txt.split(';')[1:]:
                    a = a.strip()
                    if a.lower().startswith('domain='):
                        dom = a[7:]
                cookie_src[cname] = (hvals[0] if hvals else host, dom)
            if k < len(res['mreplies']):
                st, hl, kd, c = res['mreplies'][k]
                if kd == 2 and (c['username'] or c['password']):
                    tgt_host = ('[%s]' % c['hostname'] if c['ipv6'] else c['hostname'])
                    if c['port'] != {'http': 80, 'https': 443}[c['scheme']]:
                        tgt_host += ':%d' % c['port']
                    userinfo_src.setdefault((c['username'], c['password']), set()).add(tgt_host)      # the same text may be given for several hosts
    ctx.sample({'stream': 'session', 'url': case['url'], 'statuses': codes, 'outcome': res['outcome'], 'hops': len(res['hops'])})


# ------------------------------------------------------------------ Netscape cookie files (--load-cookies)
HTTPONLY_HOSTS = [('login.a.example', 'ogin.a.example'), ('nytimes.test', 'imes.test'), ('portal.b.example', 'ortal.b.example'),
                  ('typo.c.test', 'o.c.test'), ('pony.example', 'ony.example'), ('_tcp.b.example', 'cp.b.example'),
                  ('lynx.a.example', 'x.a.example'), ('Host.c.test', 'ost.c.test')]


def cookie_file_entitlement(text):
    """cookie name -> (host, Domain attribute or None) as the FILE says, read independently of the loader:
    '#HttpOnly_' is a literal prefix of the domain field (curl), other '#'/'$' lines and blank lines are comments"""
    out = {}
    for line in text.split('\n')[1:]:
        if line.startswith('#HttpOnly_'):
            line = line[len('#HttpOnly_'):]
        elif line.strip().startswith(('#', '$')) or not line.strip():
            continue
        parts = line.split('\t')
        if len(parts) != 7:
            continue
        domain, spec, path, secure, expires, name, value = parts
        out[name] = (domain.lstrip('.') if spec == 'TRUE' else domain, domain if spec == 'TRUE' else None)
    return out


def gen_cookie_file(rng, hosts, uid):
    """a cookies.txt: magic line, comments, blank and '$' lines, host-only and dotted domains, '#HttpOnly_' lines,
    session cookies (expiry 0 or empty), persistent and expired ones; cookie names are unique"""
    lines = [rng.choice(['# Netscape HTTP Cookie File', '# HTTP Cookie File', '# Netscape HTTP Cookie File'])]
    lines += rng.sample(['# https://curl.se/docs/http-cookies.html', '# This file was generated by libcurl! Edit at your own risk.', '',
                         '$Version=1', '#comment\twith\ttabs\tthat\tlooks\tlike\ta\tcookie', '# HttpOnly_ in a comment'], rng.randrange(0, 4))
    n = 0
    for h in hosts:
        for _ in range(rng.randrange(1, 3)):
            n += 1
            httponly = rng.random() < 0.5
            dotted = rng.random() < 0.3 and not h.startswith('[')
            domain = ('.' + h) if dotted else h
            exp = rng.choice(['0', '', '4102444800', '4102444800', '1'])
            lines.append('%s%s\t%s\t/\t%s\t%s\tf%d_%d%s\tv%d' % ('#HttpOnly_' if httponly else '', domain, 'TRUE' if dotted else 'FALSE',
                                                                rng.choice(['FALSE', 'FALSE', 'TRUE']) if False else 'FALSE', exp, uid, n,
                                                                'H' if httponly else '', rng.randrange(10 ** 6)))
    rng.shuffle(lines[1:])
    return '\n'.join(lines) + '\n'


def stream_cookiefile(ctx, rng, n):
    """BetterMozillaCookieJar.load (what --load-cookies does) on generated files: every cookie in the jar is stored under
    exactly the domain its line names"""
    import os
    import tempfile
    import warnings
    from wpull.cookie import BetterMozillaCookieJar
    tmp = tempfile.mkdtemp(prefix='c16jar-')
    try:
        for i in range(n):
            pairs = rng.sample(HTTPONLY_HOSTS, rng.randrange(1, 4))
            hosts = [p[0] for p in pairs] + rng.sample(['a.example', 'sub.a.example', 'b.example', 'c.test', '10.0.0.5'], 2)
            text = gen_cookie_file(rng, hosts, i)
            want = cookie_file_entitlement(text)
            path = os.path.join(tmp, 'c%d.txt' % i)
            with open(path, 'w') as f:
                f.write(text)
            jar = BetterMozillaCookieJar()
            case = {'stream': 'cookiefile', 'text': text}
            with warnings.catch_warnings():
                warnings.simplefilter('ignore')
                try:
                    jar.load(path, ignore_discard=True)
                except Exception as e:
                    ctx.fail('cookie-file-load', 'BetterMozillaCookieJar._really_load', case, 'loading raised %s' % type(e).__name__)
                    continue
            loaded = list(jar)
            ctx.case(('cookiefile', text), tags=['cookiefile:loaded=%d' % min(len(loaded), 6),
                                                 'cookiefile:httponly-lines' if '#HttpOnly_' in text else 'cookiefile:plain'])
            for c in loaded:
                ent = want.get(c.name)
                if ent is None:
                    ctx.fail('cross-host-cookie', 'BetterMozillaCookieJar._really_load', case, 'cookie %r in the jar is in no line of the file' % c.name)
                    continue
                file_domain = ent[1] if ent[1] else ent[0]
                if c.domain.lower() != file_domain.lower():          # host names are case-insensitive
                    ctx.fail('cross-host-cookie', 'BetterMozillaCookieJar._really_load', case,
                             'cookie %r of the file line for %r is stored under domain %r: it will be sent to another host' % (c.name, file_domain, c.domain))
    finally:
        import shutil
        shutil.rmtree(tmp, ignore_errors=True)


# ------------------------------------------------------------------ the whole application (set-up code and table glue included)
APP_TWINS = [('a.example', 'sub.a.example'), ('a.example', 'deep.sub.a.example:8080'), ('sub.a.example', 'a.example'),
             ('[2001:db8::2]', '[2001:db8::5]'), ('a.example', 'xa.example')]
APP_COOKIE_OPTIONS = ['default', 'save', 'save-keep', 'load', 'load-save', 'no-cookies']
HOSTILE_LOCATIONS = [b'/t y?a b#frag', b'/caf\xe9/p\xff', b'/p#frag', b'http://a.example/a b/', b'/%7Euser/x y', b'/plain',
                     b'http://user:pw@a.example/priv ate/', b'/x\xa0y?\x85#\xe9', b'//a.example/s p?q#f', b'/a/../b c/./d']


def referer_clean(ctx, case, fields, where, k):
    """a Referer on the wire is a clean, normalised URL without user-info (whatever data it was built from)"""
    from wpull.url import URLInfo
    for n, v in fields:
        if n.lower() != 'referer':
            continue
        bad = None
        if any(ord(ch) <= 0x20 or ord(ch) > 0x7e for ch in v):
            bad = 'white space / control / non-ASCII byte'
        elif '#' in v:
            bad = 'fragment'
        elif '@' in urllib.parse.urlsplit(v).netloc:
            bad = 'user-info'
        else:
            try:
                if URLInfo.parse(v).url != v:
                    bad = 'not in normalised form'
            except ValueError:
                bad = 'not a URL'
        if bad:
            ctx.fail('referer-not-normalised', where, case, 'request %d carries Referer %r: %s' % (k, v, bad))


def check_app_case(ctx, case):
    """Builder(args).build().run() of the real application (AppArgumentParser, factory, ClientSetupTask, pipeline, URL
    table, processor); wire oracle on every request head the fake servers receive."""
    import os
    import shutil
    import tempfile
    tmp = tempfile.mkdtemp(prefix='c16app-')
    try:
        extra, preload = [], {}
        opt = case.get('cookies', 'default')
        jarfile = os.path.join(tmp, 'cookies.txt')
        if opt in ('load', 'load-save'):
            h1 = case['hosts'][0]
            bare = h1.rsplit(':', 1)[0] if not h1.startswith('[') else h1
            with open(jarfile, 'w') as f:
                f.write('# Netscape HTTP Cookie File\n')
                f.write('%s\tFALSE\t/\tFALSE\t4102444800\tfileHostOnly\tv1\n' % bare)
                if not bare.startswith('['):
                    f.write('.a.example\tTRUE\t/\tFALSE\t4102444800\tfileDomain\tv2\n')
            preload = {'fileHostOnly': (h1, None), 'fileDomain': ('a.example', '.a.example')}
            if case.get('cookie_file'):
                # a cookies.txt as curl / wget / browsers write them; what it entitles is read off its own lines
                with open(jarfile, 'w') as f:
                    f.write(case['cookie_file'])
                preload = cookie_file_entitlement(case['cookie_file'])
            extra += ['--load-cookies', jarfile]
        if opt in ('save', 'save-keep', 'load-save'):
            extra += ['--save-cookies', os.path.join(tmp, 'out-cookies.txt')]
        if opt == 'save-keep':
            extra += ['--keep-session-cookies']
        if opt == 'no-cookies':
            extra += ['--no-cookies']
        if case.get('span_hosts'):
            extra += ['--span-hosts']       # otherwise SpanHostsFilter refuses the authentication retry on a redirect target
        proxy = case.get('proxy')
        if proxy:
            extra += ['--http-proxy', 'proxy.test:3128']
            if proxy.get('user'):
                extra += ['--proxy-user', proxy['user'][0], '--proxy-password', proxy['user'][1]]
            if proxy.get('exclude'):
                extra += ['--proxy-exclude-hostnames', ','.join(proxy['exclude'])]
        res = rc.run_crawl(case['url'], case['replies'], 1, 10, extra_argv=extra, recursive=case.get('recursive', False),
                           login=tuple(case['login']) if case.get('login') else None, tls_passthrough=bool(proxy))
    finally:
        shutil.rmtree(tmp, ignore_errors=True)
    hops = res['named_hops']
    ctx.case(('app', repr(case)), nontrivial=len(hops) > 0,
             tags=['app:' + case['kind'], 'app:cookies=' + opt, 'app:requests=%d' % min(len(hops), 9)])
    if res['hung'] or res['capped']:
        ctx.fail('no-termination', 'Application.run', case, 'the crawl did not end')
        return
    cookie_src = dict(preload)
    where = 'Application'
    # credentials written in a URL belong to that URL's origin (host[:port]); the configured login belongs to no host
    login = tuple(case['login']) if case.get('login') else None
    cred_owner = {}
    app_challenged = set()      # origins that have answered 401: only those may be sent the configured login
    k0, info0 = rc.parse_url(case['url'])
    if k0 == 'url' and (info0.username or info0.password):
        cred_owner.setdefault('%s:%s' % (info0.username or '', info0.password or ''), set()).add(rc.expected_host(info0))
    for r in case['replies']:
        loc = r.get('location')
        if loc and b'@' in loc and loc.startswith(b'http'):
            kk, li = rc.parse_url(loc.decode('latin-1'))
            if kk == 'url' and (li.username or li.password):
                cred_owner.setdefault('%s:%s' % (li.username or '', li.password or ''), set()).add(rc.expected_host(li))
    for k, (host, port, head, body) in enumerate(hops):
        problems, method, target, version, fields = rc.split_request(head)
        if problems:
            ctx.fail('request-shape', where, case, 'request %d head %r: %s' % (k, head[:300], problems))
            continue
        hvals = [v for n, v in fields if n.lower() == 'host']
        name = '[%s]' % host if ':' in host else host
        tunnel = res['tunnels'][k] if k < len(res['tunnels']) else None
        if case.get('proxy'):
            # the in-memory network plays the proxy: absolute-form requests, CONNECT tunnels, and excluded hosts reached directly
            excluded = case['proxy'].get('exclude') or []
            tgt = target.decode('latin-1')
            if len(hvals) != 1:
                ctx.fail('host-count', where, case, 'request %d: Host fields %r' % (k, hvals))
            elif tunnel is not None:
                want = hvals[0] if (hvals[0].rsplit(':', 1)[-1].isdigit() and not hvals[0].endswith(']')) else hvals[0] + ':443'
                if (host, port) != ('proxy.test', 3128) or want != tunnel or not tgt.startswith('/'):
                    ctx.fail('wrong-tunnel', 'HTTPProxyConnectionPool.acquire_proxy', case,
                             'request %d for %s (%s; Cookie/Authorization: %r) was written into the CONNECT tunnel to %s'
                             % (k, hvals[0], head.split(b'\r\n')[0].decode('latin-1'),
                                [v for n, v in fields if n.lower() in ('cookie', 'authorization')], tunnel))
            elif (host, port) == ('proxy.test', 3128):
                netloc = urllib.parse.urlsplit(tgt).netloc.rpartition('@')[2]
                if not tgt.startswith('http://') or netloc != hvals[0]:
                    ctx.fail('target-mismatch', where, case, 'request %d to the proxy: target %r, Host %r' % (k, tgt, hvals[0]))
            else:
                if host not in excluded or hvals[0] not in (name, '%s:%d' % (name, port)) or not tgt.startswith('/'):
                    ctx.fail('host-mismatch', where, case, 'request %d went directly to %s:%d (Host %r, target %r); excluded hosts %r'
                             % (k, host, port, hvals, tgt, excluded))
            if (tunnel is not None or (host, port) != ('proxy.test', 3128)) and any(n.lower() == 'proxy-authorization' for n, _ in fields):
                ctx.fail('proxy-credentials-to-origin', 'Session.start', case,
                         'request %d to origin %s (%s) carries Proxy-Authorization: the credentials of the proxy were sent to an origin server (head %r)'
                         % (k, hvals, 'inside the tunnel to %s' % tunnel if tunnel else 'directly', head[:250]))
        elif len(hvals) != 1 or hvals[0] not in (name, '%s:%d' % (name, port)):
            ctx.fail('host-mismatch', where, case, 'request %d sent to %s:%d carries Host %r' % (k, host, port, hvals))
        referer_clean(ctx, case, fields, ('WebProcessorSession._add_referrer' if case['replies'][0].get('status') == 200 else 'ItemSession.add_child_url')
                      if case['kind'] == 'referer' else where, k)
        for n, v in fields:
            if n.lower() == 'authorization':
                ctx.tag('app:authorization-sent')
                up = rc.decode_basic(v)
                origin = hvals[0] if hvals else host
                ok = (login is not None and up == '%s:%s' % login and origin in app_challenged) or origin in cred_owner.get(up, ())
                if login is not None:
                    for own, origins in cred_owner.items():        # URL user name with the configured password, and the like
                        if origin in origins:
                            u, _, p = own.partition(':')
                            ok = ok or (up in ('%s:%s' % (u or login[0], p or login[1]),) and (bool(p) or origin in app_challenged))
                if not ok:
                    ctx.fail('cross-host-credentials', 'WebProcessorSession._populate_common_request', case,
                             'request %d to %s carries Authorization for %r, which belongs to %s (head %r)'
                             % (k, origin, up, sorted(cred_owner.get(up, [])) or 'nobody', head[:200]))
            if n.lower() == 'cookie':
                ctx.tag('app:cookie-sent')
                if opt == 'no-cookies':
                    ctx.fail('cross-host-cookie', 'ClientSetupTask._build_cookie_jar', case, 'request %d carries Cookie %r with --no-cookies' % (k, v))
                for part in v.split(';'):
                    cname = part.strip().split('=', 1)[0]
                    src = cookie_src.get(cname)
                    if src is None:
                        ctx.fail('cross-host-cookie', 'ClientSetupTask._build_cookie_jar', case, 'request %d carries unknown cookie %r' % (k, part))
                    elif not cookie_owner_ok(hvals[0] if hvals else host, src[0], src[1]):
                        ctx.fail('cross-host-cookie', 'ClientSetupTask._build_cookie_jar', case,
                                 'request %d to %s carries cookie %r that belongs to %s (Domain=%r); cookie options %r'
                                 % (k, hvals, part.strip(), src[0], src[1], opt))
        if k < len(case['replies']) and case['replies'][k].get('status') == 401 and hvals:
            app_challenged.add(hvals[0])
        if k < len(case['replies']):
            for c in case['replies'][k].get('cookies', ()):
                txt = c.decode('latin-1')
                dom = None
                for a in txt.split(';')[1:]:
                    if a.strip().lower().startswith('domain='):
                        dom = a.strip()[7:]
                cookie_src[txt.split('=', 1)[0]] = (hvals[0] if hvals else host, dom)
    ctx.sample({'stream': 'app', 'kind': case['kind'], 'cookies': opt, 'url': case['url'], 'requests': len(hops)})


def gen_app_cases(rng, n_cookie, n_referer, n_auth=0, n_proxy=0, n_cookiefile=0):
    out = []
    for i in range(n_cookie):
        if i < 2 * len(APP_COOKIE_OPTIONS):
            # every cookie option set x the two parent -> sub-domain twins
            h1, h2 = APP_TWINS[i % 2]
            opt = APP_COOKIE_OPTIONS[i // 2]
        else:
            h1, h2 = rng.choice(APP_TWINS)
            opt = rng.choice(APP_COOKIE_OPTIONS)
        code = lambda: rng.choice([301, 302, 303, 307, 308])
        u = rng.randrange(1000)
        replies = [{'status': code(), 'location': ('http://%s/a' % h2).encode(), 'cookies': [b'ckT1=v%d' % u], 'mode': 'resp'},
                   {'status': code(), 'location': ('http://%s/b' % h1).encode(), 'cookies': [b'ckT2=v%d; Path=/' % u], 'mode': 'resp'},
                   {'status': code(), 'location': ('http://%s/c' % h2).encode(),
                    'cookies': [b'ckT3=v%d; Domain=.a.example' % u] if 'a.example' in h1 and 'a.example' in h2 else [], 'mode': 'resp'},
                   {'status': 200, 'location': None, 'cookies': [], 'mode': 'resp'}]
        out.append({'stream': 'app', 'kind': 'cookies', 'cookies': opt, 'hosts': [h1, h2], 'url': 'http://%s/login' % h1, 'replies': replies})
    for i in range(n_cookiefile):
        # --load-cookies with a curl-style file: '#HttpOnly_' host-only session cookies; the truncated twin of the host is fetched too
        full, trunc = HTTPONLY_HOSTS[i % len(HTTPONLY_HOSTS)]
        text = gen_cookie_file(rng, [full, 'a.example'], 9000 + i)
        text += '#HttpOnly_%s\tFALSE\t/\tFALSE\t0\tsessH%d\tsecret%d\n' % (full, i, rng.randrange(10 ** 6))
        first, second = (trunc, full) if i % 2 == 0 else (full, trunc)
        replies = [{'status': 302, 'location': ('http://%s/b' % second).encode(), 'cookies': [], 'mode': 'resp'},
                   {'status': 302, 'location': ('http://%s/c' % first).encode(), 'cookies': [], 'mode': 'resp'},
                   {'status': 200, 'mode': 'resp'}]
        out.append({'stream': 'app', 'kind': 'cookies', 'cookies': rng.choice(['load', 'load-save']), 'hosts': [first, second],
                    'url': 'http://%s/a' % first, 'replies': replies, 'cookie_file': text})
    for i in range(n_auth):
        # credentials in the start URL, a 307/308 (replayed copy of the request) to another origin, a 401 challenge there
        u = rng.randrange(1000)
        src = rng.choice(['a.example', 'a.example:8080', '[2001:db8::2]'])
        dst = rng.choice([h for h in ('b.example', 'a.example:8080', 'a.example', 'sub.a.example', '[2001:db8::5]') if h != src])
        if i % 4 == 3 and not src.startswith('['):
            dst = rng.choice(['www.', 'evil']) + src       # configured login, a host whose name ends with the first host's name
        ui = '' if rng.random() < 0.75 else 'lu%d:lp%d@' % (u, u)
        first = [307, 308][i % 2] if i < 4 else rng.choice([301, 302, 303, 307, 308])
        replies = [{'status': first, 'location': ('http://%s%s/t' % (ui, dst)).encode(), 'cookies': [], 'mode': 'resp'},
                   {'status': 401, 'location': None, 'cookies': [], 'mode': 'resp'},
                   {'status': rng.choice([200, 401, 307]), 'location': ('http://%s/back' % src).encode(), 'cookies': [], 'mode': 'resp'},
                   {'status': 401, 'location': None, 'cookies': [], 'mode': 'resp'}, {'status': 200, 'mode': 'resp'}]
        if i % 3 == 2:
            replies = [{'status': 401, 'location': None, 'cookies': [], 'mode': 'resp'}] + replies
        out.append({'stream': 'app', 'kind': 'auth', 'cookies': rng.choice(['default', 'no-cookies']), 'hosts': [src, dst],
                    'url': 'http://u%d:p%d@%s/x' % (u, u, src), 'replies': replies,
                    'login': None if i % 4 != 3 else ('GU%d' % u, 'GP%d' % u), 'span_hosts': i % 5 != 4})
    for i in range(n_proxy):
        u = rng.randrange(1000)
        puser = None if i % 3 == 2 else ('pu%d' % u, 'pp%d' % u)
        code = lambda: rng.choice([301, 302, 303, 307, 308])
        if i % 2 == 0:
            # several https origins behind the proxy, keep-alive, bouncing between them: every tunnel must only ever
            # carry requests (and cookies) of the origin named in its CONNECT
            o1, o2 = rng.choice([('alpha.example', 'beta.example'), ('alpha.example', 'alpha.example:8443'), ('a.example', 'sub.a.example')])
            replies = [{'status': code(), 'location': ('https://%s/b1' % o2).encode(), 'cookies': [b'sidA=v%d' % u], 'mode': 'resp'},
                       {'status': code(), 'location': ('https://%s/a2' % o1).encode(), 'cookies': [b'sidB=v%d' % u], 'mode': 'resp'},
                       {'status': code(), 'location': ('https://%s/b2' % o2).encode(), 'cookies': [], 'mode': 'resp'},
                       {'status': code(), 'location': ('http://%s/plain' % o1.split(':')[0]).encode(), 'cookies': [], 'mode': 'resp'},
                       {'status': 200, 'mode': 'resp'}]
            out.append({'stream': 'app', 'kind': 'proxy', 'cookies': 'default', 'hosts': [o1, o2], 'url': 'https://%s/a1' % o1,
                        'replies': replies, 'proxy': {'user': puser}})
        else:
            # a proxied plain-http URL replayed (307/308) to an https origin (tunnel) or to a host excluded from the proxy
            first = [307, 308][(i // 2) % 2] if i < 8 else code()
            dst = rng.choice([b'https://b.example/y', b'http://direct.test/z', b'https://b.example:8443/y'])
            replies = [{'status': first, 'location': dst, 'cookies': [], 'mode': 'resp'},
                       {'status': rng.choice([307, 308]), 'location': rng.choice([b'http://direct.test/w', b'https://c.test/v', b'http://a.example/back']),
                        'cookies': [], 'mode': 'resp'},
                       {'status': 200, 'mode': 'resp'}]
            out.append({'stream': 'app', 'kind': 'proxy', 'cookies': 'default', 'hosts': ['a.example'], 'url': 'http://a.example/x',
                        'replies': replies, 'proxy': {'user': puser, 'exclude': ['direct.test']}})
    for i in range(n_referer):
        if i % 2 == 1:
            # a page fetched from a URL with user-info (every shape), linking to another host and to its own host: no byte of
            # the user-info may travel in the Referer of the children
            ui = USERINFO_SHAPES[(i // 2) % len(USERINFO_SHAPES)].format(n=rng.randrange(1000))
            host = rng.choice(['a.example', 'a.example:8080', '[2001:db8::2]'])
            body = b'<html><body><a href="http://b.example/child1">c</a> <a href="http://%s/child2?x=1">d</a></body></html>' % host.encode()
            replies = [{'status': 200, 'location': None, 'cookies': [], 'mode': 'resp', 'body': body, 'extra': [b'Content-Type: text/html']},
                       {'status': 200, 'mode': 'resp'}, {'status': 200, 'mode': 'resp'}]
            out.append({'stream': 'app', 'kind': 'referer', 'cookies': 'default', 'hosts': [host, 'b.example'],
                        'url': 'http://%s@%s/dir/page' % (ui, host), 'replies': replies, 'recursive': True, 'span_hosts': True})
            continue
        loc = HOSTILE_LOCATIONS[i % len(HOSTILE_LOCATIONS)] if i < len(HOSTILE_LOCATIONS) else rng.choice(HOSTILE_LOCATIONS)
        body = b'<html><body><a href="http://a.example/child1">c</a> <a href="http://a.example/child2?x=1">d</a></body></html>'
        replies = [{'status': rng.choice([301, 302, 303, 307, 308]), 'location': loc, 'cookies': [], 'mode': 'resp'},
                   {'status': 200, 'location': None, 'cookies': [], 'mode': 'resp', 'body': body, 'extra': [b'Content-Type: text/html']},
                   {'status': 200, 'mode': 'resp'}, {'status': 200, 'mode': 'resp'}]
        out.append({'stream': 'app', 'kind': 'referer', 'cookies': 'default', 'hosts': ['a.example'],
                    'url': rng.choice(['http://a.example/x', 'http://a.example/dir/start?q=1']), 'replies': replies, 'recursive': True})
    return out


# ------------------------------------------------------------------ entry points
def load_corpus(ctx, pid='C16'):
    import glob
    import json
    import os
    out = []
    for p in sorted(glob.glob(os.path.join(ctx.verif, 'harness', 'corpus', pid, '*.json'))):
        with open(p) as f:
            out.append(unjson(json.load(f)))
    return out


def replay(ctx, case, kind=None, where=None):
    s = case.get('stream')
    if s == 'prep':
        stream_prep(ctx, [(case['url'], case['method'], case['version'], [tuple(p) for p in case['pairs']], case['full'])])
    elif s == 'prep2':
        stream_prep2(ctx, [(case['url'], case['method'], case['version'], [tuple(p) for p in case['pairs']], case['full1'], case['full2'])])
    elif s == 'session':
        check_session_case(ctx, case)
    elif s == 'referer':
        stream_referer(ctx, [case])
    elif s == 'app':
        check_app_case(ctx, case)
    elif s == 'cookiefile':
        stream_cookiefile(ctx, ctx.subrng('cookiefile-replay'), 60)
    elif s in ('title', 'auth', 'hostport'):
        stream_small(ctx, ctx.subrng('replay'), 50)
    else:
        raise Infra('unknown replay stream %r' % s)


def zone_id_probe(ctx):
    k, _ = rc.parse_url('http://[fe80::1%25a b]/x')
    k2, _ = rc.parse_url('http://[fe80::1%a b]/x')
    ctx.note('ipv6_zone_id_urls', 'rejected by URLInfo.parse (C10/C11 repair present)' if (k, k2) == ('invalid', 'invalid')
             else 'ACCEPTED by this tree: white space can reach hostname/url (the request-shape / url-char-class oracles report it)')
    return (k, k2) == ('invalid', 'invalid')


def run(ctx):
    for case in load_corpus(ctx):
        replay(ctx, case['case'] if 'case' in case else case)
    rng = ctx.rng
    zone_id_probe(ctx)
    cases = []
    for _ in range(ctx.scale(3000, 90000)):
        hostile = rng.random() < 0.3
        method = rng.choice(['GET', 'GET', 'GET', 'POST', 'HEAD', '']) if rng.random() < 0.9 else rc.gen_value(rng, True)
        version = 'HTTP/1.1' if rng.random() < 0.9 else rng.choice(['HTTP/1.0', '', 'X'])
        cases.append((rc.gen_url(rng), method, version, gen_pairs(rng, hostile), rng.random() < 0.4))
    fixed = ['http://h/%0d%0a?%0d%0a', 'http://u%0d%0a:p%0d@h/', 'http://h/a b?c d#e', 'http://[::1]:8080/', 'https://h:443/', 'http://h:443/',
             'https://h:80/', 'http://bücher.example/ü?ü', 'http://h/\x7f\x80\x85', 'http://h/?a=b c+d%20e']
    fixed += ['http://%s%s/x?q' % (h, p) for h in rc.HOSTS_IPV6_ODD for p in ('', ':8080')]
    fixed += ['http://files%scdn.test/x' % chr(c) for c in rc.NFKC_FORBIDDEN[::3]] + ['http://a%sb.example:8080/' % chr(c) for c in rc.NFKC_LATIN1]
    for u in fixed:
        for full in (False, True):
            cases.append((u, 'GET', 'HTTP/1.1', [('User-Agent', 'x')], full))
    stream_prep(ctx, cases)
    p2rng = ctx.subrng('prep2')
    stream_prep2(ctx, [(rc.gen_url(p2rng), 'GET', 'HTTP/1.1', gen_pairs(p2rng, False), p2rng.random() < 0.5, p2rng.random() < 0.5)
                       for _ in range(ctx.scale(800, 20000))]
                 + [(u, 'GET', 'HTTP/1.1', [('User-Agent', 'x')], f1, f2) for u in fixed[:6] for f1 in (False, True) for f2 in (False, True)])
    stream_small(ctx, ctx.subrng('small'), ctx.scale(300, 6000))
    srng = ctx.subrng('session')
    for _ in range(ctx.scale(600, 18000)):
        check_session_case(ctx, gen_chain_case(srng))
    stream_cookiefile(ctx, ctx.subrng('cookiefile'), ctx.scale(150, 4000))
    arng = ctx.subrng('app')
    for case in gen_app_cases(arng, ctx.scale(24, 400), ctx.scale(36, 400), ctx.scale(16, 300), ctx.scale(16, 300), ctx.scale(8, 120)):
        check_app_case(ctx, case)
    prng = ctx.subrng('session-proxy')
    for _ in range(ctx.scale(250, 6000)):
        check_session_case(ctx, gen_chain_case(prng, proxy=True))
    ctx.exhaustive = False


def search(ctx):
    rng = ctx.subrng('search')
    for _ in range(ctx.scale(100, 400)):
        c = gen_chain_case(rng)
        for r in c['replies']:
            if r.get('status') in (301, 302, 303):
                r['status'] = rng.choice([307, 308])
        check_session_case(ctx, c)
    cases = [(rc.gen_url(rng), 'GET', 'HTTP/1.1', gen_pairs(rng, False), rng.random() < 0.5) for _ in range(ctx.scale(500, 2000))]
    stream_prep(ctx, cases)
