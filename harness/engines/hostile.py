"""Generators of hostile server traffic for C09: grammar-aware mutations of valid
HTTP responses / documents / FTP replies and listings, plus raw random bytes."""
import gzip
import zlib


def rbytes(rng, n):
    return bytes(rng.randrange(256) for _ in range(n))


def mutate(rng, data, k=None):
    b = bytearray(data)
    for _ in range(k or rng.randint(1, 4)):
        op = rng.random()
        if not b:
            b += rbytes(rng, rng.randint(1, 8))
        elif op < 0.3:
            b[rng.randrange(len(b))] = rng.choice(b'\r\n\x00\xff:; ,=-0123456789aAzZ%<>"\'&#/\\[]{}()\x7f\x80\xc3\xe9')
        elif op < 0.5:
            i = rng.randrange(len(b))
            del b[i:i + rng.randint(1, 6)]
        elif op < 0.7:
            i = rng.randrange(len(b))
            b[i:i] = rng.choice([b'\r\n', b'\n', b'\r', b'\x00', b' ', b'\t', b':', b'%', b'\xff\xfe', b'9' * 30, b'-1', b'0x', b'\xed\xa0\x80'])
        elif op < 0.85:
            i = rng.randrange(len(b))
            j = rng.randrange(len(b))
            b[i:i] = b[j:j + rng.randint(1, 12)]
        else:
            b = b[:rng.randrange(len(b) + 1)]
    return bytes(b)


# ------------------------------------------------------------------ documents
# a server names the charset: every codec name the interpreter knows is a possible value, including the
# bytes-to-bytes and str-to-str transforms (hex, zlib, rot13 ...) that str/bytes refuse with LookupError
NONTEXT_CODECS = ['hex', 'hex_codec', 'base64', 'base_64', 'zlib', 'zip', 'bz2', 'uu', 'quopri', 'quoted-printable', 'rot13', 'rot_13']
ODD_CODECS = ['idna', 'punycode', 'unicode_escape', 'raw_unicode_escape', 'undefined', 'mbcs', 'oem', 'utf-7', 'utf-32', 'utf-16-be',
              'utf-8-sig', 'cp65001', 'charmap', 'ascii', 'shift_jis', 'iso2022_jp', 'hz', 'big5', 'cp037']


def charset(rng):
    r = rng.random()
    if r < 0.3:
        return rng.choice(['utf-8', 'latin-1', 'utf-16', 'UTF-8', 'iso-8859-1'])
    if r < 0.55:
        return rng.choice(NONTEXT_CODECS)
    if r < 0.8:
        return rng.choice(ODD_CODECS)
    return rng.choice(['bogus', 'x' * 300, '\x00', '', '"', 'utf-8;', ' hex ', 'HEX', 'Zlib'])


# references whose host holds a character that turns into / ? # @ : under NFKC: the standard library's URL splitting
# refuses them with ValueError (while they look like perfectly likely links), written raw and as script escapes
NFKC_REFS = ['http://cdn\uff0fexample.com/x.js', '//a\uff03b/x', 'http://a\u2100b/', 'http://a\uff20b/', 'http://a\uff1ab/y.png', 'http://a\uff1fb',
             '//cdn\u2488a.test/lib.js', 'https://x\ufe13y/z.css']
NFKC_ESCAPED = [r.encode('unicode_escape').decode('ascii') for r in NFKC_REFS]


WALKER_ATTRS = ['codebase', 'archive', 'classid', 'code', 'data', 'type', 'src', 'href', 'rel', 'valuetype', 'value', 'name', 'property',
                'content', 'http-equiv', 'style', 'srcset', 'onclick', 'action', 'background', 'lowsrc', 'usemap', 'longdesc', 'cite', 'profile']
WALKER_VALUES = ['type', 'data', 'href', 'src', 'codebase', 'foo', 'html', 'css', 'javascript', 'media', 'sitemap', 'file', 'directory', 'ref', 'REF',
                 'stylesheet', 'icon', 'shortcut icon', 'og:image', 'og:url', 'twitter:image', 'refresh', '0; url=/r', '/x', 'x.swf', 'a.jar b.jar  c.jar',
                 'http://a.test/cb/', 'http://[', '', ' ', 'clsid:D27CDB6E', 'java:Applet.class', "location='/oc.html'", 'background:url(/st.png)',
                 '/s1.png 1x, /s2.png 2x', '\x00', 'text/html', 'application/x-shockwave-flash']


def html_doc(rng, links):
    attrs = ['href', 'src', 'data', 'action', 'background', 'style', 'srcset', 'content']
    parts = ['<html><head>']
    if rng.random() < 0.3:
        parts.append('<meta http-equiv="refresh" content="%s">' % rng.choice(['0; url=/r', '5;url=', 'x', '1; URL=http://[', '\x00', "0; url='/target", "0;url='", '0; url=&quot;/t', '0; url=&quot;',
                                                                                '0; url=&quot;/a b/&quot;; x=1', "0; URL= '/s' "]))
    if rng.random() < 0.3:
        parts.append('<base href="%s">' % rng.choice(['/', 'http://[::1', 'http://a.test/b/', '\udcff', 'javascript:1', '']))
    if rng.random() < 0.3:
        parts.append('<meta charset="%s">' % charset(rng))
    if rng.random() < 0.3:
        parts.append('<style>a { background: url(%s) } @import "%s";</style>' % (rng.choice(["'/c1.png'", '/c2.png', 'http://[', '"\\', '\\0']), rng.choice(['/i.css', 'x:', ''])))
    if rng.random() < 0.3:
        parts.append('<script>var u = "%s"; location = \'/js%d.html\';</script>' % (rng.choice(['http://a.test/js1', '\\u0000', 'http:\\/\\/a.test\\/esc', '%zz'] + NFKC_REFS[:2] + NFKC_ESCAPED[:2]), rng.randint(0, 3)))
    parts.append('</head><body>')
    for l in links:
        parts.append('<a href="%s">x</a>' % l)
    for _ in range(rng.randint(0, 6)):
        tag = rng.choice(['a', 'img', 'link', 'script', 'iframe', 'form', 'object', 'body', 'div', 'input', 'area', 'embed', 'frame'])
        attr = rng.choice(attrs)
        val = rng.choice(['/x', 'http://[', 'http://a.test:99999/', 'http://a.test:-1/', 'http://%zz/', '//', '#', '?', 'mailto:x',
                          'javascript:alert(1)', 'http://a.test/' + 'a' * 3000, '\\', 'http://a.test/\x00', 'http://a.test/%0D%0A',
                          'ftp://a.test/%2e%2e/', 'http://ä.test/', 'http://xn--/', 'http://a..b/', 'http://[::1]:80:80/', 'data:,x',
                          'http://user:pa:ss@a.test/', 'http://a.test/?q=\udc80', ' /sp ', '/a b', 'http:///x', 'url(', '1x, 2x', '/s1.png 1x, /s2.png 2x'] + NFKC_REFS)
        parts.append('<%s %s="%s">' % (tag, attr, val))
    for _ in range(rng.randint(0, 3)):
        # elements with SEVERAL attributes, over every attribute name the element walker reads, with values that are
        # URLs, names of other attributes, link-type names and junk: the handlers that combine attributes
        # (object/applet codebase+archive+data, param valuetype+value, link rel+href, meta property+content)
        tag = rng.choice(['object', 'applet', 'embed', 'param', 'link', 'meta', 'a', 'img', 'script', 'form', 'iframe', 'table', 'input'])
        names = rng.sample(WALKER_ATTRS, rng.randint(1, 4))
        if tag in ('object', 'applet', 'embed') and rng.random() < 0.6:
            names = list(dict.fromkeys(['codebase'] + names))
        # a third of the values name another attribute of the same element (a handler that looks an attribute up by
        # a VALUE instead of by a name finds something)
        vals = [rng.choice(names) if rng.random() < 0.33 else rng.choice(WALKER_VALUES) for _ in names]
        parts.append('<%s %s>' % (tag, ' '.join('%s="%s"' % (a, v) for a, v in zip(names, vals))))
    parts.append('</body></html>')
    doc = ''.join(parts)
    enc = rng.choice(['utf-8', 'utf-8', 'latin-1', 'utf-16', 'surrogatepass'])
    try:
        if enc == 'surrogatepass':
            data = doc.encode('utf-8', 'surrogatepass')
        else:
            data = doc.encode(enc, 'replace')
    except Exception:
        data = doc.encode('utf-8', 'replace')
    if rng.random() < 0.4:
        data = mutate(rng, data)
    return data


def css_doc(rng):
    d = ('@charset "%s"; @import url(%s); a { background: url("%s") } b{b:url(%s)}' % (
        charset(rng), rng.choice(['/i.css', "'x'", 'http://[', '']),
        rng.choice(['/bg.png', '\\', 'http://a.test:x/', '\\000041'] + NFKC_REFS), rng.choice(['/q.png', ')', '("']))).encode('utf-8', 'replace')
    return mutate(rng, d) if rng.random() < 0.5 else d


def js_doc(rng):
    d = ('var a = "%s"; var b = \'%s\'; x("/j%d.html"); //%s\n' % (
        rng.choice(['http://a.test/j1', 'http:\\/\\/a.test\\/j2', '\\u00', '\\x', '/' * 50] + NFKC_REFS + NFKC_ESCAPED),
        rng.choice(['/j3.png', '\\', 'http://[', '%'] + NFKC_REFS[:3] + NFKC_ESCAPED[:3]), rng.randint(0, 3), rng.choice(['', '\x00', '\udcff']))).encode('utf-8', 'surrogatepass')
    return mutate(rng, d) if rng.random() < 0.5 else d


def sitemap_doc(rng):
    d = ('<?xml version="1.0" encoding="%s"?><urlset xmlns="http://www.sitemaps.org/schemas/sitemap/0.9">'
         '<url><loc>%s</loc></url><url><loc>%s</loc></url></urlset>' % (
             charset(rng), rng.choice(['http://a.test/s1', 'http://[', '', '&bad;', '\x00'] + NFKC_REFS[:3]),
             rng.choice(['/s2', 'http://a.test/s3', ']]>']))).encode('utf-8', 'replace')
    r = rng.random()
    if r < 0.3:
        d = mutate(rng, d)
    elif r < 0.45:
        d = gzip.compress(d)
        if rng.random() < 0.5:
            d = mutate(rng, d)
    return d


def robots_doc(rng):
    if rng.random() < 0.5:
        d = ('User-agent: %s\nDisallow: %s\nAllow: %s\nCrawl-delay: %s\nSitemap: %s\n' % (
            rng.choice(['*', 'wpull', '', '\xff']), rng.choice(['/', '/p*$', '%', '%zz', '*' * 50, '\x00', '[']),
            rng.choice(['/', '', '$', '**$$']), rng.choice(['1', 'x', '1e999', '-']), rng.choice(['http://a.test/sitemap.xml', 'http://[', '']))).encode('latin-1', 'replace')
    else:
        # records as the grammar allows them: any number of agent lines followed by ANY subset of the other lines
        # (a record with no rule at all, only a delay, only a sitemap; agent lines with nothing behind them)
        recs = []
        for _ in range(rng.randint(1, 4)):
            lines = ['User-agent: %s' % rng.choice(['*', 'wpull', 'Wpull', 'otherbot', '', '\xff']) for _ in range(rng.randint(0, 2))]
            pool = ['Disallow: %s' % rng.choice(['/', '', '/p', '/p*$', '*']), 'Allow: %s' % rng.choice(['/', '', '/page', '$']),
                    'Crawl-delay: %s' % rng.choice(['10', '1', '0.5', 'x', '1e999', '-1', '']), 'Sitemap: %s' % rng.choice(['http://a.test/s.xml', 'http://[', '']),
                    'Host: a.test', 'Request-rate: 1/5', 'Visit-time: 0600-0845', '# comment', 'Noindex: /x']
            lines += rng.sample(pool, rng.randint(0, 3))
            recs.append('\n'.join(lines))
        d = (rng.choice(['', '\ufeff', '\xef\xbb\xbf']) + rng.choice(['\n\n', '\n', '\r\n\r\n', '\r']).join(recs) + rng.choice(['', '\n'])).encode('latin-1', 'replace')
    r = rng.random()
    if r < 0.3:
        d = mutate(rng, d)
    elif r < 0.4:
        d = rbytes(rng, rng.randint(0, 200))
    return d


# ------------------------------------------------------------------ HTTP responses
def http_response(rng, body=None, ctype=None, location=None):
    """A (mostly) well-formed response, then mutated.  Returns (bytes, close_after)."""
    if body is None:
        body = rbytes(rng, rng.choice([0, 1, 10, 100]))
    status = rng.choice([200, 200, 200, 200, 404, 500, 301, 302, 307, 401, 204, 304, 100, 206, 999, 0])
    if rng.random() < 0.04:
        # a code of any length is a number to whatever reads it with \d+ (the table column holds 64 bits)
        status = rng.choice(['9223372036854775808', '9223372036854775807', '99999999999999999999', '200000000000000000000000000000000000', '1000', '0200', '00000000000000000000200', '2147483648', '4294967296', '٢٠٠'])
    reason = rng.choice(['OK', '', 'Not Found', '\xe9\xe8', 'x' * 100])
    nl = rng.choice(['\r\n', '\r\n', '\r\n', '\n'])
    hdrs = []
    if ctype is None:
        ctype = rng.choice(['text/html', 'text/html; charset=utf-8', 'text/html; charset=bogus', 'text/css', 'application/javascript',
                            'application/xml', 'text/plain', 'image/png', '', 'text/html; charset="', 'a/b; charset=utf-16', '\xff/\xfe',
                            'text/html; charset=' + charset(rng), 'text/css; charset=' + charset(rng), 'text/xml; charset=' + charset(rng)])
    if ctype != '':
        hdrs.append(('Content-Type', ctype))
    if location is not None or status in (301, 302, 307):
        hdrs.append(('Location', location if location is not None else rng.choice(
            ['/next', 'http://[', '', NFKC_REFS[0], NFKC_REFS[1], 'http://a.test:99999/', 'http://a.test:65536/x', '//a.test:65536/x', 'http://a.test:65535/x', 'http://a.test:0/x', 'http://a.test:00080/x', '//', '\xff', 'http://a.test/%', 'x' * 5000, '/a\r\n b', 'http://a.test/\udc80'.encode('utf-8', 'surrogatepass').decode('latin-1')])))
    coding = rng.choice([None, None, None, 'gzip', 'deflate', 'x-gzip', 'bogus', 'gzip, deflate'])
    payload = body
    if coding in ('gzip', 'x-gzip', 'gzip, deflate'):
        payload = gzip.compress(body)
    elif coding == 'deflate':
        payload = zlib.compress(body) if rng.random() < 0.5 else zlib.compress(body)[2:-4]
    if coding:
        hdrs.append(('Content-Encoding', coding))
        if rng.random() < 0.3:
            payload = mutate(rng, payload)
        elif rng.random() < 0.2:
            payload = payload[:rng.randrange(len(payload) + 1)]
    if status == 206 or rng.random() < 0.05:
        hdrs.append(('Content-Range', rng.choice(['bytes 0-4/0', 'bytes 0-4/5', 'bytes 5-1/3', 'bytes */0', 'bytes 0-0/x', 'items 0-4/0', 'bytes 0-99999999999999999999/1', ''])))
    framing = rng.choice(['length', 'length', 'chunked', 'close', 'both', 'both', 'none'])
    close = False
    wire_body = payload
    if framing in ('length', 'both'):
        cl = rng.choice([str(len(payload))] * 6 + ['-1', 'x', '', '1e3', str(len(payload) + 5), str(max(0, len(payload) - 3)), '9' * 30, '0x10', ' 5 ', '+5', '５',
                                                   '\xb2', '1\xb2', '\xb9\xb2\xb3', '1' * 4400, '0' * 5000 + '5', '1_0', '١٢', '\xbc', '0', '0', '00', '1'])   # isdigit()/isdecimal()/int() disagree on these
        hdrs.append(('Content-Length', cl))
    if framing in ('chunked', 'both'):
        hdrs.append(('Transfer-Encoding', rng.choice(['chunked', 'chunked', 'Chunked', 'gzip, chunked', 'identity'])))
        chunks = []
        data = payload
        while data:
            n = rng.randint(1, max(1, len(data)))
            size = rng.choice(['%x' % n] * 6 + ['%X;ext=1' % n, '0%x' % n, ' %x' % n, '-%x' % n, 'zz', '', '%x' % (n + 3), 'f' * 20, '0x%x' % n])
            chunks.append(size.encode() + b'\r\n' + data[:n] + rng.choice([b'\r\n'] * 6 + [b'\n', b'', b'xx']))
            data = data[n:]
        trailer = rng.choice([b'', b'', b'X-T: 1\r\n', b'garbage\r\n', b'\xff\r\n', b'a' * 40000 + b'\r\n', b' X-T: 1\r\n',
                              b'\tfolded-first\r\n', b'a' * 70000 + b'\r\n', b'X-A: 1\r\n b\r\n'])
        wire_body = b''.join(chunks) + rng.choice([b'0\r\n', b'0\r\n', b'0;x\r\n', b'', b'00000\r\n']) + trailer + rng.choice([b'\r\n', b'\r\n', b''])
    if framing in ('close', 'none'):
        close = True
    for _ in range(rng.randint(0, 3)):
        hdrs.append(rng.choice([('Set-Cookie', rng.choice(['a=b', 'a=b; Domain=.test; Path=/; Expires=garbage', '=', '\xff=\xfe', 'a=' + 'b' * 5000, 'a=b; Max-Age=x'])),
                                ('Refresh', rng.choice(['0; url=/refresh', 'x', '5', '0;url=http://[', '0;url=' + NFKC_REFS[1], '0; url="/target', "0;url='/x", '0; url="', "3; URL='",
                                                        '0; url="/a b/"; x=1', '0; url=', ';', '0; url = "/q" ', '-1; url=/neg', '1e9;url=/big', '0;url="\'/m\'"'])),
                                ('Connection', rng.choice(['close', 'keep-alive', 'x'])), ('X-Fold', 'a\r\n b'), ('Link', '</l>; rel=x'),
                                ('Last-Modified', rng.choice(['garbage', 'Mon, 01 Jan 2001 00:00:00 GMT', '99999999999',
                                                              # dates that PARSE, with a field no calendar holds
                                                              'Wed, 01 Jan 2020 00:00:99999999999999999999 GMT', 'Wed, 01 Jan 2020 00:99999999999999999999:00 GMT',
                                                              'Wed, 99999999999999999999 Jan 2020 00:00:00 GMT', 'Wed, 01 Jan 99999999999999999999 00:00:00 GMT',
                                                              'Wed, 01 Jan 0000 00:00:00 GMT', 'Wed, 01 Jan 1601 00:00:00 -9999', 'Thu, 31 Dec 9999 23:59:59 GMT',
                                                              'Wed, 31 Feb 2020 25:61:61 GMT', '01 Jan 70 00:00:00 +2400', 'Wed, 01 Jan 2020 00:00:00 +' + '9' * 30])),
                                ('Content-Disposition', rng.choice(['attachment; filename="../../x"', 'attachment; filename=', 'x'])),
                                ('WWW-Authenticate', 'Basic realm="x"'), ('', 'empty-name'), ('No-Colon-Here', None),
                                # names outside ASCII: the record normalises names with str.title(), which maps some
                                # latin-1 letters outside latin-1 (0xB5 -> U+039C, 0xFF -> U+0178) and some to two letters
                                ('X-\xb5s-Elapsed', '12'), ('\xff-Name', 'v'), ('X-stra\xdfe', 'v'), ('\xb5', ''), ('x-\xaa\xba', 'v'),
                                ('X-Caf\xe9', '\xe9\xff\xb5'), ('\xdf', '\xdf')]))
    version = rng.choice(['HTTP/1.1'] * 6 + ['HTTP/1.0', 'HTTP/2', 'HTTP', 'ICY', '', 'HTTP/1.1 '])
    line = '%s %s %s' % (version, status, reason) if rng.random() < 0.9 else rng.choice(['', 'garbage', 'HTTP/1.1', 'HTTP/1.1 abc OK', 'HTTP/1.1 -1 OK', '\x00\x01'])
    head = line + nl
    if rng.random() < 0.06:
        head += rng.choice([' ', '\t', '  '])        # the first field line is a "continuation" of nothing
    for k, v in hdrs:
        head += (k + nl) if v is None else ('%s: %s%s' % (k, v, nl))
    head += nl
    raw = head.encode('latin-1', 'replace') + wire_body
    r = rng.random()
    if r < 0.25:
        raw = mutate(rng, raw)
    elif r < 0.32:
        raw = raw[:rng.randrange(len(raw) + 1)]
        close = True
    elif r < 0.36:
        raw = rbytes(rng, rng.randint(0, 300))
        close = rng.random() < 0.7
    elif r < 0.38:
        raw = b'HTTP/1.1 200 OK\r\n' + b'X: ' + b'a' * 70000 + b'\r\n\r\n'
    elif r < 0.40:
        raw = b'HTTP/1.1 200 OK\r\n' + b''.join(b'H%d: v\r\n' % i for i in range(5000)) + b'\r\n'
    if rng.random() < 0.08:
        # interim responses in front of the answer: one, a few, or a run far longer than any stack is deep (each block is
        # tiny, so no per-block limit applies)
        code, phrase = rng.choice([(100, b' Continue'), (102, b' Processing'), (103, b' Early Hints'), (100, b''), (101, b' Switching Protocols'), (199, b' x')])
        e = rng.choice([b'\r\n', b'\r\n', b'\n'])
        block = b'HTTP/1.1 %d%s' % (code, phrase) + e + (b'Link: </s.css>; rel=preload' + e if code == 103 and rng.random() < 0.5 else b'') + e
        raw = block * rng.choice([1, 2, 5, 400, 1500, 6000]) + raw
    if rng.random() < 0.3:
        close = True
    return raw, close


# ------------------------------------------------------------------ FTP
def ftp_reply(rng, code, text='ok'):
    r = rng.random()
    if r < 0.80:
        return b'%d %s\r\n' % (code, text.encode())
    if r < 0.86:
        return b'%d-%s\r\n more\r\n%d end\r\n' % (code, text.encode(), code)
    if r < 0.91:
        return mutate(rng, b'%d %s\r\n' % (code, text.encode()))
    if r < 0.93:
        return b'%d a\r%d b\n' % (code, code)
    if r < 0.95:
        return rbytes(rng, rng.randint(0, 40)) + b'\n'
    if r < 0.97:
        return b'%d ' % code + b'a' * 70000 + b'\r\n'
    if r < 0.985:
        return b''
    return b'%d %s' % (code, text.encode())


def ftp_pasv(rng):
    return rng.choice(['Entering Passive Mode (10,0,0,1,7,228)'] * 5 + ['(10,0,0,1,7)', 'nothing', '(999,999,999,999,999,999)', '(1,2,3,4,5,6',
                                                                       '(10,0,0,1,７,228)', '(10,0,0,1,999,999)', '(0,0,0,0,0,0)'])


MSDOS_LINES = ['01-01-20  12:00AM       <DIR>          win', '01-01-20  12:00PM  123 f.txt', '01-01-20', '01-01-20  12:00AM',
               '01-01-20  12:00AM  <DIR>', '12', '13-45-99  99:99XM  x y', '02-30-20  12:00AM  1 feb30', '12-12-2020  1:1AM <DIR>',
               '01-01-20  12:00AM  x name', '10-10-10 10:10PM 5 a b c', '01-01-20  12:00AM  99999999999999999999 big']
UNIX_LINES = ['-rw-r--r-- 1 u g 3 Jan 01 2020 a.txt', 'drwxr-xr-x 2 u g 4096 Jan 01 00:00 d', 'lrwxrwxrwx 1 u g 1 Jan 1 2020 l -> t',
              '-rw-r--r-- 1 u g', 'total 5', '-rw-r--r-- 1 u g x Feb 30 2020 bad', '-rw-r--r-- 1 u g 3 Jan 01 99999 y', '-', 'd',
              '-rw-r--r-- 1 u g 3 Foo 01 2020 m', '-rw-r--r--', '-rw-r--r-- 1 u g 3 Jan', 'drwxr-xr-x 2 u g 4096 Jan 01 00:00']


# entry names a server may hold: bytes that are not UTF-8 (arrive as lone surrogates), URL-special characters,
# path tricks, control characters
ODD_NAMES = ['caf\udce9.txt', '\udcff\udcfe', 'na\udcefve dir', 'issue #1?.txt', '100%.txt', '%2e%2e', 'a b', 'a\tb', '..', '.', '/etc/passwd', 'x/../y',
             'a;type=i', 'sp ace ', '\u202e', 'x' * 300, '-> y', 'a\x7f', '\x01']
WELL_FORMED = {'unix': ['-rw-r--r-- 1 u g 3 Jan 01 2020 %s', 'drwxr-xr-x 2 u g 4096 Jan 01 00:00 %s', 'lrwxrwxrwx 1 u g 1 Jan 1 2020 %s -> t'],
               'msdos': ['01-01-20  12:00PM  123 %s', '01-01-20  12:00AM       <DIR>          %s'],
               'mlsd': ['type=file;size=3;modify=20200101000000; %s', 'type=dir; %s', 'Type=file; %s']}


def odd_entry(rng, style):
    return rng.choice(WELL_FORMED[style]) % rng.choice(ODD_NAMES)


def ftp_listing(rng, mlsd):
    lines = []
    if rng.random() < 0.25:
        # a perfectly well-formed listing whose only oddity is in the entry names
        style = 'mlsd' if mlsd else rng.choice(['unix', 'msdos'])
        lines = [odd_entry(rng, style) for _ in range(rng.randint(1, 4))] + [rng.choice(WELL_FORMED[style]) % 'plain.txt']
        rng.shuffle(lines)
        return ('\r\n'.join(lines) + '\r\n').encode('utf-8', 'surrogateescape')
    style = rng.choice(['mixed', 'msdos', 'unix', 'msdos', 'unix'])
    if not mlsd and style != 'mixed':
        # a listing in ONE style (that is what makes the parser choose that style), short lines included
        pool = MSDOS_LINES if style == 'msdos' else UNIX_LINES
        lines = [rng.choice(pool) for _ in range(rng.randint(1, 4))]
        data = ('\r\n'.join(lines) + '\r\n').encode('utf-8', 'surrogateescape')
        return mutate(rng, data) if rng.random() < 0.15 else data
    for _ in range(rng.randint(0, 5)):
        if mlsd:
            lines.append(rng.choice(['type=file;size=3;modify=20200101000000; a.txt', 'type=dir; d', 'Type=cdir;Modify=garbage; .', 'size=x; f',
                                     'modify=99999999999999; g', ' nofacts', 'type=file', ';;;; x', 'type=OS.unix=slink:/foo; l', 'modify=20201301000000; badmonth',
                                     'modify=2020010100000; short', 'size=; e', 'type=file;size=３; z']))
        else:
            lines.append(rng.choice(['-rw-r--r-- 1 u g 3 Jan 01 2020 a.txt', 'drwxr-xr-x 2 u g 4096 Jan 01 00:00 d', 'lrwxrwxrwx 1 u g 1 Jan 1 2020 l -> t',
                                     '01-01-20  12:00AM       <DIR>          win', '01-01-20  12:00PM  123 f.txt', '01-01-20', '13-45-99  99:99XM  x y',
                                     '-rw-r--r-- 1 u g', 'total 5', '', '-rw-r--r-- 1 u g x Feb 30 2020 bad', '-rw-r--r-- 1 u g 3 Jan 01 99999 y',
                                     'just-a-name', '-rw-r--r-- 1 u g 3 Foo 01 2020 m', '02-30-20  12:00AM  1 feb30', '12-12-2020  1:1AM <DIR>', '\xff\xfe']))
    data = ('\r\n'.join(lines) + ('\r\n' if lines else '')).encode('utf-8', 'surrogateescape')
    r = rng.random()
    if r < 0.3:
        data = mutate(rng, data)
    elif r < 0.35:
        data = rbytes(rng, rng.randint(0, 100))
    return data
