"""C15 — Downloaded files are always written inside the download directory.

Streams (model `Wpull.Path` vs the real code in the wpull checkout):
  safe      wpull.path.safe_filename(name, **cfg)                      function level
  name      PathNamer(**cfg).get_filename(URLInfo.parse(raw))          raw parts, sanitised components, path
  rawname   PathNamer.get_filename on arbitrary (non-canonical) url strings (correspondence only)
  unquote   urllib.parse.unquote            (mirrored library function)
  split     urllib.parse.urlsplit + .hostname + .port   (mirrored library function)
  join      posixpath.join / posixpath.dirname          (mirrored library functions)
  cd        BaseFileWriterSession._rename_with_content_disposition on a real Response
  history   sequences of safe_filename / PathNamer.get_filename (ftp) / Content-Disposition rename calls
            with DIFFERENT restriction settings in one process, each sequence from a freshly executed
            wpull.path (empty module-level caches): every ordered pair of (os_type, nocontrol, ascii)
            through each entry point, pairs differing in case / max_length, random interleavings.
            Oracle per call against the settings of THAT call; correspondence per call with the pure
            model (= the result does not depend on what was called before).
  argv      the file writer built from a real command line (AppArgumentParser -> Builder factory ->
            FileWriterSetupTask._build_file_writer): every subset / order of --restrict-file-names modes, the
            option absent, repeated; x --content-disposition, -nd/-x/-nH/--cut-dirs/-P/-E/...; hostile FTP
            names, URL paths and Content-Disposition values through the writer session (open_file
            intercepted); containment oracle against the user's option list; correspondence of the
            option glue with the model (`optionsToCfg`, `useDirOf`).
  namers    2-3 PathNamer objects (+ a writer session each) with different restrictions built first and kept
            alive in one process, then used alternately (part / ftp get_filename / Content-Disposition rename):
            each is judged and compared with the model under ITS OWN options.
  (all)     the root logger level (WARNING / INFO / DEBUG, a rendering handler attached) is a dimension of every
            stream's configuration; the argv stream runs the real LoggingSetupTask (-d, -v, --warc-file).
  urlcache  oracle only: wpull.url.percent_encode with never-seen encode sets in random order vs its definition
  writer    oracle only: the four real file-writer sessions in a scratch directory
            (existing files / directories in the way, hostile Content-Disposition,
            --adjust-extension): the file that would be opened lies inside the prefix.
Direct oracle (independent of the model) on every real path: it starts with the
directory prefix, every component below it is a non-empty name other than "." and
"..", without "/", without C0 controls unless nocontrol, and
os.path.relpath(path, prefix) is exactly those components.
"""
import hashlib
import os
import posixpath
import re
import shutil
import tempfile
import types
import urllib.parse

import compat  # noqa: F401
from runner import enc, Infra

RULE = ('name: raw URLs assembled from scheme x userinfo x host x port x 0-5 path segments x query, segments drawn '
        'from a hostile alphabet (percent-encoded / . .. NUL backslash CR LF, invalid and truncated UTF-8 escapes, '
        'very long names, non-ASCII, the compatibility characters whose NFKC/NFKD/casefold forms contain . / \\ : (computed from '
        'the interpreter: U+2024 U+2025 U+2026 U+FF0E U+FF0F U+FF3C U+FE52 U+FE68 ... raw and percent-encoded), '
        'trailing dot/space, Windows-reserved characters), canonicalised by the real '
        'URLInfo.parse, x every combination of os_type x nocontrol x ascii x case x max_length{None,0,1,7,8,9,16,40,255,-3} '
        'x use_dir x cut{None,0..3,10} x protocol x hostname x root; safe/cd: names from the same alphabet; '
        'Content-Disposition values from a header grammar with hostile names; history: call sequences with different '
        'restriction settings in one process from a fresh wpull.path (all ordered pairs of os x nocontrol x ascii through '
        'safe_filename / ftp get_filename / Content-Disposition rename, random interleavings), the safe stream is shuffled; argv: real command lines over all 63 subsets of --restrict-file-names modes + absent + repeated x '
        'directory options x --content-disposition, random option mixes. non-trivial = the case reaches the '
        'sanitiser with a non-empty name; distinct by (input, configuration)')
TRUSTED = ['importlib.reload(wpull.path / wpull.url) gives the module-level state of a new process (history / urlcache streams)',
           'urllib.parse.urlsplit/.hostname/.port, urllib.parse.unquote, posixpath.join/dirname are mirrored '
           '(differential streams split, unquote, join)',
           'the two regular expressions of parse_content_disposition are not modelled: their match groups are logged '
           'from the real run (wpull.path.re proxy) and passed to the model; the theorems hold for every value',
           'hashlib.sha1().hexdigest() is 40 lower-case hex digits (checked on every logged digest)',
           'ipaddress / NFKC verdicts inside urlsplit are parameters (Ext); the theorems hold for both values']
ASSUMPTIONS = ['a PathNamer constructed directly gets os_type "unix" or "windows"; for any other value "/" is not escaped '
               '(theorem other_os_not_contained).  For the namer the application builds from argv this is proved '
               '(options_os_known over the model of FileWriterSetupTask, tied by the argv stream)',
               'the index name (--default-page) is not empty',
               'str.lower()/str.upper() map a non-ASCII code point to a non-empty string of non-ASCII code points '
               'and ASCII letters (checked exhaustively over all 0x110000 code points on every run, for str.lower/upper and '
               'through the real safe_filename per single character: BMP + compatibility characters quick, all code points thorough); strings whose '
               'lowering is context dependent (final sigma) are excluded from the correspondence, not from the oracle',
               '"control character" is read as the C0 range 0..31 (what the code and DESIGN.md test); DEL and the '
               'C1 range are not escaped when ascii is off',
               'the url handed to get_filename begins with "<scheme>://" (URLInfo.url of a network scheme)']
UNPROVED = ['totality of PathNamer.get_filename on canonical URLs (a path is chosen for EVERY URL) is checked by the oracle only '
            '(kind namer-raises): every exception before a name is chosen is a VIOLATION']

PID = 'C15'


# ------------------------------------------------------------------ real-code access
class _HashProxy:
    """stands in for the `hashlib` module inside wpull.path; logs hexdigests"""

    def __init__(self):
        self.log = []

    def sha1(self, data=b''):
        h = hashlib.sha1(data)
        self.log.append(h.hexdigest())
        return h

    def __getattr__(self, k):
        return getattr(hashlib, k)


class _ReProxy:
    """stands in for the `re` module inside wpull.path; logs match groups"""

    def __init__(self):
        self.log = []

    def search(self, pat, text, flags=0):
        m = re.search(pat, text, flags)
        self.log.append(('search', None if m is None else m.group(1)))
        return m

    def match(self, pat, text, flags=0):
        m = re.match(pat, text, flags)
        self.log.append(('match', None if m is None else m.group(2)))
        return m

    def __getattr__(self, k):
        return getattr(re, k)


class Real:
    """the wpull modules under test, with the logging proxies installed"""
    _inst = None

    def __init__(self, ctx):
        import sys
        if ctx.repo not in sys.path:
            sys.path.insert(0, ctx.repo)
        import wpull.path as wp
        import wpull.url as wu
        import wpull.writer as ww
        if not os.path.abspath(wp.__file__).startswith(os.path.abspath(ctx.repo)):
            raise Infra('wpull imported from %s, not from %s' % (wp.__file__, ctx.repo))
        self.wp, self.wu, self.ww = wp, wu, ww
        self.hash = _HashProxy()
        self.re = _ReProxy()
        self.calls = []
        self.settings = []      # distinct safe_filename settings used since the module was last executed, in order
        self._settings_seen = set()
        self._install()

    def note_settings(self, kw):
        key = tuple(sorted(kw.items(), key=str))
        if key not in self._settings_seen:
            self._settings_seen.add(key)
            self.settings.append(dict(kw))

    def prior(self, n=None):
        """what a replay has to do first to bring wpull.path into the same state"""
        return [dict(k) for k in (self.settings if n is None else self.settings[:n])]

    def fresh_url(self):
        """wpull.url as a new process would see it (module-level caches empty)"""
        import importlib
        importlib.reload(self.wu)

    def warm(self, prior):
        self.fresh()
        for kw in prior:
            for name in ('warm', 'w\x00/é'):
                try:
                    self.wp.safe_filename(name, **kw)
                except Exception:
                    pass

    def _install(self):
        wp = self.wp
        wp.hashlib = self.hash
        wp.re = self.re
        self.orig_safe = wp.safe_filename

        def logged_safe(filename, **kw):
            self.note_settings(kw)
            n0 = len(self.hash.log)
            rec = {'in': filename, 'digest': None, 'out': None, 'exc': None}
            self.calls.append(rec)
            try:
                rec['out'] = self.orig_safe(filename, **kw)
                return rec['out']
            except Exception as e:
                rec['exc'] = exc_name(e)
                raise
            finally:
                if len(self.hash.log) > n0:
                    rec['digest'] = self.hash.log[-1]
        wp.safe_filename = logged_safe

    def fresh(self):
        """wpull.path as a new process would see it: the module body is executed again, so every
        module-level cache (`_encoder_cache`, ...) starts empty; the proxies are put back."""
        import importlib
        importlib.reload(self.wp)
        del self.settings[:]
        self._settings_seen.clear()
        self._install()

    @classmethod
    def get(cls, ctx):
        if cls._inst is None:
            cls._inst = Real(ctx)
        return cls._inst


def exc_name(e):
    for cls, name in ((UnicodeEncodeError, 'UnicodeEncodeError'), (UnicodeDecodeError, 'UnicodeDecodeError'),
                      (AssertionError, 'AssertionError'), (IndexError, 'IndexError'), (TypeError, 'TypeError'),
                      (ValueError, 'ValueError')):
        if isinstance(e, cls):
            return name
    return type(e).__name__


# ------------------------------------------------------------------ the logging level as a dimension
import logging as _logging


class _SinkHandler(_logging.Handler):
    """a handler that renders every record (so lazily built log arguments are evaluated) and drops it"""

    def emit(self, record):
        try:
            record.getMessage()
        except Exception:
            pass


_SINK = _SinkHandler()
LOG_LEVELS = [_logging.WARNING, _logging.WARNING, _logging.INFO, _logging.DEBUG]


def set_level(level):
    """what --debug / --warc-file / an embedding program do to the process: root logger level + a handler"""
    root = _logging.getLogger()
    if _SINK not in root.handlers:
        root.addHandler(_SINK)
    root.setLevel(level or _logging.WARNING)


# ------------------------------------------------------------------ configurations
OS_TYPES = ['unix', 'windows']
CASES = [None, 'lower', 'upper']
MAXLENS = [None, None, 0, 1, 7, 8, 9, 16, 40, 255, -3]
CUTS = [None, 0, 1, 2, 3, 10]
ROOTS = ['dl', '.', '', 'a/b', '/abs/r', 'dl/', 'dl//', './x', '..', 'r 1']
INDEXES = ['index.html', 'index.html', 'index.html', 'i', '', '..', 'a/b', '.', 'Ünï', 'x.']


def gen_safe_cfg(rng, other=False):
    os_type = rng.choice(OS_TYPES)
    if other and rng.random() < 0.04:
        os_type = rng.choice(['bsd', '', 'Unix'])
    return {'os_type': os_type, 'no_control': rng.random() < 0.6, 'ascii_only': rng.random() < 0.5,
            'case': rng.choice(CASES), 'max_length': rng.choice(MAXLENS), 'log_level': rng.choice(LOG_LEVELS)}


def gen_namer_cfg(rng, other=False):
    c = gen_safe_cfg(rng, other)
    c.update({'root': rng.choice(ROOTS), 'index': rng.choice(INDEXES), 'use_dir': rng.random() < 0.75,
              'cut': rng.choice(CUTS), 'protocol': rng.random() < 0.5, 'hostname': rng.random() < 0.6})
    return c


def all_safe_cfgs():
    for os_type in OS_TYPES:
        for nc in (True, False):
            for ao in (True, False):
                for case in CASES:
                    for ml in (None, 8, 16, 255):
                        yield {'os_type': os_type, 'no_control': nc, 'ascii_only': ao, 'case': case, 'max_length': ml}


def safe_kw(cfg):
    return {'os_type': cfg['os_type'], 'no_control': cfg['no_control'], 'ascii_only': cfg['ascii_only'],
            'case': cfg['case'], 'max_length': cfg['max_length']}


def os_tok(os_type):
    return os_type if os_type in ('unix', 'windows') else 'other'


def safe_toks(cfg):
    return '%s %s %s %s %d' % (os_tok(cfg['os_type']), 'T' if cfg['no_control'] else 'F',
                               'T' if cfg['ascii_only'] else 'F', cfg['case'] or 'none', cfg['max_length'] or 0)


def namer_toks(cfg):
    return '%s %s %s %s %d %s %s' % (safe_toks(cfg), enc(cfg['root']), enc(cfg['index']),
                                     'T' if cfg['use_dir'] else 'F', max(0, cfg['cut'] or 0),
                                     'T' if cfg['protocol'] else 'F', 'T' if cfg['hostname'] else 'F')


def make_namer(real, cfg):
    return real.wp.PathNamer(cfg['root'], index=cfg['index'], use_dir=cfg['use_dir'], cut=cfg['cut'],
                             protocol=cfg['protocol'], hostname=cfg['hostname'], os_type=cfg['os_type'],
                             no_control=cfg['no_control'], ascii_only=cfg['ascii_only'], case=cfg['case'],
                             max_filename_length=cfg['max_length'])


# ------------------------------------------------------------------ parameters passed to the model
def fold_table(case, strings):
    """(token, context_dependent): per-code-point case images of the non-ASCII characters"""
    if case is None:
        return '~', False
    f = str.lower if case == 'lower' else str.upper
    chars = sorted({c for s in strings if s is not None for c in s if ord(c) >= 128})
    # Python's only context-dependent case mapping: U+03A3 lowers to final sigma after a cased letter
    # (the context is the *encoded* name, so the test is on the character alone)
    ctx_dep = case == 'lower' and any(s is not None and '\u03a3' in s for s in strings)
    if not chars:
        return '~', ctx_dep
    return '/'.join(enc([ord(c)] + [ord(x) for x in f(c)]) for c in chars), ctx_dep


def check_digest(d):
    if d is not None and not re.fullmatch(r'[0-9a-f]{40}', d):
        raise Infra('sha1 hexdigest %r is not 40 lower-case hex digits' % (d,))


def digest_tok(d):
    return '-' if d is None else enc(d)


def ext_of(url):
    """verdicts of the library checks inside urlsplit that the model does not contain"""
    bracket_ok, netloc_ok = True, True
    try:
        urllib.parse.urlsplit(url)
    except ValueError as e:
        msg = str(e)
        if 'NFKC' in msg:
            netloc_ok = False
        elif 'Invalid IPv6 URL' not in msg:
            bracket_ok = False
    return ('T' if bracket_ok else 'F') + ('T' if netloc_ok else 'F')


def check_case_tables():
    """ASSUMPTIONS[2]: exhaustive over all code points"""
    ok = set(range(65, 91)) | set(range(97, 123))
    for c in range(128, 0x110000):
        ch = chr(c)
        for img in (ch.lower(), ch.upper()):
            if not img or any(ord(x) < 128 and ord(x) not in ok for x in img):
                raise Infra('case mapping of U+%04X is %r: hypothesis of the fold theorems does not hold' % (c, img))


# ------------------------------------------------------------------ the direct oracle
WINCHARS = '\\|/:?"*<>'


def component_problem(comp, cfg):
    if comp == '':
        return 'empty component'
    if comp in ('.', '..'):
        return 'dot name %r' % comp
    if '/' in comp:
        return 'separator inside %r' % comp
    if cfg['no_control'] and any(ord(c) < 32 for c in comp):
        return 'control character inside %r' % comp
    return None


def containment_problem(path, root, cfg):
    """None, or why `path` is not a file below `root`"""
    prefix = root if (root == '' or root.endswith('/')) else root + '/'
    if not path.startswith(prefix):
        return 'path %r does not start with the prefix %r' % (path, prefix)
    rel = path[len(prefix):]
    comps = rel.split('/')
    for comp in comps:
        p = component_problem(comp, cfg)
        if p:
            return '%s in %r' % (p, path)
    if '\x00' not in path:
        if os.path.relpath(path, root or os.curdir) != rel:
            return 'normalised %r is not %r below %r' % (os.path.normpath(path), rel, root)
    return None


def oracle_applies(cfg):
    return cfg['os_type'] in ('unix', 'windows') and cfg.get('index', 'x') != ''


# ------------------------------------------------------------------ generators
def _compat_chars():
    """Every code point whose compatibility decomposition (of itself or of its case-folded form) contains
    one of . / \\ : or a C0 control: a normalisation or folding step placed AFTER the sanitiser would turn
    them into dot names or separators.  Computed from the interpreter's tables (42 code points in Unicode 15)."""
    import unicodedata
    danger = set('./\\:') | {chr(i) for i in range(32)}
    out = []
    for c in range(128, 0x110000):
        if 0xD800 <= c <= 0xDFFF:
            continue
        ch = chr(c)
        forms = unicodedata.normalize('NFKD', ch) + unicodedata.normalize('NFKD', ch.casefold())
        if danger.intersection(forms):
            out.append((ch, unicodedata.normalize('NFKD', ch)))
    return out


COMPAT = _compat_chars()
COMPAT_DOTS = [ch for ch, f in COMPAT if f and set(f) == {'.'}]            # map to ".", "..", "..."
COMPAT_SEPS = [ch for ch, f in COMPAT if '/' in f or '\\' in f]
LOOKALIKE = ['\u2215', '\u2044', '\u29f8', '\u2216', '\uff61', '\u3002', '\u0589', '\ua789']   # not mapped by NFKC, still hostile-looking
COMPAT_NAMES = ([ch for ch, _ in COMPAT] + LOOKALIKE
                + [a + b for a in COMPAT_DOTS for b in COMPAT_DOTS]
                + [a + '.' for a in COMPAT_DOTS] + ['.' + a for a in COMPAT_DOTS]
                + [d + sep + d + sep + 'etc' + sep + 'passwd' for d in COMPAT_DOTS[:3] for sep in COMPAT_SEPS]
                + ['x' + sep + '..' + sep + 'y' for sep in COMPAT_SEPS] + [sep + 'etc' for sep in COMPAT_SEPS]
                + [d.upper() + 'A' for d in COMPAT_DOTS[:2]] + ['\ufb01le', '\uff21\uff0e\uff22', '\u2100\u2105'])


def gen_compat_name(rng):
    r = rng.random()
    if r < 0.6:
        return rng.choice(COMPAT_NAMES)
    return ''.join(rng.choice([rng.choice(COMPAT)[0], rng.choice(COMPAT_DOTS), rng.choice(COMPAT_SEPS), 'a', 'Z', '.', 'é'])
                   for _ in range(rng.choice([1, 2, 3, 5])))


FORMAT_NAMES = ['{0}', '{0:c}', 'report{0:c}.txt', '..{0!s:.0}', '.{0!s:.0}', '{0!s:.0}', '{}', '{x}', '{0.__class__}', '{0:>300}',
                '{{', '}', '{', '{0}{0}', '%s', '%(x)s', '%d', '%', '%(', '${x}', '$x', '\\1', '\\g<0>', 'a{0:c}b{1}']
DEVICE_NAMES = ['CON', 'con', 'PRN', 'aux', 'AUX', 'NUL', 'nul', 'COM1', 'com9', 'LPT1', 'lpt9', 'Con', 'CONIN$', 'COM0']
DEVICE_SUFFIXES = ['', '.txt', '.php', '.%2F..%2F..%2Fx', '.a%2Fb', '.x%00y', '.tar.gz ', '.', ' ', '.%5C..%5Cx', '.x:y', '.\u2025']
DEVICE_SEGS = [d + x for d in DEVICE_NAMES for x in DEVICE_SUFFIXES]
TILDE_SEGS = ['~', '~root', '~nobody', '~daemon', '~%s' % (os.environ.get('USER') or 'root'), '~/', '~+', '~-', '%7E', '%7Eroot']
SEGS = FORMAT_NAMES + DEVICE_SEGS[::5] + TILDE_SEGS + ['a', 'b.txt', 'index.html', 'Dir', 'IMG.PNG', '%2F', '%2f', '%2E', '%2e%2e', '%2E%2E', '.', '..', '...',
        '%2E.', '.%2E', '%00', 'a%00b', '%5C', '\\', '%5c..%5c', '..%2F..%2Fetc%2Fpasswd', '%2Fetc%2Fpasswd',
        '..%5C..%5Cx', '%2F%2F', 'é', '日本', '%C3%A9', '%FF', '%E0%80', '%ED%A0%80', '%F0%9F%98%80', '%F0%90',
        '%C3', '%', '%4', '%zz', '%%41', '%25', '%252F', '%252E%252E', ' ', '%20', 'a%20', 'a.', 'a ', 'a%2E',
        'CON', 'a:b', 'a*b', 'a|b', 'a"b', '<x>', 'a;type=i', 'a+b', '~u', '%0A', '%0D%0A', '%09', '%1F', '%7F',
        '%C2%85', '%C2%A0', 'Σ', 'ΑΣ', '%CE%A3', 'İ', 'ß', 'ŉ', 'ǰ', 'ﬁ', 'K', '%E2%84%AA', '.listing', '.f', 'x.d',
        'A' * 300, 'é' * 120, '%2F' * 90, '.' * 260, 'a' * 7, 'a' * 8, 'a' * 9, 'ab%2Fcdefg', '%2E%2E' + 'x' * 3,
        '@', 'a@b', '[', ']', '[x]', 'a=b', 'a&b', '$', "'", '(', ')', ',', '!', '{}', '^', '`', '\x7f', '\x85',
        '\xa0', '\u2028', '\u3000', '\U0001F600', '\ufffd', '\u212a', '-', '_', '0']
SCHEMES = ['http', 'http', 'http', 'https', 'ftp', 'ftp', 'ftp', 'HTTP', 'Ftp', 'gopher', 'ws', 'wss']
USERINFO = ['', '', '', '', 'u@', 'u:p@', 'U%2F:p%40@', '[@', ']@', '[::1]@', '[x]@', 'a%5Cb@', ':p@', 'é@', '%00@',
            'u:p:q@', '%2E%2E@', 'a b@']
HOSTS = ['example.com', 'example.com', 'EXAMPLE.com', 'h', 'localhost', '127.0.0.1', '0x7f.1', '[::1]', '[2001:DB8::1]',
         'bücher.de', 'xn--bcher-kva.de', 'a.b.c.d.e', 'h.', '..', '.', 'a..b', '%2E%2E', 'h%2F', '[fe80::1%25eth0]',
         '[fe80::1%eth0]', 'ex_ample', 'Σ.gr', '1.2.3', 'a' * 63 + '.com', '[::ffff:1.2.3.4]', '日本.jp', '-']
GOOD_HOSTS = ['example.com', 'EXAMPLE.com', 'h', 'localhost', '127.0.0.1', '[::1]', '[2001:DB8::1]', 'bücher.de',
              'xn--bcher-kva.de', 'a.b.c.d.e', 'h.', 'ex_ample', '1.2.3', '日本.jp', 'a' * 63 + '.com']
PORTS = ['', '', '', '', ':80', ':8080', ':21', ':443', ':0', ':65535', ':65536', ':', ':08080', ':x', ':-1']
QUERIES = ['?next=/../../x', '?{0:c}', '?a={0!s:.0}/..', '?%s', '', '', '', '?', '?a=b', '?x=/', '?../..', '?a=%2F&b=..', '?q=é', '?a b', '?/', '?%00', '?a=b/', '?.', '?..',
           '?a#frag', '?' + 'q' * 300, '?a=\\', '?%2E%2E%2F']


def gen_seg(rng):
    if rng.random() < 0.08:
        return rng.choice(DEVICE_SEGS)
    if rng.random() < 0.12:
        name = gen_compat_name(rng)
        return name if rng.random() < 0.4 else urllib.parse.quote(name, safe='')
    r = rng.random()
    if r < 0.7:
        return rng.choice(SEGS)
    if r < 0.85:
        return rng.choice(SEGS) + rng.choice(SEGS)
    n = rng.choice([1, 2, 3, 5, 12])
    out = []
    for _ in range(n):
        q = rng.random()
        if q < 0.35:
            out.append('%%%02X' % rng.randrange(256))
        elif q < 0.45:
            out.append('%%%02x' % rng.choice([0x2f, 0x2e, 0x5c, 0, 0x25, 0x20, 0x0a, 0x80, 0xc0, 0xe0, 0xf0, 0xbf]))
        elif q < 0.8:
            out.append(rng.choice('abcXYZ._-~ %/\\.:*?'))
        elif q < 0.9:
            out.append(chr(rng.randrange(0x80, 0x800)))
        else:
            out.append(chr(rng.choice([rng.randrange(0x800, 0xd800), rng.randrange(0xe000, 0x10000),
                                       rng.randrange(0x10000, 0x110000)])))
    return ''.join(out)


def gen_raw_url(rng):
    scheme = rng.choice(SCHEMES)
    k = rng.choice([0, 1, 1, 2, 2, 3, 4, 5])
    segs = [gen_seg(rng) for _ in range(k)]
    path = '/' + '/'.join(segs) if segs else rng.choice(['', '/'])
    if rng.random() < 0.3:
        path += '/'
    if rng.random() < 0.08:
        path = path.replace('/', '//', 1)
    sep = '://' if rng.random() < 0.97 else rng.choice([':', ':/', ':///'])
    if rng.random() < 0.8:      # mostly an authority that URLInfo.parse accepts
        auth = rng.choice(USERINFO[:8]) + rng.choice(GOOD_HOSTS) + rng.choice(PORTS[:10])
    else:
        auth = rng.choice(USERINFO) + rng.choice(HOSTS) + rng.choice(PORTS)
    return scheme + sep + auth + path + rng.choice(QUERIES)


def gen_name(rng):
    if rng.random() < 0.08:
        return urllib.parse.unquote(rng.choice(DEVICE_SEGS)) + rng.choice(['', '/../../x', '\\..\\x', '\x01'])
    if rng.random() < 0.12:
        return gen_compat_name(rng)
    r = rng.random()
    if r < 0.5:
        s = urllib.parse.unquote(gen_seg(rng))
    elif r < 0.8:
        s = gen_seg(rng)
    else:
        s = ''.join(rng.choice(['/', '.', '\\', '\x00', ' ', 'a', 'Z', 'é', '%', ':', '\n', '\x1f', '\x7f', '\x9f',
                                '\udc80', 'Σ', 'ß', '日']) for _ in range(rng.choice([0, 1, 2, 3, 9, 20])))
    if rng.random() < 0.03:
        s += '\ud800'
    return s


def gen_header(rng):
    name = gen_name(rng).replace('\r', '').replace('\n', '')
    name = ''.join(c if ord(c) < 256 else '?' for c in name)
    r = rng.random()
    if r < 0.3:
        v = 'attachment; filename=%s' % name
    elif r < 0.55:
        v = 'attachment; filename="%s"' % name.replace('"', '\\"')
    elif r < 0.65:
        v = "attachment; filename='%s'" % name
    elif r < 0.72:
        v = 'attachment; FileName = %s ; size=3' % name
    elif r < 0.78:
        v = 'inline; filename="%s' % name
    elif r < 0.84:
        v = 'attachment; filename*=UTF-8\'\'%s; filename="%s"' % (urllib.parse.quote(name, safe=''), name)
    elif r < 0.9:
        v = rng.choice(['', 'attachment', 'filename=', 'filename=""', 'filename=";', 'filename=;', 'filename= ;x',
                        'filename="\\"', "filename=''", 'filename=\'"', 'filename=  \t', 'filename="a"b"'])
    else:
        v = 'attachment; filename=%s; filename=%s' % (rng.choice(['../x', '/etc/passwd', '..', '.', 'a/../../b']), name)
    return v


# ------------------------------------------------------------------ stream: safe
def stream_safe(ctx, real, cases):
    """cases: list of (cfg, name)"""
    reqs, meta = [], []
    for cfg, name in cases:
        real.hash.log.clear()
        set_level(cfg.get('log_level'))
        n_prior = len(real.settings)
        real.note_settings(safe_kw(cfg))
        try:
            out, exc = real.orig_safe(name, **safe_kw(cfg)), None
        except Exception as e:
            out, exc = None, exc_name(e)
        digest = real.hash.log[-1] if real.hash.log else None
        check_digest(digest)
        tbl, ctxdep = fold_table(cfg['case'], [name])
        reqs.append('path safe %s %s %s %s' % (safe_toks(cfg), tbl, digest_tok(digest), enc(name)))
        meta.append((cfg, name, out, exc, ctxdep, n_prior))
    replies = ctx.model.ask(reqs)
    for (cfg, name, out, exc, ctxdep, n_prior), rep in zip(meta, replies):
        realtok = ('ok ' + enc(out)) if exc is None else ('exc ' + exc)
        tags = ['safe:' + (exc or 'ok'), 'safe:os=' + os_tok(cfg['os_type'])]
        if ctxdep:
            tags.append('safe:context-dependent-case(skipped)')
        ctx.case(('safe', tuple(sorted(cfg.items(), key=str)), name), nontrivial=bool(name), tags=tags)
        case = {'stream': 'safe', 'cfg': cfg, 'name': name}
        if realtok != rep and not ctxdep:
            ctx.disagree('safe', case, rep, realtok)
        if exc is not None and not any(0xD800 <= ord(c) <= 0xDFFF for c in name):
            # a path has to be CHOSEN for every name that is text; only a lone surrogate may be refused
            ctx.fail('namer-raises', 'safe_filename', dict(case, prior_settings=real.prior(n_prior)),
                     'safe_filename(%r, %s) raises %s' % (name, safe_kw(cfg), exc))
        if exc is None and oracle_applies(cfg) and name != '':
            p = component_problem(out, cfg)
            if p is None and cfg['os_type'] == 'windows' and any(c in WINCHARS for c in out):
                p = 'Windows-reserved character in %r' % out
            if p:
                ctx.fail('unsafe-component', 'safe_filename', dict(case, prior_settings=real.prior(n_prior)), p)
    if cases:
        ctx.sample({'stream': 'safe', 'cfg': cases[0][0], 'name': cases[0][1]})


# ------------------------------------------------------------------ stream: name
def real_get_filename(real, cfg, url_info):
    del real.calls[:]
    real.hash.log.clear()
    set_level(cfg.get('log_level'))
    try:
        namer = make_namer(real, cfg)
        return namer.get_filename(url_info), None
    except Exception as e:
        return None, exc_name(e)


def name_request(real, cfg, url, is_ftp):
    """the driver request for the call that was just made (uses real.calls)"""
    calls = list(real.calls)
    for c in calls:
        check_digest(c['digest'])
    tbl, ctxdep = fold_table(cfg['case'], [c['in'] for c in calls])
    digests = '/'.join(digest_tok(c['digest']) for c in calls) if calls else '~'
    req = 'path name %s %s %s %s %s %s' % (namer_toks(cfg), tbl, ext_of(url), 'T' if is_ftp else 'F', digests, enc(url))
    return req, calls, ctxdep


def lists_tok(xs):
    return '~' if not xs else '/'.join(enc(x) for x in xs)


def stream_name(ctx, real, cases, stream='name'):
    """cases: list of (cfg, raw_url) for 'name'; (cfg, url, scheme) for 'rawname'"""
    reqs, meta = [], []
    for case in cases:
        cfg = case[0]
        if stream == 'name':
            raw = case[1]
            try:
                ui = real.wu.URLInfo.parse(raw)
                url = ui.url
                is_ftp = ui.scheme == 'ftp'
            except Exception as e:
                ctx.case((stream, raw), nontrivial=False, tags=['name:unparseable'])
                continue
            if ui.scheme not in ('http', 'https', 'ftp'):
                # not a scheme any fetcher handles; url is the raw string
                ctx.tag('name:other-scheme')
        else:
            url, scheme = case[1], case[2]
            raw = url
            ui = types.SimpleNamespace(url=url, scheme=scheme)
            is_ftp = scheme == 'ftp'
        n_prior = len(real.settings)
        path, exc = real_get_filename(real, cfg, ui)
        req, calls, ctxdep = name_request(real, cfg, url, is_ftp)
        reqs.append(req)
        meta.append((cfg, raw, url, ui.scheme, path, exc, calls, ctxdep, n_prior))
    replies = ctx.model.ask(reqs)
    for (cfg, raw, url, scheme, path, exc, calls, ctxdep, n_prior), rep in zip(meta, replies):
        ins = [c['in'] for c in calls]
        outs = [c['out'] for c in calls if c['exc'] is None]
        case = {'stream': stream, 'cfg': cfg, 'raw': raw, 'url': url, 'scheme': scheme}
        tags = ['%s:%s' % (stream, exc or 'ok'), '%s:scheme=%s' % (stream, scheme), '%s:os=%s' % (stream, os_tok(cfg['os_type']))]
        if any(c['digest'] for c in calls):
            tags.append(stream + ':truncated')
        if ctxdep:
            tags.append(stream + ':context-dependent-case(skipped)')
        ctx.case((stream, tuple(sorted(cfg.items(), key=str)), url, scheme), tags=tags)
        if exc is None:
            realtok = 'ok %s %s %s' % (enc(path), lists_tok(outs), lists_tok(ins))
        else:
            # the model reports the raw parts it built; the real run logged only those that reached safe_filename
            realtok = 'exc ' + exc
            rep = ' '.join(rep.split(' ')[:2])
        if realtok != rep and not ctxdep:
            ctx.disagree(stream, case, rep, realtok)
        if exc is not None and stream == 'name' and scheme in ('http', 'https', 'ftp'):
            # cause, not input: does the interpreter's urlsplit itself refuse URLInfo.url?
            where = 'get_filename'
            try:
                urllib.parse.urlsplit(url)
            except ValueError as e:
                where = 'urlsplit'
                exc = '%s (%s)' % (exc, e)
            ctx.fail('namer-raises', where, dict(case, prior_settings=real.prior(n_prior)),
                     'get_filename(%r) raises %s: no local path is chosen for a URL that parses' % (url, exc))
        if exc is None and stream == 'name' and oracle_applies(cfg) and scheme in ('http', 'https', 'ftp'):
            p = containment_problem(path, cfg['root'], cfg)
            if p:
                ctx.fail('escapes-prefix', 'get_filename', dict(case, prior_settings=real.prior(n_prior)), p)
    if meta:
        ctx.sample({'stream': stream, 'cfg': meta[0][0], 'raw': meta[0][1], 'url': meta[0][2]})


# ------------------------------------------------------------------ streams: unquote / split / join
def stream_unquote(ctx, strings):
    replies = ctx.model.ask(['path unquote ' + enc(s) for s in strings])
    for s, rep in zip(strings, replies):
        realtok = enc(urllib.parse.unquote(s))
        ctx.case(('unquote', s), nontrivial='%' in s, tags=['unquote'])
        if realtok != rep:
            ctx.disagree('unquote', {'stream': 'unquote', 's': s}, rep, realtok)
        if s and not urllib.parse.unquote(s):
            raise Infra('urllib.parse.unquote(%r) is empty' % s)


def real_split(url):
    try:
        sp = urllib.parse.urlsplit(url)
    except ValueError:
        return 'exc ValueError'
    try:
        port = sp.port
        port = 'None' if port is None else str(port)
    except ValueError:
        port = 'ValueError'
    h = sp.hostname
    return 'ok %s %s %s %s %s %s' % (enc(sp.scheme), enc(sp.netloc), enc(sp.path), enc(sp.query),
                                    'None' if h is None else '=' + enc(h), port)


def stream_split(ctx, urls):
    replies = ctx.model.ask(['path split %s %s' % (ext_of(u), enc(u)) for u in urls])
    for u, rep in zip(urls, replies):
        realtok = real_split(u)
        ctx.case(('split', u), tags=['split:' + realtok.split(' ')[0]])
        if realtok != rep:
            ctx.disagree('split', {'stream': 'split', 'url': u}, rep, realtok)


def stream_join(ctx, cases):
    """cases: (root, parts)"""
    reqs = []
    for root, parts in cases:
        reqs.append('path join %s %s' % (enc(root), lists_tok(parts)))
        reqs.append('path dirname ' + enc(posixpath.join(root, *parts)))
    replies = ctx.model.ask(reqs)
    for i, (root, parts) in enumerate(cases):
        joined = posixpath.join(root, *parts)
        ctx.case(('join', root, tuple(parts)), tags=['join'])
        if enc(joined) != replies[2 * i]:
            ctx.disagree('join', {'stream': 'join', 'root': root, 'parts': parts}, replies[2 * i], enc(joined))
        if enc(posixpath.dirname(joined)) != replies[2 * i + 1]:
            ctx.disagree('dirname', {'stream': 'join', 'root': root, 'parts': parts}, replies[2 * i + 1],
                         enc(posixpath.dirname(joined)))


# ------------------------------------------------------------------ stream: cd
def make_response(real, url, header, status=200, content_type=None):
    from wpull.protocol.http.request import Request, Response
    request = Request(url)
    response = Response(status, 'OK', request=request)
    if header is not None:
        response.fields['Content-Disposition'] = header
    if content_type:
        response.fields['Content-Type'] = content_type
    return request, response


def opt_tok(x):
    return 'None' if x is None else '=' + enc(x)


def stream_cd(ctx, real, cases):
    """cases: (safe cfg, current filename, url, header)"""
    reqs, meta = [], []
    for cfg, cur, url, header in cases:
        set_level(cfg.get('log_level'))
        ncfg = dict(cfg, root='dl', index='index.html', use_dir=True, cut=None, protocol=False, hostname=True)
        namer = make_namer(real, ncfg)
        session = real.ww.OverwriteFileWriterSession(namer, False, False, False, False, True, False)
        session._filename = cur
        try:
            request, response = make_response(real, url, header)
        except Exception:
            ctx.case(('cd', url), nontrivial=False, tags=['cd:unparseable'])
            continue
        seen = response.fields.get('Content-Disposition')
        n_prior = len(real.settings)
        del real.calls[:]
        del real.re.log[:]
        real.hash.log.clear()
        try:
            session._rename_with_content_disposition(response)
            out, exc = session._filename, None
        except Exception as e:
            out, exc = None, exc_name(e)
        m1 = next((g for k, g in real.re.log if k == 'search'), None)
        m2 = next((g for k, g in real.re.log if k == 'match'), None)
        digest = real.calls[0]['digest'] if real.calls else None
        check_digest(digest)
        tbl, ctxdep = fold_table(cfg['case'], [c['in'] for c in real.calls])
        is_http = request.url_info.scheme in ('http', 'https')
        reqs.append('path cd %s %s %s %s %s %s %s %s' % (safe_toks(cfg), tbl, digest_tok(digest), enc(cur or ''),
                                                     'T' if is_http else 'F', 'T' if seen else 'F',
                                                     opt_tok(m1), opt_tok(m2)))
        meta.append((cfg, cur, url, header, out, exc, ctxdep, [c['in'] for c in real.calls], n_prior))
    replies = ctx.model.ask(reqs)
    for (cfg, cur, url, header, out, exc, ctxdep, ins, n_prior), rep in zip(meta, replies):
        case = {'stream': 'cd', 'cfg': cfg, 'cur': cur, 'url': url, 'header': header}
        # the model also reports the extracted name; the real one is the logged input of safe_filename
        rep_head = ' '.join(rep.split(' ')[:2])
        realtok = ('ok ' + enc(out or '')) if exc is None else ('exc ' + exc)
        tags = ['cd:' + (exc or ('renamed' if out != cur else 'unchanged'))]
        ctx.case(('cd', tuple(sorted(cfg.items(), key=str)), cur, url, header), nontrivial=bool(header), tags=tags)
        if realtok != rep_head and not ctxdep:
            ctx.disagree('cd', case, rep, realtok)
        if ins and not ctxdep:
            mname = rep.split(' ')[2] if len(rep.split(' ')) > 2 else '?'
            if mname != '=' + enc(ins[0]):
                ctx.disagree('cd-name', case, mname, '=' + enc(ins[0]))
        if exc is not None:
            ctx.fail('namer-raises', 'content_disposition', dict(case, prior_settings=real.prior(n_prior)),
                     'the Content-Disposition rename raises %s' % exc)
        if exc is None and cur and out != cur and oracle_applies(cfg):
            d = posixpath.dirname(cur)
            comp = out[len(d):].lstrip('/') if out.startswith(d) else None
            p = 'new path %r is not below the directory %r of the old one' % (out, d) if comp is None else component_problem(comp, cfg)
            if p is None and posixpath.dirname(out) != d:
                p = 'directory changed from %r to %r' % (d, posixpath.dirname(out))
            if p:
                ctx.fail('escapes-prefix', 'content_disposition', dict(case, prior_settings=real.prior(n_prior)), p)
    if meta:
        ctx.sample({'stream': 'cd', 'cfg': meta[0][0], 'cur': meta[0][1], 'header': meta[0][3]})


# ------------------------------------------------------------------ oracle: writer sessions
WRITERS = ['OverwriteFileWriter', 'IgnoreFileWriter', 'AntiClobberFileWriter', 'TimestampingFileWriter']


def check_writer(ctx, real, scratch, case):
    """Run one real writer session below scratch/o/i/root; nothing may be opened outside."""
    cfg, raw, header, wname, flags, obstacles = (case['cfg'], case['raw'], case['header'], case['writer'],
                                                  case['flags'], case['obstacles'])
    root = os.path.join(scratch, 'o', 'i', 'root')
    shutil.rmtree(os.path.join(scratch, 'o'), ignore_errors=True)
    os.makedirs(root)
    ncfg = dict(cfg, root=root)
    key = ('writer', tuple(sorted(cfg.items(), key=str)), raw, header, wname, tuple(sorted(flags.items())), tuple(obstacles))
    try:
        request, response = make_response(real, raw, header, status=flags.get('status', 200),
                                          content_type=flags.get('ctype'))
    except Exception:
        ctx.case(key, nontrivial=False, tags=['writer:unparseable'])
        return
    scheme = request.url_info.scheme
    if scheme not in ('http', 'https'):
        ctx.case(key, nontrivial=False, tags=['writer:not-http'])
        return
    opened = []
    prior = real.prior()
    set_level(cfg.get('log_level'))
    try:
        namer = make_namer(real, ncfg)
        # things already on disk that the anti-clobber helpers react to
        first = namer.get_filename(request.url_info)
        for ob in obstacles:
            if containment_problem(first, root, ncfg) or '\x00' in first:
                break
            if ob == 'dir-at-file':
                os.makedirs(first, exist_ok=True)
            elif ob == 'file-at-file':
                os.makedirs(os.path.dirname(first), exist_ok=True)
                open(first, 'wb').close()
            elif ob == 'file-at-dir' and os.path.dirname(first) != root:
                d = os.path.dirname(first)
                top = os.path.join(root, os.path.relpath(d, root).split('/')[0])
                if not os.path.exists(top):
                    open(top, 'wb').close()
        writer = getattr(real.ww, wname)(namer, file_continuing=flags.get('cont', False),
                                         adjust_extension=flags.get('adjust', False),
                                         content_disposition=True, trust_server_names=flags.get('trust', False))
        session = writer.session()

        def open_file(filename, response, mode='wb+'):
            opened.append(filename)
        session.open_file = open_file
        session.process_request(request)
        chosen = session._filename
        session.process_response(response)
        final = session._filename
        outcome = 'ok'
    except Exception as e:
        outcome = 'OSError' if type(e).__name__ in ('ProtocolError', 'OSError', 'IOError') else exc_name(e)
        err = repr(e)
        chosen = final = getattr(locals().get('session'), '_filename', None)
        if chosen:
            ctx.tag('writer:raised-after-choice:' + outcome)
            outcome = 'OSError'
    ctx.case(key, tags=['writer:' + wname, 'writer:' + outcome] + ['writer:' + o for o in obstacles])
    if outcome not in ('ok', 'OSError'):        # OSError / ProtocolError: "Server not able to continue file download"
        ctx.fail('namer-raises', 'writer_session', dict(case, prior_settings=prior),
                 'the writer session raises %s: no local path is chosen' % err.replace(scratch, '<scratch>'))
        return
    if not oracle_applies(ncfg):
        return
    for what, path in [('chosen', chosen), ('final', final)] + [('opened', p) for p in opened]:
        if not path:
            continue
        p = containment_problem(path, root, ncfg)
        if p is None and not os.path.normpath(path).startswith(root + '/'):
            p = 'normalised %r is outside %r' % (os.path.normpath(path), root)
        if p:
            shown = dict(case, prior_settings=prior)
            ctx.fail('escapes-prefix', 'writer_session', shown, '%s filename: %s' % (what, p.replace(scratch, '<scratch>')))
            return


def gen_writer_case(rng):
    cfg = gen_namer_cfg(rng)
    del cfg['root']
    cfg['index'] = rng.choice(['index.html', 'i'])
    scheme = rng.choice(['http', 'https'])
    k = rng.choice([0, 1, 2, 3])
    path = '/' + '/'.join(gen_seg(rng) for _ in range(k)) + rng.choice(['', '/'])
    raw = scheme + '://' + rng.choice(['example.com', 'h:81', 'u:p@h', '[::1]']) + path + rng.choice(QUERIES)
    header = gen_header(rng) if rng.random() < 0.8 else None
    flags = {'adjust': rng.random() < 0.3, 'trust': rng.random() < 0.2, 'cont': rng.random() < 0.1,
             'status': rng.choice([200, 200, 200, 404, 302, 206]),
             'ctype': rng.choice([None, 'text/html', 'text/css'])}
    hot = any(ch in raw for ch in '{}%$')       # template look-alikes matter when a suffix has to be appended
    obstacles = [o for o in ('dir-at-file', 'file-at-file', 'file-at-dir') if rng.random() < (0.45 if hot else 0.2)]
    if 'dir-at-file' in obstacles and 'file-at-file' in obstacles:
        obstacles.remove('file-at-file')
    return {'stream': 'writer', 'cfg': cfg, 'raw': raw, 'header': header, 'writer': rng.choice(WRITERS),
            'flags': flags, 'obstacles': obstacles}


# ------------------------------------------------------------------ stream: history (order of use inside one process)
HIST_NAMES = ['con.a/../../x', 'NUL.\x00', 'aux.txt/b', 'lpt1./'] + COMPAT_NAMES[:12] + COMPAT_DOTS + COMPAT_SEPS + ['a\x00b', 'nl\nx', 'esc\x1b[31m.txt', 'tab\there', 'bell\x07', '\x1f', 'a/b', '../x', '/etc/passwd',
              'é\x01', 'A\\b:c', 'plain.txt', '..', '.', 'Ünï/\x0b', 'x' * 30 + '\x00/', '\x7f\x85']


def hist_step(real, call):
    """one use of the real code; returns the safe_filename invocations it made"""
    cfg, kind, name = call['cfg'], call['kind'], call['name']
    del real.calls[:]
    real.hash.log.clear()
    set_level(cfg.get('log_level'))
    try:
        if kind == 'safe':
            real.wp.safe_filename(name, **safe_kw(cfg))
        else:
            ncfg = dict(cfg, root='dl', index='index.html', use_dir=True, cut=None, protocol=False, hostname=True)
            namer = make_namer(real, ncfg)
            if kind == 'ftp':
                url = 'ftp://example.com/pub/' + urllib.parse.quote(name, safe='')
                call['_path'] = namer.get_filename(real.wu.URLInfo.parse(url))
            else:   # 'cd': the writer's Content-Disposition rename
                session = real.ww.OverwriteFileWriterSession(namer, False, False, False, False, True, False)
                session._filename = 'dl/example.com/a'
                hname = ''.join(c if ord(c) < 256 and c not in '\r\n' else '?' for c in name)
                request, response = make_response(real, 'http://example.com/a',
                                                  'attachment; filename=%s' % hname)
                session._rename_with_content_disposition(response)
    except Exception:
        pass
    return [dict(c) for c in real.calls]


def stream_history(ctx, real, sequences):
    """sequences: lists of calls {'cfg', 'kind', 'name'}; each sequence starts from a fresh wpull.path
    and its calls run in the given order in this process.  Oracle per call: the component satisfies the
    predicate of THIS call's configuration, whatever was used before.  Correspondence per call: the (pure)
    model, i.e. the result does not depend on the history."""
    reqs, meta = [], []
    for seq in sequences:
        real.fresh()
        failed = False
        for i, call in enumerate(seq):
            cfg = call['cfg']
            invs = hist_step(real, call)
            path = call.pop('_path', None)
            if path is not None and oracle_applies(cfg) and not failed:
                p = containment_problem(path, 'dl', cfg)
                if p:
                    failed = True
                    ctx.fail('escapes-prefix', 'history', {'stream': 'history', 'calls': seq[:i + 1]},
                             'call %d of the sequence (ftp name %r, log level %s): %s' % (i + 1, call['name'], cfg.get('log_level'), p))
            ctx.case(('history', i, tuple(sorted(cfg.items(), key=str)), call['kind'], call['name'],
                      tuple((tuple(sorted(c['cfg'].items(), key=str)), c['kind'], c['name']) for c in seq[:i])),
                     tags=['history:' + call['kind'], 'history:step%d' % min(i, 5)])
            for inv in invs:
                check_digest(inv['digest'])
                tbl, ctxdep = fold_table(cfg['case'], [inv['in']])
                realtok = ('ok ' + enc(inv['out'])) if inv['exc'] is None else ('exc ' + inv['exc'])
                reqs.append('path safe %s %s %s %s' % (safe_toks(cfg), tbl, digest_tok(inv['digest']), enc(inv['in'])))
                meta.append((seq[:i + 1], realtok, ctxdep))
                if inv['exc'] is None and inv['in'] != '' and oracle_applies(cfg) and not failed:
                    p = component_problem(inv['out'], cfg)
                    if p is None and cfg['os_type'] == 'windows' and any(c in WINCHARS for c in inv['out']):
                        p = 'Windows-reserved character in %r' % inv['out']
                    if p:
                        failed = True
                        ctx.fail('unsafe-component', 'history', {'stream': 'history', 'calls': seq[:i + 1]},
                                 'call %d of the sequence (%s, %r -> %r, restrictions of this call: %s): %s; '
                                 'the calls before it in the same process used other settings'
                                 % (i + 1, call['kind'], inv['in'], inv['out'], safe_kw(cfg), p))
    real.fresh()
    replies = ctx.model.ask(reqs)
    for (prefix, realtok, ctxdep), rep in zip(meta, replies):
        if realtok != rep and not ctxdep:
            ctx.disagree('history', {'stream': 'history', 'calls': prefix}, rep, realtok)
    if sequences:
        ctx.sample({'stream': 'history', 'calls': sequences[0]})


def history_sequences(rng, n_random):
    seqs = []
    combos = [{'os_type': o, 'no_control': nc, 'ascii_only': ao, 'case': None, 'max_length': None}
              for o in OS_TYPES for nc in (True, False) for ao in (True, False)]
    names = ['a\x00b', 'esc\x1b[31m.txt', 'nl\nx/é']
    # every ordered pair of (os_type, no_control, ascii_only), through each entry point
    for a in combos:
        for b in combos:
            if a is b:
                continue
            for kind in ('safe', 'ftp', 'cd'):
                seqs.append([{'cfg': a, 'kind': kind, 'name': n} for n in names]
                            + [{'cfg': b, 'kind': kind, 'name': n} for n in names])
    # pairs that differ only in case / max_length, both orders
    for a in combos:
        for change in ({'case': 'lower'}, {'case': 'upper'}, {'max_length': 8}):
            b = dict(a, **change)
            for x, y in ((a, b), (b, a)):
                seqs.append([{'cfg': x, 'kind': 'safe', 'name': 'A\x00/b' + 'c' * 12},
                             {'cfg': y, 'kind': 'safe', 'name': 'A\x00/b' + 'c' * 12}])
    # random interleavings of a few settings
    for _ in range(n_random):
        base = gen_safe_cfg(rng)
        pool = [base]
        for _ in range(rng.choice([1, 2, 3])):
            c = dict(rng.choice(pool))
            flag = rng.choice(['no_control', 'ascii_only', 'os_type', 'case', 'max_length'])
            if flag in ('no_control', 'ascii_only'):
                c[flag] = not c[flag]
            elif flag == 'os_type':
                c[flag] = 'windows' if c[flag] == 'unix' else 'unix'
            elif flag == 'case':
                c[flag] = rng.choice([x for x in CASES if x != c[flag]])
            else:
                c[flag] = rng.choice([x for x in (None, 8, 16, 255) if x != c[flag]])
            pool.append(c)
        seq = []
        for _ in range(rng.choice([2, 3, 4, 6, 10])):
            name = rng.choice(HIST_NAMES) if rng.random() < 0.7 else gen_name(rng)
            seq.append({'cfg': rng.choice(pool), 'kind': rng.choice(['safe', 'safe', 'ftp', 'cd']), 'name': name})
        seqs.append(seq)
    return seqs


# ------------------------------------------------------------------ stream: namers (several live namers in one process)
def stream_namers(ctx, real, scenarios):
    """scenarios: {'namers': [safe cfg, ...], 'calls': [{'nid', 'kind', 'name'}, ...]}.  From a fresh wpull.path ALL
    namers (and one writer session per namer) are constructed first, in the given order, and stay alive; then
    the calls go to them alternately.  Every result is judged against the options of the namer that was asked
    (oracle) and compared with the pure model under those options (correspondence): what one namer does must
    not depend on which other namers exist or were built later."""
    reqs, meta = [], []
    for sc in scenarios:
        real.fresh()
        cfgs = sc['namers']
        try:
            namers = [make_namer(real, dict(c, root='dl%d' % i, index='index.html', use_dir=True, cut=None,
                                            protocol=False, hostname=True)) for i, c in enumerate(cfgs)]
            sessions = [real.ww.OverwriteFileWriterSession(n, False, False, False, False, True, False) for n in namers]
        except Exception as e:
            raise Infra('cannot construct the namers of a scenario: %r' % e)
        failed = False
        for i, call in enumerate(sc['calls']):
            nid, kind, name = call['nid'], call['kind'], call['name']
            cfg = cfgs[nid]
            set_level(cfg.get('log_level'))
            del real.calls[:]
            real.hash.log.clear()
            path = None
            try:
                if kind == 'part':
                    namers[nid].safe_filename(name)
                elif kind == 'ftp':
                    path = namers[nid].get_filename(real.wu.URLInfo.parse(
                        'ftp://example.com/pub/' + urllib.parse.quote(name, safe='')))
                else:
                    sessions[nid]._filename = 'dl%d/example.com/a' % nid
                    hname = ''.join(c if ord(c) < 256 and c not in '\r\n' else '?' for c in name)
                    request, response = make_response(real, 'http://example.com/a', 'attachment; filename=%s' % hname)
                    sessions[nid]._rename_with_content_disposition(response)
                    path = sessions[nid]._filename
            except Exception:
                pass
            prefix = {'stream': 'namers', 'namers': cfgs, 'calls': sc['calls'][:i + 1]}
            ctx.case(('namers', repr(cfgs), i, repr(sc['calls'][:i + 1])), tags=['namers:' + kind, 'namers:n=%d' % len(cfgs)])
            for inv in [dict(c) for c in real.calls]:
                check_digest(inv['digest'])
                tbl, ctxdep = fold_table(cfg['case'], [inv['in']])
                realtok = ('ok ' + enc(inv['out'])) if inv['exc'] is None else ('exc ' + inv['exc'])
                reqs.append('path safe %s %s %s %s' % (safe_toks(cfg), tbl, digest_tok(inv['digest']), enc(inv['in'])))
                meta.append((prefix, realtok, ctxdep))
                if inv['exc'] is None and inv['in'] != '' and not failed:
                    p = component_problem(inv['out'], cfg)
                    if p is None and cfg['os_type'] == 'windows' and any(c in WINCHARS for c in inv['out']):
                        p = 'Windows-reserved character in %r' % inv['out']
                    if p:
                        failed = True
                        ctx.fail('unsafe-component', 'namers', prefix,
                                 'call %d: namer #%d (its own restrictions: %s) turns %r into %r: %s; %d namers are alive in '
                                 'the process' % (i + 1, nid, safe_kw(cfg), inv['in'], inv['out'], p, len(cfgs)))
            if path and not failed:
                p = containment_problem(path, 'dl%d' % nid, cfg)
                if p:
                    failed = True
                    ctx.fail('escapes-prefix', 'namers', prefix, 'call %d: namer #%d: %s' % (i + 1, nid, p))
    real.fresh()
    for (prefix, realtok, ctxdep), rep in zip(meta, ctx.model.ask(reqs)):
        if realtok != rep and not ctxdep:
            ctx.disagree('namers', prefix, rep, realtok)
    if scenarios:
        ctx.sample(scenarios[0])


def namer_scenarios(rng, n_random):
    out = []
    combos = [{'os_type': o, 'no_control': nc, 'ascii_only': ao, 'case': None, 'max_length': None}
              for o in OS_TYPES for nc in (True, False) for ao in (True, False)]
    names = ['a\x00b', 'esc\x1b[31m.txt', 'nl\nx/é', 'A.', 'plain']
    for a in combos:                      # every ordered pair: both built, then both used, in both use orders
        for b in combos:
            if a is b:
                continue
            for kind in ('part', 'ftp', 'cd'):
                calls = [{'nid': k, 'kind': kind, 'name': n} for n in names[:3] for k in (0, 1)]
                out.append({'namers': [a, b], 'calls': calls})
    for a in combos:
        for change in ({'case': 'lower'}, {'case': 'upper'}, {'max_length': 8}):
            b = dict(a, **change)
            for pair in ([a, b], [b, a]):
                out.append({'namers': pair, 'calls': [{'nid': k, 'kind': 'part', 'name': 'A\x00/b' + 'c' * 12} for k in (0, 1, 0)]})
    for _ in range(n_random):
        cfgs = [gen_safe_cfg(rng) for _ in range(rng.choice([2, 2, 3]))]
        calls = [{'nid': rng.randrange(len(cfgs)), 'kind': rng.choice(['part', 'ftp', 'cd']),
                  'name': rng.choice(HIST_NAMES) if rng.random() < 0.7 else gen_name(rng)}
                 for _ in range(rng.choice([2, 4, 6, 9]))]
        out.append({'namers': cfgs, 'calls': calls})
    return out


# ------------------------------------------------------------------ stream: urlcache (wpull.url's encoder-map cache)
def ref_percent_encode(text, encode_set, encoding='utf-8'):
    return ''.join('%%%02X' % b if (b < 0x20 or b > 0x7E or b in encode_set) else chr(b) for b in text.encode(encoding))


def ref_normalize(text, encode_set):
    return re.sub(r'%[a-fA-F0-9][a-fA-F0-9]', lambda m: m.group(0).upper(), ref_percent_encode(text, encode_set))


URL_FNS = {'normalize_username': 'USERNAME_ENCODE_SET', 'normalize_password': 'PASSWORD_ENCODE_SET',
           'normalize_fragment': 'FRAGMENT_ENCODE_SET', 'normalize_path': 'DEFAULT_ENCODE_SET'}


def urlcache_call(real, c):
    """(result, expected by definition) of one recorded call"""
    wu = real.wu
    if 'fn' in c:
        st = getattr(wu, URL_FNS[c['fn']])
        if c['fn'] == 'normalize_path':
            return wu.percent_encode(c['text'], st), ref_percent_encode(c['text'], st)
        return getattr(wu, c['fn'])(c['text']), ref_normalize(c['text'], st)
    st = frozenset(c['encode_set'])
    return wu.percent_encode(c['text'], st), ref_percent_encode(c['text'], st)


def stream_urlcache(ctx, real, rng, n):
    """wpull.url.percent_encode keeps one encoder map per encode set in a module-level cache.  After the
    standard sets (from a freshly executed wpull.url), encode sets never used before in this process are used in random order on the same
    texts (pairs that differ in one member, subsets, equal size); every result must equal the definition,
    whatever was encoded before.  A failure is reported with the whole call history of the stream."""
    history = []
    real.fresh_url()

    def do(c):
        history.append(c)
        out, want = urlcache_call(real, c)
        ctx.case(('urlcache', len(history), repr(c)), tags=['urlcache'])
        if out != want:
            ctx.fail('history-dependent', 'percent_encode', {'stream': 'urlcache', 'calls': list(history)},
                     'call %d: %r gives %r, by definition %r' % (len(history), c, out, want))
            return False
        return True

    for fn in sorted(URL_FNS):
        if not do({'fn': fn, 'text': 'a b/c@d:e#f?g%h\\i"j<k>l`m'}):
            return
    for _ in range(n):
        base = frozenset(rng.sample(range(0x20, 0x7F), rng.choice([1, 3, 7, 12])))
        extra = rng.choice([b for b in range(0x20, 0x7F) if b not in base])
        swapped = frozenset(sorted(base)[1:] + [extra]) if len(base) > 1 else frozenset([extra])
        sets = [base, base | {extra}, swapped]
        rng.shuffle(sets)
        text = ''.join(chr(rng.choice(sorted(base | {extra}) + [0x41, 0x7A, 0x25, 0x20, 0x2F, 0xE9, 0x0A]))
                       for _ in range(rng.choice([1, 4, 12])))
        for st in sets + [rng.choice(sets)]:
            if not do({'encode_set': sorted(st), 'text': text}):
                return
        if not do({'fn': rng.choice(sorted(URL_FNS)), 'text': text}):
            return


def replay_urlcache(ctx, real, calls):
    real.fresh_url()
    for i, c in enumerate(calls):
        ctx.case(('urlcache-replay', i), tags=['urlcache'])
        out, want = urlcache_call(real, c)
        if out != want:
            ctx.fail('history-dependent', 'percent_encode', {'stream': 'urlcache', 'calls': calls[:i + 1]},
                     'call %d: %r gives %r, by definition %r' % (i + 1, c, out, want))
            return


# ------------------------------------------------------------------ stream: argv (the writer as the application builds it)
MODES = ['windows', 'unix', 'lower', 'upper', 'ascii', 'nocontrol']
ARGV_FTP = ['ftp://example.com/pub/%E2%80%A5/%E2%80%A5/etc/passwd', 'ftp://example.com/pub/%EF%BC%8E%EF%BC%8E/x',
            'ftp://example.com/pub/x%EF%BC%8F..%EF%BC%8F..%EF%BC%8Fy', 'ftp://example.com/%E2%80%A4/%EF%B8%B0/f',
            'ftp://example.com/pub/a%2F..%2F..%2F..%2Fx', 'ftp://example.com/%2E%2E%2F%2E%2E%2Fetc%2Fpasswd',
            'ftp://example.com/pub/%2Fabs', 'ftp://example.com/d%2F/f%00', 'ftp://example.com/pub/nl%0Aesc%1B',
            'ftp://example.com/pub/%2E%2E/x', 'ftp://example.com/a/b%5C..%5Cc', 'ftp://example.com/A/B%2fC/']
ARGV_HTTP = ['http://example.com/a/b.txt', 'http://example.com/', 'https://example.com/d/e?q=/../x', 'http://example.com/A/%2E%2E/b']
ARGV_HEADERS = ['attachment; filename=aux.txt/../../x', 'attachment; filename="CON.a/../b"', 'attachment; filename=nul.\\..\\x',
                'attachment; filename="../../../x"', 'attachment; filename=/etc/passwd', 'attachment; filename=a/b/c',
                'attachment; filename="..\\..\\x"', 'attachment; filename=..', 'attachment; filename="t\tb\x1b[0m"',
                'attachment; filename="dir/../../y.html"', 'attachment; filename=Ok.TXT']


class _Quiet:
    """argparse writes usage text to stderr before SystemExit; wpull's imports print notices"""

    def __enter__(self):
        import io
        import sys
        self.saved = sys.stdout, sys.stderr
        sys.stdout, sys.stderr = io.StringIO(), io.StringIO()

    def __exit__(self, *a):
        import sys
        sys.stdout, sys.stderr = self.saved


def argv_of(case, scratch_root):
    argv = list(case['urls'])
    for ms in case['modes']:            # a list of --restrict-file-names occurrences (usually zero or one)
        argv.append('--restrict-file-names=' + ','.join(ms))
    argv += list(case['opts'])
    if case['prefix'] is not None:
        argv += ['-P', case['prefix'].replace('<ROOT>', scratch_root)]
    return argv


def build_writer_from_argv(real, argv):
    """the file writer exactly as the application builds it: real option parser, real factory, real setup task"""
    import io
    with _Quiet():
        from wpull.application.builder import Builder
        from wpull.application.options import AppArgumentParser
        from wpull.application.tasks.writer import FileWriterSetupTask
        from wpull.pipeline.app import AppSession
        args = AppArgumentParser().parse_args(argv)
        builder = Builder(args)
        session = AppSession(builder.factory, args, io.StringIO())
        writer = FileWriterSetupTask._build_file_writer(session)
    return args, writer


def check_argv(ctx, real, scratch, case, pending):
    """One run: build the writer from argv, push one URL (+ header) through its session, nothing may be
    opened outside the directory prefix.  Also the correspondence of the option glue (model `opts`)."""
    root_dir = os.path.join(scratch, 'o', 'i', 'root')
    shutil.rmtree(os.path.join(scratch, 'o'), ignore_errors=True)
    os.makedirs(root_dir)
    argv = argv_of(case, root_dir)
    key = ('argv', tuple(map(tuple, case['modes'])), tuple(case['opts']), case['prefix'], tuple(case['urls']),
           case.get('existing'), case['header'], case.get('status', 200), case.get('ctype'))
    set_level(_logging.WARNING)
    home = os.path.join(scratch, 'home')
    os.makedirs(home, exist_ok=True)
    os.environ['HOME'] = home               # a "~" that gets expanded lands here, not in the real home directory
    try:
        args, writer = build_writer_from_argv(real, argv)
        with _Quiet():
            from wpull.application.tasks.log import LoggingSetupTask
            LoggingSetupTask._setup_logging(args)           # the real task: --debug, --verbose, --warc-file, -o
        if getattr(args, 'warc_file', None):
            _logging.getLogger().setLevel(_logging.DEBUG)   # what WARCRecorder._setup_log does in such a run
    except SystemExit:
        ctx.case(key, nontrivial=False, tags=['argv:rejected-by-parser'])
        return
    namer = getattr(writer, '_path_namer', None)
    if namer is None:
        ctx.case(key, nontrivial=False, tags=['argv:no-file-writer'])
        return
    # the user's settings, read off the option list itself (last occurrence wins in argparse)
    modes = set(case['modes'][-1]) if case['modes'] else {'unix'}
    cfg = {'no_control': 'nocontrol' not in modes, 'os_type': 'windows' if 'windows' in modes else 'unix'}
    root = args.directory_prefix
    # correspondence of the glue
    dopt = {'force': 'force', 'no': 'no'}.get(args.use_directories, 'unset')
    req = 'path opts %s %d %d %s %s %s' % (enc(sorted(MODES.index(m) for m in modes)), args.max_filename_length or 0,
                                          len(args.urls), 'T' if args.page_requisites else 'F',
                                          'T' if args.recursive else 'F', dopt)
    # the namer's effective settings, observed through its behaviour (private attributes may not exist)
    def probe(text):
        try:
            return namer.safe_filename(text)
        except Exception:
            return None
    bs, sl = probe('a\\b'), probe('a/b')
    os_real = 'windows' if bs is not None and bs.lower() == 'a%5cb' else ('unix' if sl is not None and '/' not in sl else 'other')
    nc_real = (probe('a\x01b') or '').lower() != 'a\x01b'
    ao_real = probe('\xe9') != '\xe9' and probe('\xe9') != '\xc9'
    cs = probe('Aa')
    case_real = 'lower' if cs == 'aa' else ('upper' if cs == 'AA' else 'none')
    ml_real = getattr(namer, '_max_filename_length', args.max_filename_length)
    ud_real = getattr(namer, '_use_dir', None)
    realtok = '%s %s %s %s %d %s' % (os_real, 'T' if nc_real else 'F', 'T' if ao_real else 'F',
                                     case_real, ml_real or 0, 'T' if ud_real else 'F')
    pending.append((req, realtok, dict(case)))
    # the session
    raw = case['urls'][0]
    opened = []
    try:
        if raw.startswith('ftp:'):
            from wpull.protocol.ftp.request import Request as FRequest, Response as FResponse
            request = FRequest(raw)
            response = FResponse()
            response.request = request
        else:
            request, response = make_response(real, raw, case['header'], status=case.get('status', 200),
                                              content_type=case.get('ctype'))
        existing = case.get('existing')
        if existing and (case['prefix'] or '').startswith('<ROOT>'):
            # an earlier run / an earlier download already left something at the target
            first = namer.get_filename(request.url_info)
            if not containment_problem(first, root, cfg) and '\x00' not in first:
                if existing == 'dir':
                    os.makedirs(first, exist_ok=True)
                else:
                    os.makedirs(os.path.dirname(first), exist_ok=True)
                    if not os.path.isdir(first):
                        open(first, 'wb').close()
        session = writer.session()

        def open_file(filename, response, mode='wb+'):
            opened.append(filename)
        session.open_file = open_file
        session.process_request(request)
        chosen = session._filename
        session.process_response(response)
        final = session._filename
        outcome = 'ok'
    except Exception as e:
        outcome = 'OSError' if type(e).__name__ in ('ProtocolError', 'OSError', 'IOError') else exc_name(e)
        err = repr(e)
        # a name chosen before the exception is still judged; an exception AFTER the choice (e.g. the
        # timestamping session touching request.fields of an ftp request) is not the namer's
        chosen = final = getattr(locals().get('session'), '_filename', None)
        if chosen:
            ctx.tag('argv:raised-after-choice:' + outcome)
            outcome = 'OSError'
    if outcome not in ('ok', 'OSError'):
        ctx.fail('namer-raises', 'argv_writer', dict(case),
                 'wpull %s: the writer session raises %s: no local path is chosen'
                 % (' '.join(argv).replace(scratch, '<scratch>'), err.replace(scratch, '<scratch>')))
    ctx.case(key, tags=['argv:' + type(writer).__name__, 'argv:' + outcome, 'argv:os=' + os_real,
                        'argv:modes=%s' % ('absent' if not case['modes'] else len(modes))])
    if args.default_page == '':
        return
    for what, path in [('chosen', chosen), ('final', final)] + [('opened', p) for p in opened]:
        if not path:
            continue
        shown_root = root
        if os.path.normpath(root or '.') == '.':
            shown_root = ''
            if path.startswith('./'):
                path = path[2:]
        p = containment_problem(path, shown_root, cfg)
        if p is None and cfg['os_type'] == 'windows':
            prefix = shown_root if (shown_root == '' or shown_root.endswith('/')) else shown_root + '/'
            if any(c in WINCHARS.replace('/', '') for c in path[len(prefix):]):
                p = 'Windows-reserved character below the prefix in %r' % path
        if p:
            ctx.fail('escapes-prefix', 'argv_writer', dict(case),
                     'wpull %s: %s filename: %s' % (' '.join(argv).replace(scratch, '<scratch>'), what,
                                                   p.replace(scratch, '<scratch>')))
            return


def argv_cases(rng, n_random):
    cases = []

    def mk(modes, opts, prefix, url, header=None, extra_urls=(), status=200, ctype=None):
        return {'stream': 'argv', 'modes': modes, 'opts': opts, 'prefix': prefix, 'urls': [url] + list(extra_urls),
                'header': header, 'status': status, 'ctype': ctype}
    # every subset of the modes (in a random order), and the option absent
    subsets = [[m for i, m in enumerate(MODES) if k >> i & 1] for k in range(1, 64)]
    for sub in [None] + subsets:
        for dirs in ([], ['-nd'], ['-x']):
            ms = []
            if sub is not None:
                sub = list(sub)
                rng.shuffle(sub)
                ms = [sub]
            cases.append(mk(ms, dirs, '<ROOT>', rng.choice(ARGV_FTP)))
            cases.append(mk(ms, dirs + ['--content-disposition'], '<ROOT>', rng.choice(ARGV_HTTP), rng.choice(ARGV_HEADERS)))
    for ms in (['lower'], ['upper'], ['lower', 'nocontrol'], ['windows', 'lower'], ['unix', 'upper']):
        for u in ARGV_FTP[:4]:
            cases.append(mk([ms], ['-x'], '<ROOT>', u))
    # second download / second run: the target is already there (plain `wpull URL` uses the anti-clobber
    # writer, -r the ignore writer, -N timestamping, -nc ...), names that look like templates
    for opts in ([], ['-x'], ['-r'], ['-N'], ['-nc'], ['-c'], ['-x', '--content-disposition']):
        for url in FORMAT_URLS[::3] + ARGV_HTTP[:2] + ARGV_FTP[4:6]:
            for existing in ('file', 'dir'):
                c = mk([], opts, '<ROOT>', url)
                c['existing'] = existing
                cases.append(c)
    for logopt in (['-d'], ['--debug', '-x'], ['--warc-file=w'], ['-v'], ['-d', '--content-disposition']):
        for url, hdr in ((ARGV_FTP[4], None), (ARGV_HTTP[0], ARGV_HEADERS[0]), (ARGV_HTTP[1], None)):
            for existing in (None, 'file'):
                c = mk([], logopt, '<ROOT>', url, hdr)
                c['existing'] = existing
                cases.append(c)
    # default / relative prefix, directories on, host directory absent: the first component comes from the URL
    for opts in (['-x', '-nH'], ['-r', '-nH'], ['-x', '--cut-dirs=1'], ['-x', '-nH', '-N'], ['-x', '-nH', '-nc'], ['-x', '-nH', '-c'],
                 ['-x', '-nH', '--content-disposition'], ['-nH', '-p']):
        for prefix in (None, '.', './', 'rel', '<ROOT>'):
            for url in ('http://example.com/~/.profile', 'http://example.com/~root/x', 'ftp://example.com/~/.ssh/authorized_keys',
                        'http://example.com/%7E/.profile', 'http://example.com/~', 'ftp://example.com/~root/', 'http://example.com/~nobody/a/b'):
                cases.append(mk([], opts, prefix, url, ARGV_HEADERS[-1] if '--content-disposition' in opts else None))
    for ms in (['windows'], ['windows', 'lower'], ['windows', 'nocontrol'], ['windows', 'ascii', 'upper']):
        for url in ('http://example.com/con.php?next=/../../x', 'ftp://example.com/pub/nul.%2F..%2F..%2Fx', 'ftp://example.com/AUX.%2Fa/com1.x%00',
                    'http://example.com/lpt1./prn.txt ', 'ftp://example.com/COM9.%5C..%5Cx'):
            cases.append(mk([ms], ['-x'], '<ROOT>', url))
        for hdr in ARGV_HEADERS[:3]:
            cases.append(mk([ms], ['-x', '--content-disposition'], '<ROOT>', ARGV_HTTP[0], hdr))
    cases.append(mk([['ascii', 'ascii']], [], '<ROOT>', ARGV_FTP[0]))
    cases.append(mk([['windows'], ['lower']], ['-x'], '<ROOT>', ARGV_FTP[0]))        # the last occurrence replaces the first
    cases.append(mk([['nocontrol'], ['unix', 'upper']], ['-x'], '<ROOT>', ARGV_FTP[4]))
    pool = ['-d', '--debug', '-v', '--warc-file=w', '--content-disposition', '--content-disposition', '-nd', '-x', '-nH', '--cut-dirs=1', '--cut-dirs=3',
            '--protocol-directories', '-E', '-r', '-p', '--max-filename-length=8', '--max-filename-length=40',
            '--default-page=i', '--trust-server-names', '-N', '-nc', '-c', '--no-clobber']
    for _ in range(n_random):
        r = rng.random()
        if r < 0.15:
            ms = []
        else:
            sub = [m for m in MODES if rng.random() < 0.4]
            rng.shuffle(sub)
            ms = [sub] if sub else [[rng.choice(MODES)]]
            if rng.random() < 0.1:
                ms.append([rng.choice(MODES)])
        opts = [o for o in pool if rng.random() < 0.2]
        prefix = rng.choice(['<ROOT>', '<ROOT>', '<ROOT>/sub', '<ROOT>/', None])
        extra = ['http://other.example/'] if rng.random() < 0.3 else []
        if rng.random() < 0.5:
            k = rng.choice([1, 2, 3])
            url = 'ftp://example.com/' + '/'.join(gen_seg(rng) for _ in range(k)) + rng.choice(['', '/'])
            cases.append(mk(ms, opts, prefix, url, None, extra))
            cases[-1]['existing'] = rng.choice([None, None, 'file', 'dir'])
        else:
            k = rng.choice([0, 1, 2])
            url = rng.choice(['http', 'https']) + '://example.com/' + '/'.join(gen_seg(rng) for _ in range(k)) + rng.choice(['', '/', '?a=/..'])
            cases.append(mk(ms, opts, prefix, url, gen_header(rng) if rng.random() < 0.85 else None, extra,
                            rng.choice([200, 200, 404]), rng.choice([None, 'text/html', 'text/css'])))
            cases[-1]['existing'] = rng.choice([None, None, 'file', 'dir'])
    return cases


def stream_argv(ctx, real, cases):
    scratch = tempfile.mkdtemp(prefix='c15-')
    pending = []
    try:
        for case in cases:
            try:
                check_argv(ctx, real, scratch, case, pending)
            except (UnicodeError, ValueError) as e:      # a generated URL the request classes refuse
                ctx.case(('argv-skip', repr(case)), nontrivial=False, tags=['argv:unparseable'])
    finally:
        shutil.rmtree(scratch, ignore_errors=True)
    for (req, realtok, case), rep in zip(pending, ctx.model.ask([q for q, _, _ in pending])):
        if rep != realtok:
            ctx.disagree('argv', case, rep, realtok)
    if cases:
        ctx.sample(cases[0])


# ------------------------------------------------------------------ oracle: the fold step of the real code, per code point
def stream_foldtable(ctx, real, thorough):
    """The theorems assume (TableSane) that case folding maps a non-ASCII code point to a non-empty string of
    non-ASCII code points and ASCII letters.  check_case_tables() checks that for the interpreter's
    str.lower / str.upper; this checks it for what the REAL safe_filename does to every single non-ASCII
    character when it is kept (ascii off): all of the BMP + every compatibility character in the quick tier,
    every code point in the thorough tier."""
    letters = set(range(65, 91)) | set(range(97, 123))
    points = list(range(128, 0x10000)) + [ord(ch) for ch, _ in COMPAT if ord(ch) >= 0x10000]
    points += list(range(0x10000, 0x110000, 1 if thorough else 11))
    n = 0
    for case in ('lower', 'upper'):
        cfg = {'os_type': 'unix', 'no_control': True, 'ascii_only': False, 'case': case, 'max_length': None}
        kw = safe_kw(cfg)
        for c in points:
            if 0xD800 <= c <= 0xDFFF:
                continue
            n += 1
            out = real.orig_safe(chr(c), **kw)
            if not out or any(ord(x) < 128 and ord(x) not in letters for x in out):
                ctx.case(('foldtable', case, c), tags=['foldtable'])
                ctx.fail('unsafe-component', 'safe_filename',
                         {'stream': 'safe', 'cfg': cfg, 'name': chr(c)},
                         'safe_filename(U+%04X, case=%s) = %r: %s' % (c, case, out, component_problem(out, cfg)
                                                                      or 'ASCII non-letter produced from a non-ASCII character'))
                return
    ctx.evaluations += n
    ctx.tag('foldtable', n)
    ctx.note('fold_table_real_code', '%d single non-ASCII characters x lower/upper through the real safe_filename' % n)


FORMAT_URLS = (['http://example.com/%s/%s/escaped.txt' % (n, n) for n in FORMAT_NAMES if '/' not in n]
               + ['http://example.com/pub/%s' % n for n in FORMAT_NAMES]
               + ['http://example.com/pub/x.txt?%s' % n for n in FORMAT_NAMES[:12]])


def writer_matrix():
    """every writer kind x the target already there (as a file, as a directory, not at all) x names that look
    like str.format / %-format / string.Template / re templates (a suffix built from the sanitised path with a
    template mechanism would expand them AFTER sanitising)"""
    cfg = {'os_type': 'unix', 'no_control': True, 'ascii_only': False, 'case': None, 'max_length': None,
           'index': 'index.html', 'use_dir': True, 'cut': None, 'protocol': False, 'hostname': True}
    for w in WRITERS:
        for obstacles in (['file-at-file'], ['dir-at-file'], ['file-at-dir'], []):
            for url in FORMAT_URLS:
                yield {'stream': 'writer', 'cfg': cfg, 'raw': url, 'header': None, 'writer': w,
                       'flags': {'adjust': False, 'trust': False, 'cont': False, 'status': 200, 'ctype': None},
                       'obstacles': obstacles}
    for w in WRITERS:       # the same names arriving as Content-Disposition values, target existing
        for n in FORMAT_NAMES:
            yield {'stream': 'writer', 'cfg': cfg, 'raw': 'http://example.com/a/b.txt',
                   'header': 'attachment; filename=%s' % n, 'writer': w,
                   'flags': {'adjust': True, 'trust': True, 'cont': False, 'status': 200, 'ctype': 'text/html'},
                   'obstacles': ['file-at-file']}


# ------------------------------------------------------------------ entry points
def load_corpus(ctx):
    import glob
    import json
    from runner import unjson
    out = []
    for p in sorted(glob.glob(os.path.join(ctx.verif, 'harness', 'corpus', PID, '*.json'))):
        with open(p) as f:
            out.append(unjson(json.load(f)))
    return out


def replay(ctx, case, kind=None, where=None):
    real = Real.get(ctx)
    s = case.get('stream')
    if 'prior_settings' in case:
        # the failure was seen after these settings had been used in the same process
        real.warm(case['prior_settings'])
    if s == 'safe':
        stream_safe(ctx, real, [(case['cfg'], case['name'])])
    elif s == 'name':
        stream_name(ctx, real, [(case['cfg'], case['raw'])])
    elif s == 'rawname':
        stream_name(ctx, real, [(case['cfg'], case['url'], case['scheme'])], stream='rawname')
    elif s == 'cd':
        stream_cd(ctx, real, [(case['cfg'], case['cur'], case['url'], case['header'])])
    elif s == 'unquote':
        stream_unquote(ctx, [case['s']])
    elif s == 'split':
        stream_split(ctx, [case['url']])
    elif s == 'join':
        stream_join(ctx, [(case['root'], case['parts'])])
    elif s == 'argv':
        stream_argv(ctx, real, [case])
    elif s == 'namers':
        stream_namers(ctx, real, [{'namers': case['namers'], 'calls': case['calls']}])
    elif s == 'history':
        stream_history(ctx, real, [case['calls']])
    elif s == 'urlcache':
        replay_urlcache(ctx, real, case['calls'])
    elif s == 'writer':
        scratch = tempfile.mkdtemp(prefix='c15-')
        try:
            check_writer(ctx, real, scratch, case)
        finally:
            shutil.rmtree(scratch, ignore_errors=True)
    else:
        raise Infra('unknown replay stream %r' % s)


FIXED_URLS = ['http://h/con.php?next=/../../x', 'ftp://h/pub/nul.%2F..%2F..%2Fx', 'ftp://h/AUX.%2Fa/com1.x%00', 'http://h/~/.profile',
              'http://h/~root/x', 'ftp://example.com/pub/%E2%80%A5/%E2%80%A5/etc/passwd', 'ftp://example.com/%EF%BC%8E%EF%BC%8E/%EF%BC%8F/x',
              'ftp://h/\u2025/\uff0e\uff0e/\u2024', 'ftp://h/a\uff0f..\uff0fb', 'ftp://h/%E2%80%A4%E2%80%A4/%EF%B9%92',
              'http://example.com/', 'http://example.com/a/b', 'http://example.com/a/b/', 'http://example.com/?q',
              'ftp://h/', 'ftp://h/a%2Fb/%2E%2E/c%00', 'ftp://h/%2E%2E/%2E%2E/etc/passwd', 'ftp://h/%2e%2e%2f%2e%2e%2fx',
              'ftp://h/..%2F..%2Fx', 'ftp://h/%2F%2Fetc/%2Fpasswd', 'ftp://h/a/%2E', 'ftp://h/a/%2E/', 'ftp://h/%00',
              'ftp://h/%5C..%5C', 'http://h/a./b', 'http://h/a.', 'ftp://h/a%20', 'ftp://h/%FF%E0%80/x%', 'http://h/' + 'a' * 400,
              'ftp://h/' + '%2F' * 200, 'http://u:p@H:81/a//b/.', 'http://h/a/b?x=/', 'http://[::1]@h/x', 'http://[u@h/',
              'ftp://h/%2e', 'ftp://h/%2e%2e', 'ftp://h/dir%2F..%2F..%2F/f', 'http://h/%2E%2E/%2E%2E/x', 'ftp://h/.%2E/x',
              'ftp://h/%2E./x', 'ftp://h/a/%2F', 'ftp://h/%C0%AE%C0%AE/x', 'ftp://h/%EF%BC%8F/x', 'ftp://h/%E2%88%95x']


def run(ctx):
    thorough = ctx.tier == 'thorough'
    real = Real.get(ctx)
    check_case_tables()
    for case in load_corpus(ctx):
        replay(ctx, case['case'] if 'case' in case else case)
    rng = ctx.rng

    # order of use inside one process (module-level caches): every sequence starts from a fresh wpull.path
    stream_history(ctx, real, history_sequences(ctx.subrng('history'), ctx.scale(400, 8000)))
    stream_namers(ctx, real, namer_scenarios(ctx.subrng('namers'), ctx.scale(300, 6000)))
    stream_urlcache(ctx, real, ctx.subrng('urlcache'), ctx.scale(300, 5000))

    stream_foldtable(ctx, real, thorough)

    # the writer built by the application from argv (option glue)
    stream_argv(ctx, real, argv_cases(ctx.subrng('argv'), ctx.scale(1500, 12000)))

    # library mirrors
    strings = [gen_seg(rng) + rng.choice(['', gen_seg(rng)]) for _ in range(ctx.scale(3000, 60000))]
    strings += ['%%%02X%%%02X%%%02X' % (a, b, c) for a in (0xC2, 0xE0, 0xE1, 0xED, 0xEF, 0xF0, 0xF1, 0xF4, 0xF5, 0x80, 0x41)
                for b in (0x7F, 0x80, 0x8F, 0x90, 0x9F, 0xA0, 0xBF, 0xC0) for c in (0x41, 0x80, 0xBF, 0xC2)]
    strings += ['', '%', '%%', '%4', '%41', 'é%41', '%C3é%A9', '%c3%a9', 'a%C3', '%F0%9F%98', '%F0%9F%98%80é']
    stream_unquote(ctx, strings)
    stream_join(ctx, [(rng.choice(ROOTS + ['/', '//', 'a//b/']),
                       [rng.choice(['a', 'b.c', '', '/', '/x', 'd/', '..', '.', 'e/f']) for _ in range(rng.choice([0, 1, 2, 3]))])
                      for _ in range(ctx.scale(500, 5000))])

    # safe_filename: every configuration on fixed hostile names + random
    fixed = ['', '.', '..', '...', '/', '//', 'a/b', '../x', '\\', 'a\\b', '\x00', 'a\x00', ' ', 'a ', 'a.', '. ', 'é',
             'a' * 300, 'é' * 200, '/' * 100, 'Σ', 'AΣ', 'ß', 'K', '\udc80', 'CON', 'a:b', '\x1f', '\x7f', '\x85', '%2E%2E']
    fixed += COMPAT_NAMES
    fixed += [urllib.parse.unquote(d) for d in DEVICE_SEGS] + [d + '.txt/../../x' for d in DEVICE_NAMES[:6]]
    cases = [(cfg, n) for cfg in all_safe_cfgs() for n in fixed]
    cases += [(gen_safe_cfg(rng, other=True), gen_name(rng)) for _ in range(ctx.scale(15000, 250000))]
    rng.shuffle(cases)      # the correspondence is compared after a randomised history of other calls
    real.fresh()
    stream_safe(ctx, real, cases)

    # get_filename
    ncases = [(gen_namer_cfg(rng), u) for u in FIXED_URLS for _ in range(12 if not thorough else 60)]
    ncases += [(gen_namer_cfg(rng, other=True), gen_raw_url(rng)) for _ in range(ctx.scale(25000, 500000))]
    stream_name(ctx, real, ncases)

    # non-canonical strings straight into get_filename (correspondence of the urlsplit mirror)
    rcases = []
    urls = []
    for _ in range(ctx.scale(3000, 40000)):
        u = gen_raw_url(rng)
        if rng.random() < 0.3:
            u = rng.choice(['', ' ', '\t', '//', 'x', ':', '1http:']) + u
        host_ascii = True
        try:
            host_ascii = urllib.parse.urlsplit(u).netloc.isascii()
        except ValueError:
            pass
        if not host_ascii:
            continue        # the model lower-cases host names as ASCII only
        rcases.append((gen_namer_cfg(rng), u, rng.choice(['http', 'ftp'])))
        urls.append(u)
    stream_name(ctx, real, rcases, stream='rawname')
    canon = []
    for _, raw in ncases[:ctx.scale(2000, 20000)]:
        try:
            canon.append(real.wu.URLInfo.parse(raw).url)
        except Exception:
            pass
    stream_split(ctx, urls + [u for u in canon if urllib_ascii_netloc(u)])

    # Content-Disposition
    ccases = []
    for _ in range(ctx.scale(8000, 150000)):
        cur = rng.choice(['dl/h/a/b.txt', 'dl/x', 'x', '/x', 'dl//x', 'a/b/', '', None, 'dl/h/index.html', './x'])
        url = rng.choice(['http://h/a/b.txt', 'https://h/', 'ftp://h/f', 'http://h/x?y'])
        ccases.append((gen_safe_cfg(rng), cur, url, gen_header(rng) if rng.random() < 0.93 else None))
    stream_cd(ctx, real, ccases)

    # the real writer sessions
    scratch = tempfile.mkdtemp(prefix='c15-')
    try:
        for case in writer_matrix():
            check_writer(ctx, real, scratch, case)
        for _ in range(ctx.scale(3000, 40000)):
            check_writer(ctx, real, scratch, gen_writer_case(rng))
    finally:
        shutil.rmtree(scratch, ignore_errors=True)
    ctx.note('case_tables', 'lower()/upper() of all non-ASCII code points: non-empty, only non-ASCII or ASCII letters (exhaustive)')


def urllib_ascii_netloc(u):
    try:
        return urllib.parse.urlsplit(u).netloc.isascii()
    except ValueError:
        return True


def search(ctx):
    """Correspondence or proof broke: aim a larger budget at the oracles."""
    real = Real.get(ctx)
    rng = ctx.subrng('search')
    stream_history(ctx, real, history_sequences(rng, ctx.scale(50, 250)))
    stream_argv(ctx, real, argv_cases(rng, ctx.scale(100, 500)))
    stream_safe(ctx, real, [(gen_safe_cfg(rng), gen_name(rng)) for _ in range(ctx.scale(2000, 10000))])
    stream_name(ctx, real, [(gen_namer_cfg(rng), gen_raw_url(rng)) for _ in range(ctx.scale(3000, 15000))])
    stream_cd(ctx, real, [(gen_safe_cfg(rng), 'dl/h/a', 'http://h/a', gen_header(rng)) for _ in range(ctx.scale(1000, 5000))])
    scratch = tempfile.mkdtemp(prefix='c15-')
    try:
        for _ in range(ctx.scale(300, 1500)):
            check_writer(ctx, real, scratch, gen_writer_case(rng))
    finally:
        shutil.rmtree(scratch, ignore_errors=True)
