"""Shared by c16.py and c18.py (engine `Request`): generators, the real-code adapters
(Request.prepare_for_send/to_bytes; WebSession + http Client + CookieJarWrapper over
harness/fakenet.py) and the encoders for the model driver (`request …` lines)."""
import asyncio
import base64
import functools
import compat  # noqa: F401
import fakenet
from runner import enc, dec_bytes, Infra

REDIRECT_CODES = (301, 302, 303, 307, 308)


# ------------------------------------------------------------------ encoders
def enc_lists(items):
    items = list(items)
    return '~' if not items else '/'.join(enc(x) for x in items)


def fields_token(pairs):
    flat = []
    for n, v in pairs:
        flat.append(n)
        flat.append(v)
    return enc_lists(flat)


def urlc(info):
    """Components of a real URLInfo (the model's parameter)."""
    from wpull.url import normalize_username, normalize_password
    return {
        'scheme': info.scheme, 'hostname': info.hostname, 'port': info.port,
        'ipv6': bool(info.is_ipv6()), 'path': info.path, 'query': info.query or '',
        'username': info.username or '', 'password': info.password or '',
        'normUser': normalize_username(info.username) if info.username else '',
        'normPass': normalize_password(info.password) if info.password else '',
    }


def url_token(c):
    return '/'.join([enc(c['scheme']), enc(c['hostname']), enc([c['port']]), enc([1 if c['ipv6'] else 0]),
                     enc(c['path']), enc(c['query']), enc(c['username']), enc(c['password']),
                     enc(c['normUser']), enc(c['normPass'])])


def parse_url(url):
    """URLInfo.parse -> ('url', info) | ('other', None) | ('invalid', None)"""
    from wpull.url import URLInfo
    try:
        info = URLInfo.parse(url)
    except ValueError:
        return 'invalid', None
    if info.scheme not in ('http', 'https'):
        return 'other', info
    return 'url', info


# ------------------------------------------------------------------ generators
HOSTS_PLAIN = ['a.example', 'b.example', 'sub.a.example', 'c.test', '10.0.0.5', '[::1]', '[2001:db8::1]', 'localhost']
HOSTS_ODD = ['A.Example', 'xn--bcher-kva.example', 'bücher.example', '0x7f.1', '017700000001', 'a.example.',
             'h．example', 'a\x7fb.example', '[2001:DB8:0:0::0001]', '[::ffff:1.2.3.4]']
# IPv6 literals with zone identifiers and odd bracket contents (py >= 3.9 ipaddress keeps any text after '%'
# as scope id; the IPv6 branch of parse_hostname runs no forbidden-character check): all must be REJECTED
HOSTS_IPV6_ODD = ['[fe80::1%eth0]', '[fe80::1%25eth0]', '[fe80::1%25eth 0]', '[fe80::1%a b]', '[fe80::1%25a\tb]', '[fe80::1%25]',
                  '[fe80::1%25é]', '[FE80::1%25ETH0]', '[fe80::1%25a]b]', '[fe80::1%25a[b]', '[fe80::1%2525x y]', '[::1 ]', '[ ::1]',
                  '[::1%25 ]', '[fe80::1%25a/b]', '[fe80::1%25a@b]', '[fe80::1%25a:80]', '[v1.fe80::a]', '[::1]x', '[::ffff:1.2.3.4%25z z]']
def nfkc_forbidden_codepoints():
    """code points that IDNA name preparation (NFKC) turns into text holding a character forbidden in a host name
    (space, '#%/:?@[\\]', controls): U+00A0, U+3000, U+2000..200A, U+00A8, fullwidth '/', '?', '@', ':' …"""
    import unicodedata
    bad = set('#%/:?@[\\] ')
    return [c for c in range(0x80, 0x30000)
            if any(ch in bad or ord(ch) < 0x21 for ch in unicodedata.normalize('NFKC', chr(c)))]


NFKC_FORBIDDEN = nfkc_forbidden_codepoints()
NFKC_LATIN1 = [c for c in NFKC_FORBIDDEN if c < 0x100]      # can travel as one byte in a Location header


def gen_nfkc_host(rng, latin1=False):
    c = chr(rng.choice(NFKC_LATIN1 if latin1 else NFKC_FORBIDDEN))
    return rng.choice(['files%scdn.test', 'a%sb.example', '%sa.example', 'a.example%s', 'a.ex%sample', 'evil.test%sa.example'])% c


NASTY = ['%0D%0A', '%0d%0aX-Injected:%201', '%20', ' ', '%00', 'é', '€', '\U0001f600', '\x7f', '\x80', '%',
         '%zz', '+', '"', '<', '>', '`', '{', '}', '|', '\\', '^', '~', '[', ']', ';', '=', '&', '@', ':', ' ',
         '\x85', '\xa0', '%25', '%2F', '%3f', '%23', '\udc80']
SEG = ['%2e', '%2e%2e', '.%2e', '%2e.', '%2E%2E', '%2E', 'files', 'a', 'b', 'index.html', 'x y', '.', '..', '', 'café', '%41', 'a%2fb', 'HTTP/1.1', 'Host:%20evil']


def gen_component(rng, allow):
    n = rng.choice([0, 1, 1, 2, 3, 5])
    out = []
    for _ in range(n):
        r = rng.random()
        if r < 0.45:
            out.append(rng.choice(NASTY))
        else:
            out.append(rng.choice('abcxyz019-._' + allow))
    return ''.join(out)


def gen_url(rng, hosts=None, simple=False):
    """A raw URL string plus the parts it was composed from."""
    scheme = rng.choice(['http', 'http', 'https', 'HTTP', 'hTTps']) if not simple else rng.choice(['http', 'https'])
    host = rng.choice(hosts or (HOSTS_PLAIN + HOSTS_PLAIN + HOSTS_ODD + HOSTS_IPV6_ODD[:rng.choice([0, 0, 0, 0, len(HOSTS_IPV6_ODD)])]))
    if not hosts and rng.random() < 0.04:
        host = gen_nfkc_host(rng)           # must be rejected: name preparation would put a space / delimiter into the host
    port = rng.choice([None, None, None, 80, 443, 8080, 81, 65535, 0, 8443])
    user = pw = None
    r = rng.random()
    if r < 0.25:
        user = rng.choice(['u', 'user', 'U%20ser', 'u%0D%0A', 'näme', 'a%40b', '']) if not simple else 'u%d' % rng.randrange(1000)
        if rng.random() < 0.8:
            pw = rng.choice(['p', 'secret', 'p%3Aw', 'p%0Aq', 'p w', 'p@ss'.replace('@', '%40'), '']) if not simple else 'p%d' % rng.randrange(1000)
        if rng.random() < 0.35:
            # long credentials: 'user:password' of 58 bytes and more is where a line-wrapping base64 breaks the line
            user = 'u%d' % rng.randrange(1000) + gen_long_cred(rng, 20, 120)
            pw = 'p%d' % rng.randrange(1000) + gen_long_cred(rng, 20, 120)
    if simple:
        path = '/' + '/'.join(rng.choice(['a', 'b', 'x', 'dir', 'i.html']) for _ in range(rng.randrange(0, 3)))
        query = rng.choice(['', '', 'q=1', 'a=b&c=d'])
        frag = ''
    else:
        segs = [rng.choice(SEG) if rng.random() < 0.6 else gen_component(rng, '') for _ in range(rng.choice([0, 1, 2, 3]))]
        path = ('/' + '/'.join(segs)) if segs or rng.random() < 0.7 else ''
        query = None if rng.random() < 0.5 else gen_component(rng, '=&')
        frag = None if rng.random() < 0.7 else gen_component(rng, '')
    url = scheme + '://'
    if user is not None:
        url += user
        if pw is not None:
            url += ':' + pw
        url += '@'
    url += host
    if port is not None:
        url += ':%d' % port
    url += path
    if not simple:
        if query is not None:
            url += '?' + query
        if frag is not None:
            url += '#' + frag
    elif query:
        url += '?' + query
    return url


def gen_long_cred(rng, lo=40, hi=200):
    """a long user name / password as it appears in a URL (percent-encoded bytes included)"""
    n = rng.randrange(lo, hi + 1)
    out = []
    size = 0
    while size < n:
        if rng.random() < 0.12:
            out.append(rng.choice(['%C3%A9', '%20', '%3A', '%40', '%2F', '%E2%82%AC', '%7E', '%0A', '%0D']))
            size += 1
        else:
            out.append(rng.choice('abcdefghijklmnopqrstuvwxyzABCDEFGHIJKLMNOPQRSTUVWXYZ0123456789-._~'))
            size += 1
    return ''.join(out)


FIELD_NAMES = ['User-Agent', 'Accept', 'accept-encoding', 'REFERER', 'x-foo_bar9a', 'X-1a-b', 'Cache-Control',
               'pragma', 'cookie', 'Authorization', 'HOST', 'Content-Type', 'a', 'DNT']


def gen_value(rng, hostile=True):
    n = rng.choice([0, 1, 3, 8, 20])
    out = []
    for _ in range(n):
        r = rng.random()
        if hostile and r < 0.06:
            out.append(rng.choice('\r\n'))
        elif r < 0.15:
            out.append(rng.choice(' \t:;=,'))
        elif r < 0.25:
            out.append(chr(rng.choice([0xe9, 0xff, 0x100, 0x20ac, 0x1f600, 0x80, 0x7f, 0])))
        else:
            out.append(rng.choice('abcdefXYZ0123456789-_/.*'))
    return ''.join(out)


# ------------------------------------------------------------------ function level
def real_prep(url, method, version, pairs, full):
    """Request(url).prepare_for_send(full).to_bytes() on the real code."""
    from wpull.protocol.http.request import Request
    req = Request(url, method=method, version=version)
    for n, v in pairs:
        req.fields.add(n, v)
    try:
        req.prepare_for_send(full_url=full)
        return 'ok', req.to_bytes(), req
    except Exception as e:
        return 'exc', type(e).__name__, req


def real_prep2(url, method, version, pairs, full1, full2):
    """prepare_for_send twice (as _process_redirect and then Stream.write_request do), then to_bytes()"""
    from wpull.protocol.http.request import Request
    req = Request(url, method=method, version=version)
    for n, v in pairs:
        req.fields.add(n, v)
    try:
        req.prepare_for_send(full_url=full1)
        req.prepare_for_send(full_url=full2)
        return 'ok', req.to_bytes(), req
    except Exception as e:
        return 'exc', type(e).__name__, req


def prep2_line(c, method, version, pairs, full1, full2):
    return 'request prep2 %s %s %s %s %s %s' % ('T' if full1 else 'F', 'T' if full2 else 'F', enc(method), enc(version),
                                                  fields_token(pairs), url_token(c))


def prep_line(c, method, version, pairs, full):
    return 'request prep %s %s %s %s %s' % ('T' if full else 'F', enc(method), enc(version), fields_token(pairs), url_token(c))


# ------------------------------------------------------------------ independent request splitter (oracle)
def split_request(data):
    """Independent reading of one serialised request head.
    Returns (problems, method, target, version, [(name, value)])."""
    problems = []
    if not data.endswith(b'\r\n\r\n'):
        problems.append('no-blank-line-at-end')
    head = data[:-4] if data.endswith(b'\r\n\r\n') else data
    lines = head.split(b'\r\n')
    for ln in lines:
        if b'\r' in ln or b'\n' in ln:
            problems.append('bare-cr-or-lf')
            break
    if b'' in lines:
        problems.append('blank-line-inside-head')
    rl = lines[0]
    parts = rl.split(b' ')
    if len(parts) != 3 or not all(parts):
        problems.append('request-line-not-3-tokens')
    if any(c in rl for c in b'\t\x0b\x0c'):
        problems.append('request-line-whitespace')
    fields = []
    for ln in lines[1:]:
        if not ln:
            continue
        name, sep, value = ln.partition(b':')
        if not sep or not name or name != name.strip() or b' ' in name:
            problems.append('bad-field-line')
        fields.append((name.decode('latin-1'), value.strip().decode('latin-1')))
    method = parts[0] if parts else b''
    target = parts[1] if len(parts) > 1 else b''
    version = parts[2] if len(parts) > 2 else b''
    return problems, method, target, version, fields


def host_value_problem(value):
    """why a Host value is not a syntactically valid host[:port] (None if it is)"""
    import re
    if not value:
        return 'empty'
    if any(ord(ch) <= 0x20 or ord(ch) == 0x7f or ord(ch) > 0x7e for ch in value):
        return 'white space, control or non-ASCII character'
    m = re.fullmatch(r'(\[[0-9A-Fa-f:.]+\]|[^\[\]#%/:?@\\]+)(:[0-9]{1,5})?', value)
    if not m:
        return 'delimiter character inside the host (or malformed brackets / port)'
    return None


def expected_host(info):
    """host[:non-default port] of a URL, computed without hostname_with_port."""
    host = info.hostname
    if ':' in host:
        host = '[' + host + ']'
    default = {'http': 80, 'https': 443}.get(info.scheme)
    if info.port != default:
        host += ':%d' % info.port
    return host


def component_class_ok(s):
    return all(0x21 <= ord(ch) <= 0x7e for ch in s)


# ------------------------------------------------------------------ WebSession over fakenet
class Watchdog(KeyboardInterrupt):
    """raised by SIGALRM inside whatever is running: a real run that spins inside ONE event-loop callback cannot be cut by
    any timeout or step bound of the loop"""


class watchdog:
    """hard wall-clock bound around one real run (main thread only); `fired` tells whether it went off"""

    def __init__(self, seconds):
        self.seconds = seconds
        self.fired = False

    def _handler(self, signum, frame):
        self.fired = True
        raise Watchdog()

    def __enter__(self):
        import signal
        import threading
        self.active = threading.current_thread() is threading.main_thread()
        if self.active:
            self._old = signal.signal(signal.SIGALRM, self._handler)
            signal.setitimer(signal.ITIMER_REAL, self.seconds)
        return self

    def __exit__(self, et, ev, tb):
        import signal
        if self.active:
            signal.setitimer(signal.ITIMER_REAL, 0)
            signal.signal(signal.SIGALRM, self._old)
        return et is not None and issubclass(et, Watchdog)      # the flag carries the news


class Script:
    """What the fake servers answer: the k-th request (over all connections) gets replies[k].
    reply = {'status': int, 'location': bytes|None, 'cookies': [bytes], 'mode': 'resp'|'close'|'garbage'}"""

    def __init__(self, replies, robots_replies=None):
        self.replies = replies
        self.log = []          # (ip, port, head bytes, body bytes)
        self.robots_replies = robots_replies      # None: /robots.txt is an ordinary page
        self.rlog = []         # requests for /robots.txt when robots_replies is given
        self.on_request = None  # callback(k, head) when the k-th page request has arrived, before it is answered
        self.by_path = None     # a small site instead of the index script: request path -> reply (404 for anything else)
        self.conns = []        # per entry of log: the connection object the request came in on (bytes consumed by the client)
        self.feeders = []      # tasks of the never-ending response heads
        self.tunnels = []      # per entry of log: the CONNECT target of the connection the request came in on, or None
        self.rtunnels = []     # the same for rlog
        self.connects = []     # (ip, port, head) of every CONNECT request (the server plays an HTTP proxy too)


def response_bytes(rep):
    body = rep.get('body', b'')
    h = b'HTTP/1.1 %d X\r\nContent-Length: %d\r\n' % (rep['status'], len(body))
    if rep.get('location') is not None:
        h += b'Location: ' + rep['location'] + b'\r\n'
    for c in rep.get('cookies', ()):
        h += b'Set-Cookie: ' + c + b'\r\n'
    for x in rep.get('extra', ()):
        h += x + b'\r\n'
    return h + b'\r\n' + body


class ScriptServer:
    def __init__(self, script):
        self.script = script
        self.buf = b''
        self.need_body = 0
        self.head = None
        self.tunnel = None      # set by a CONNECT on this connection

    def on_write(self, conn, data):
        self.buf += data
        while True:
            if self.head is None:
                if b'\r\n\r\n' not in self.buf:
                    return
                head, _, self.buf = self.buf.partition(b'\r\n\r\n')
                self.head = head + b'\r\n\r\n'
                self.need_body = 0
                for ln in head.split(b'\r\n')[1:]:
                    if ln.lower().startswith(b'content-length:'):
                        try:
                            self.need_body = int(ln.split(b':', 1)[1])
                        except ValueError:
                            pass
            if len(self.buf) < self.need_body:
                return
            body, self.buf = self.buf[:self.need_body], self.buf[self.need_body:]
            if self.head.startswith(b'CONNECT '):
                # proxy role: open the tunnel, what follows on this connection is for that origin
                self.tunnel = self.head.split(b' ')[1].decode('latin-1')
                self.script.connects.append((conn.address[0], conn.address[1], self.head))
                self.head = None
                conn.send(b'HTTP/1.1 200 Connection established\r\n\r\n')
                continue
            if self.script.robots_replies is not None and self.head.split(b' ')[1:2] and \
                    self.head.split(b' ')[1].split(b'?')[0] == b'/robots.txt':
                k = len(self.script.rlog)
                self.script.rlog.append((conn.address[0], conn.address[1], self.head, body))
                self.script.rtunnels.append(self.tunnel)
                replies = self.script.robots_replies
            else:
                k = len(self.script.log)
                self.script.log.append((conn.address[0], conn.address[1], self.head, body))
                self.script.conns.append(conn)
                self.script.tunnels.append(self.tunnel)
                replies = self.script.replies
                if self.script.on_request:
                    self.script.on_request(k, self.head)
            path = self.head.split(b' ')[1].split(b'?')[0].decode('latin-1') if self.head.split(b' ')[1:2] else ''
            self.head = None
            rep = replies[k] if k < len(replies) else {'status': 200, 'mode': 'resp'}
            if self.script.by_path is not None and replies is self.script.replies:
                rep = self.script.by_path.get(path, {'status': 404, 'mode': 'resp'})
            mode = rep.get('mode', 'resp')
            if mode == 'close':
                conn.close()
                return
            if mode == 'garbage':
                conn.send(b'\x00\xffnot http at all\r\n\r\n')
                conn.close()
                return
            if mode in ('endless-1xx', 'endless-headers'):
                # a response HEAD that never ends: interim 1xx blocks / short header lines, fed as fast as the client
                # reads them, up to a cap (so that the run ends whatever the client does)
                cap = rep.get('cap', 400000)
                if mode == 'endless-headers':
                    conn.send(b'HTTP/1.1 200 OK\r\n')

                async def feed(conn=conn, mode=mode, cap=cap):
                    fed, n = 0, 0
                    while not conn.client_closed and not conn.server_closed and fed < cap:
                        if len(conn.reader._buffer) < 2048:
                            block = (b'HTTP/1.1 100 Continue\r\n\r\n' if mode == 'endless-1xx'
                                     else b'X-Filler-%d: %s\r\n' % (n, b'v' * 40))
                            conn.send(block)
                            fed += len(block)
                            n += 1
                        else:
                            await asyncio.sleep(0)
                    conn.close()
                self.script.feeders.append(asyncio.ensure_future(feed()))
                return
            if mode == 'cutbody':
                # the header arrives, the connection is lost in the middle of the body
                conn.send(b'HTTP/1.1 %d X\r\nContent-Length: 10\r\n\r\nabc' % rep.get('status', 200))
                conn.close()
                return
            if rep.get('delay'):
                # the answer comes later (other workers run in between)
                async def later(conn=conn, rep=rep, n=rep['delay']):
                    for _ in range(n):
                        await asyncio.sleep(0)
                    if rep.get('then') == 'close':
                        conn.close()
                    else:
                        conn.send(response_bytes(rep))
                self.script.feeders.append(asyncio.ensure_future(later()))
                return
            conn.send(response_bytes(rep))
            if b'\r\nconnection: close\r\n' in self.script.log[-1][2].lower() if self.script.log else False:
                conn.close()        # the client asked for it (--ignore-length reads the body up to the close)


class NamedResolver(fakenet.FakeResolver):
    """every host name gets its own address, so the oracle knows which host a connection went to"""

    def __init__(self):
        super().__init__()
        self.names = {}

    @asyncio.coroutine
    def resolve(self, host):
        import socket
        from wpull.network.dns import ResolveResult, AddressInfo
        if host not in self.names:
            self.names[host] = '10.1.%d.%d' % (len(self.names) // 250, len(self.names) % 250 + 1)
        return ResolveResult([AddressInfo(self.names[host], socket.AF_INET, None, None)])
        yield  # pragma: no cover

    def host_of(self, ip):
        for h, a in self.names.items():
            if a == ip:
                return h
        return None


def make_jar():
    from http.cookiejar import CookieJar
    from wpull.cookie import DeFactoCookiePolicy
    from wpull.cookiewrapper import CookieJarWrapper

    class LogJar(CookieJar):
        """stdlib jar + a log of what it would add for each add_cookie_header call (the model's parameter)"""
        answers = None

        def add_cookie_header(self, request):
            super().add_cookie_header(request)
            attrs = self._cookie_attrs(self._cookies_for_request(request))
            self.answers.append('; '.join(attrs) if attrs else None)

    jar = LogJar()
    jar.answers = []
    jar.set_policy(DeFactoCookiePolicy(cookie_jar=jar))
    return jar, CookieJarWrapper(jar)


def run_session(url, replies, max_redirects=20, use_jar=True, factory_pairs=(('User-Agent', 'ua/1'),),
                extra_pairs=(), login=None, method='GET', body=None, proxy=False):
    """Drive the REAL WebSession (+ real http Client, Stream, ConnectionPool, CookieJarWrapper,
    DeFactoCookiePolicy, RedirectTracker) against the scripted servers.
    Returns a dict: hops [(host, port, head, body)], outcome, last status, jar answers,
    model replies [(status, hasLoc, kind, urlc|None)], initial fields."""
    from wpull.protocol.http.client import Client
    from wpull.protocol.http.web import WebClient
    from wpull.protocol.http.request import Request
    from wpull.protocol.http.redirect import RedirectTracker
    from wpull.protocol.http.stream import Stream
    from wpull.network.pool import ConnectionPool
    import wpull.url
    from wpull.body import Body
    import io

    loads = []
    holder = {}

    class LogTracker(RedirectTracker):
        def load(self, response):
            loads.append((response.status_code, response.fields.get('location'), response.request.url_info.url))
            super().load(response)

    async def go():
        script = Script(replies)
        holder['script'] = script
        net = fakenet.FakeNet()
        net.default = lambda: ScriptServer(script)
        resolver = NamedResolver()
        with net:
            if proxy:
                from wpull.proxy.client import HTTPProxyConnectionPool
                pool = HTTPProxyConnectionPool(('proxy.test', 3128), resolver=resolver)
            else:
                pool = ConnectionPool(resolver=resolver)
            client = Client(connection_pool=pool, stream_factory=functools.partial(Stream, keep_alive=True))
            jar = wrapper = None
            if use_jar:
                jar, wrapper = make_jar()

            def factory(u):
                r = Request(u)
                for n, v in factory_pairs:
                    r.fields.add(n, v)
                return r
            wc = WebClient(client, request_factory=factory,
                           redirect_tracker_factory=functools.partial(LogTracker, max_redirects=max_redirects),
                           cookie_jar=wrapper)
            req = factory(url)
            req.method = method
            for n, v in extra_pairs:
                req.fields[n] = v
            if body is not None:
                req.fields['Content-Type'] = 'application/x-www-form-urlencoded'
                req.fields['Content-Length'] = str(len(body))
                req.body = Body(io.BytesIO())
                req.body.write(body)
                req.body.seek(0)
            if login:
                req.username, req.password = login
            init_pairs = list(req.fields.get_all())
            init_url = req.url_info
            sess = wc.session(req)
            outcome = 'done'
            last = 0
            n_iter = 0
            try:
                with sess:
                    while not sess.done():
                        nxt = sess.next_request()
                        if nxt.url_info.scheme not in ('http', 'https'):
                            # cannot happen since bc02e86 (_process_redirect raises ProtocolError for such a
                            # target); if it does, the model (exc:ProtocolError) and the wire oracle disagree
                            outcome = 'non-http-next-request'
                            break
                        n_iter += 1
                        if n_iter > 4 * (max_redirects + 2) + 40:
                            # far beyond 2*(max_redirects+1): the visit sends requests without end
                            outcome = 'runaway'
                            break
                        task = asyncio.ensure_future(compat._ensure(sess.start()))
                        if not await fakenet.settle(task, script.feeders, extra=60, limit=400000):
                            task.cancel()
                            outcome = 'stalled'
                            break
                        resp = task.result()
                        last = resp.status_code
                        await compat._ensure(sess.download())
            except Exception as e:
                outcome = 'exc:' + classify(e)
            if loads:
                last = loads[-1][0]
            # model parameters: what urljoin + URLInfo.parse make of each Location
            mreplies = []
            bases = []
            locs = {}           # request index -> the Location value as the real response parser delivered it
            li = 0
            for k in range(len(script.log)):
                rep = replies[k] if k < len(replies) else {'status': 200, 'mode': 'resp'}
                if rep.get('mode', 'resp') == 'endless-1xx':
                    if li < len(loads):
                        li += 1
                    mreplies.append((100, False, 0, None))
                    bases.append(None)
                    continue
                if rep.get('mode', 'resp') != 'resp':
                    mreplies.append((0, False, 3 if rep['mode'] == 'close' else 4, None))
                    bases.append(None)
                    continue
                if li < len(loads):
                    st, loc, base = loads[li]
                    li += 1
                else:
                    # the response never reached the tracker (the session was cut while still reading): take it from the script
                    _p, _m, _target, _v, _fields = split_request(script.log[k][2])
                    _hostv = [v for n, v in _fields if n.lower() == 'host']
                    st = rep['status']
                    loc = rep['location'].decode('latin-1').strip() if rep.get('location') is not None else None
                    base = 'http://%s%s' % (_hostv[0] if _hostv else 'unknown.invalid', _target.decode('latin-1'))
                bases.append(base)
                locs[k] = loc
                kind, c = 0, None
                if loc:
                    try:
                        joined = wpull.url.urljoin(base, loc)
                        k2, info = parse_url(joined)
                    except ValueError:
                        k2, info = 'invalid', None
                    if k2 == 'url':
                        kind, c = 2, urlc(info)
                    elif k2 == 'other':
                        kind = 1
                mreplies.append((st, bool(loc), kind, c))
            hops = [(resolver.host_of(ip) or ip, port, head, bd) for ip, port, head, bd in script.log]
            for f in script.feeders:
                f.cancel()
            return {'hops': hops, 'outcome': outcome, 'last': last, 'consumed': consumed_bytes(script),
                    'answers': list(jar.answers) if jar is not None else [],
                    'mreplies': mreplies, 'bases': bases, 'locs': locs, 'init_pairs': init_pairs, 'init_url': init_url,
                    'conns': len(net.conns)}
    with watchdog(25) as wd:
        res = compat.run(go())
    if wd.fired:
        # the visit span inside one callback: report what was on the wire so far
        from wpull.url import URLInfo
        script = holder.get('script')
        hops = [(ip, port, head, bd) for ip, port, head, bd in (script.log if script else [])]
        return {'hops': hops, 'outcome': 'spinning', 'last': 0, 'consumed': [], 'answers': [], 'mreplies': [], 'bases': [], 'locs': {},
                'init_pairs': [], 'init_url': URLInfo.parse(url), 'conns': 0}
    return res


def consumed_bytes(script):
    """per logged request: how many bytes of what the server offered on that connection the client took"""
    out = []
    for c in script.conns:
        out.append(len(c.sent) - len(c.reader._buffer))
    return out


def classify(e):
    import wpull.errors as we
    for cls, name in ((we.ProtocolError, 'ProtocolError'), (we.NetworkTimedOut, 'NetworkError'),
                      (we.NetworkError, 'NetworkError'), (AssertionError, 'AssertionError'),
                      (UnicodeEncodeError, 'UnicodeEncodeError'), (ValueError, 'ValueError')):
        if isinstance(e, cls):
            return name
    return type(e).__name__


def session_line(res, max_redirects, use_jar, factory_pairs, login, method, proxy=False, op='session', tries=None):
    toks = ['request', op]
    if tries is not None:
        toks.append(str(tries))
        toks.append(enc(res.get('rejects', [])))
        rb = res.get('robots')
        toks.append('off' if not rb else ('disallow' if rb.get('disallow') else 'allow'))
        toks.append(str(len(res.get('rmreplies', []))))
        for st, hl, kind, c in res.get('rmreplies', []):
            toks.append('%d:%d:%d' % (st, 1 if hl else 0, kind))
            toks.append(url_token(c) if c is not None else '~')
    flags = ('T' if proxy else 'F') + {'--retry-connrefused': 'c', '--retry-dns-error': 'd'}.get(res.get('retry'), '')
    toks += [str(max_redirects), flags, 'T' if use_jar else 'F', fields_token(factory_pairs),
             enc(method), fields_token(res['init_pairs']), enc((login or ('', ''))[0] or ''),
             enc((login or ('', ''))[1] or ''), url_token(urlc(res['init_url'])),
             enc_lists([(a or '') for a in res['answers']])]
    for st, hl, kind, c in res['mreplies']:
        toks.append('%d:%d:%d' % (st, 1 if hl else 0, kind))
        toks.append(url_token(c) if c is not None else '~')
    return ' '.join(toks)


def parse_session_reply(rep):
    parts = rep.split(' ')
    if len(parts) != 5:
        return rep, None, None
    hops = [] if parts[2] == '~' else [dec_bytes(t) for t in parts[2].split('/')]
    parse_session_reply.counts = (int(parts[3]), int(parts[4]))
    return parts[0], int(parts[1]), hops


def decode_basic(value):
    if not value.lower().startswith('basic '):
        return None
    try:
        raw = base64.b64decode(value[6:]).decode('utf-8', 'replace')
    except Exception:
        return None
    return raw          # 'user:password' (either part may itself hold a colon: compare whole strings)


# ------------------------------------------------------------------ end-to-end: the real application over fakenet
class CheckOutCap(Exception):
    """more check-outs than any terminating crawl of the case can make: the run is cut"""


def model_replies(log, replies, loads_iter):
    """model parameters for the responses to the logged requests (what urljoin + URLInfo.parse make of each Location)"""
    import wpull.url
    out = []
    for k in range(len(log)):
        rep = replies[k] if k < len(replies) else {'status': 200, 'mode': 'resp'}
        if rep.get('mode', 'resp') == 'cutbody':
            # the header was processed (the tracker saw it), then the download failed: for the visit that is a
            # REMOTE_ERRORS exception after the request, like a reset
            next(loads_iter, None)
            out.append((0, False, 3, None))
            continue
        if rep.get('mode', 'resp') == 'endless-1xx':
            # the first interim response is handed on as a body-less response with status 100
            next(loads_iter, None)
            out.append((100, False, 0, None))
            continue
        if rep.get('mode', 'resp') == 'endless-headers':
            out.append((0, False, 4, None))          # 'Header too big.' (ProtocolError)
            continue
        if rep.get('mode', 'resp') != 'resp':
            out.append((0, False, 3 if rep['mode'] == 'close' else 4, None))
            continue
        try:
            st, loc, base = next(loads_iter)
        except StopIteration:
            # the response was not seen by the RedirectTracker the application was configured with (a client built
            # with another tracker): take status / Location from the script and the URL from the request head
            _p, _m, target, _v, fields = split_request(log[k][2])
            hostv = [v for n, v in fields if n.lower() == 'host']
            st = rep['status']
            loc = rep['location'].decode('latin-1').strip() if rep.get('location') is not None else None
            base = 'http://%s%s' % (hostv[0] if hostv else 'unknown.invalid', target.decode('latin-1'))
        kind, c = 0, None
        if loc:
            try:
                k2, info = parse_url(wpull.url.urljoin(base, loc))
            except ValueError:
                k2, info = 'invalid', None
            if k2 == 'url':
                kind, c = 2, urlc(info)
            elif k2 == 'other':
                kind = 1
        out.append((st, bool(loc), kind, c))
    return out


def run_crawl(url, replies, tries, max_redirects, login=None, timeout=20, robots=None, cap=None, host_fail=None, retry=None,
              extra_argv=(), recursive=False, on_request=None, on_event=None, tls_passthrough=False, req_cap=None,
              more_urls=(), concurrency=1, by_path=None, hooks=None):
    """Builder(args).build().run() of the REAL application (pipeline, URL table, processor, rules,
    filters, web client) against the scripted servers.  Returns the visits of `url` as seen at the
    URL table: [(requests issued during the visit, status after, try_count after)], plus the
    server log and the model parameters for each response."""
    import shutil
    import tempfile
    import wpull.url
    from wpull.application.builder import Builder
    from wpull.application.options import AppArgumentParser
    from wpull.database.wrap import URLTableHookWrapper
    from wpull.protocol.http.redirect import RedirectTracker

    script = Script(replies, robots_replies=(robots['replies'] if robots else None))
    script.by_path = by_path
    loads = []

    class EventList(list):
        def append(self, ev):
            list.append(self, ev)
            if on_event:
                on_event(ev)
    events = EventList()
    resolvers = []
    if cap is None:
        # a terminating crawl of ONE url makes at most tries+1 check-outs (tries >= 1); with tries = 0 every
        # visit that is offered again consumed a scripted reply
        cap = (tries + 4) if tries >= 1 else (len(replies) + len(robots['replies'] if robots else []) + 6)
        cap = cap * (1 + len(more_urls))
    capped = [False]
    spinning = [False]
    if req_cap is None:
        # no terminating crawl of one URL sends more: (tries+1) visits x (2*(max_redirects+1) requests, twice for robots.txt)
        req_cap = (max(tries, 1) + 2) * 4 * (max_redirects + 2) + len(replies) + 20

    def _on_request(k, head):
        if k > req_cap:
            capped[0] = True
        if on_request:
            on_request(k, head)
    script.on_request = _on_request

    class LogTracker(RedirectTracker):
        def load(self, response):
            loads.append((response.status_code, response.fields.get('location'), response.request.url_info.url))
            super().load(response)

    class LogTable(URLTableHookWrapper):
        def check_out(self, filter_status, filter_level=None):
            rec = super().check_out(filter_status, filter_level)
            if len([e for e in events if e[0] == 'out']) >= cap:
                capped[0] = True
                raise CheckOutCap()
            events.append(('out', rec.url, str(rec.status), rec.try_count, len(script.log), len(script.rlog)))
            return rec

        def check_in(self, url, new_status, increment_try_count=True, url_result=None):
            r = super().check_in(url, new_status, increment_try_count=increment_try_count, url_result=url_result)
            rec = self.url_table.get_one(url)
            events.append(('in', url, getattr(rec.status, 'value', str(rec.status)), rec.try_count, len(script.log),
                           bool(increment_try_count), len(script.rlog)))
            return r

    attempts = [0]        # connection attempts that never became a connection (host_fail)

    class Res(NamedResolver):
        def __init__(self, *a, **k):
            super().__init__()
            resolvers.append(self)

        @classmethod
        def new_cache(cls):
            return None

        @asyncio.coroutine
        def resolve(self, host):
            if host_fail == 'dns':
                from wpull.errors import DNSNotFound
                attempts[0] += 1
                raise DNSNotFound('DNS resolution failed: scripted')
            return (yield from NamedResolver.resolve(self, host))

    from wpull.processor.rule import FetchRule
    rejects = []

    class LogFetchRule(FetchRule):
        def check_subsequent_web_request(self, item_session, is_redirect=False):
            verdict, reason = super().check_subsequent_web_request(item_session, is_redirect=is_redirect)
            if not verdict:
                rejects.append(len(script.log))
            return verdict, reason

    net = fakenet.FakeNet()
    net.default = lambda: ScriptServer(script)
    if host_fail == 'refused':
        # nobody listens: every connection attempt of every host is refused
        class RefusingNet(fakenet.FakeNet):
            async def open_connection(self, host=None, port=None, **kwargs):
                attempts[0] += 1
                raise ConnectionRefusedError(111, 'Connection refused')
        net = RefusingNet()
    tmp = tempfile.mkdtemp(prefix='c18-')
    argv = [url] + list(more_urls) + (['--recursive', '--level', '1'] if robots else (['--recursive', '--no-robots'] if recursive else ['--no-robots'])) \
        + list(extra_argv) + ['--tries', str(tries), '--max-redirect', str(max_redirects), '--waitretry', '0',
            '-q', '--directory-prefix', tmp, '--delete-after', '--no-check-certificate', '--html-parser', 'html5lib']
    if login:
        argv += ['--http-user', login[0], '--http-password', login[1]]
    if retry:
        argv.append(retry)
    args = AppArgumentParser().parse_args(argv)
    loop = compat.new_loop()
    exit_code = None
    hung = False
    import wpull.network.connection as _netconn
    _orig_start_tls = _netconn.Connection.start_tls
    if tls_passthrough:
        # stand-in for TLS inside a CONNECT tunnel (no TLS peer in the in-memory network): the same byte stream on a
        # new connection object, so the bytes written into the tunnel can be inspected
        @asyncio.coroutine
        def _passthrough(self, ssl_context=True):
            conn = _netconn.Connection(self._address, hostname=self._hostname)
            conn.reader, conn.writer = self.reader, self.writer
            conn._state = _netconn.ConnectionState.created
            conn._close_timer = _netconn.DummyCloseTimer()
            return conn
        _netconn.Connection.start_tls = _passthrough
    try:
        with net:
            b = Builder(args, unit_test=True)
            b.factory.class_map['Resolver'] = Res
            b.factory.class_map['URLTable'] = LogTable
            b.factory.class_map['RedirectTracker'] = LogTracker
            b.factory.class_map['FetchRule'] = LogFetchRule
            if hooks:
                # scripting hooks connected the way a plugin connects them: {hook name: action name}
                from wpull.processor.rule import ResultRule
                from wpull.application.hook import Actions
                from wpull.application.plugin import PluginFunctions

                class HookedResultRule(ResultRule):
                    def __init__(self, *a, **k):
                        super().__init__(*a, **k)
                        for hname, action in hooks.items():
                            self.hook_dispatcher.connect(getattr(PluginFunctions, hname),
                                                         (lambda *args, _a=action: getattr(Actions, _a)))
                b.factory.class_map['ResultRule'] = HookedResultRule
            app = b.build()
            if concurrency != 1:
                # `--concurrent` is parsed but never applied in this tree: the workers are set on the pipeline series
                b.factory['PipelineSeries'].concurrency = concurrency

            async def go():
                task = asyncio.ensure_future(compat._ensure(app.run()))
                t0 = loop.time()
                while True:
                    done, _ = await asyncio.wait([task], timeout=0.05)
                    if done:
                        return task.result()
                    if capped[0] or loop.time() - t0 > timeout:
                        # runaway crawl (check-out cap) or hang: cut it, do not wait for the application
                        task.cancel()
                        try:
                            await asyncio.wait([task], timeout=2)
                        except Exception:
                            pass
                        if not capped[0]:
                            raise asyncio.TimeoutError()
                        return None
            try:
                with watchdog(timeout + 15) as wd:
                    exit_code = loop.run_until_complete(go())
                spinning[0] = wd.fired
            except asyncio.TimeoutError:
                hung = True
            except CheckOutCap:
                pass
            except Exception:
                if not capped[0]:
                    raise
    finally:
        try:
            pending = [t for t in asyncio.all_tasks(loop) if not t.done()]
            for t in pending:
                t.cancel()
            if pending:
                loop.run_until_complete(asyncio.gather(*pending, return_exceptions=True))
        except Exception:
            pass
        loop.close()
        asyncio.set_event_loop(None)
        shutil.rmtree(tmp, ignore_errors=True)
        _netconn.Connection.start_tls = _orig_start_tls
    visits = []
    start = None
    for ev in events:
        if ev[0] == 'out':
            start = ev
        elif ev[0] == 'in' and start is not None:
            visits.append({'requests': ev[4] - start[4], 'robots_requests': ev[6] - start[5], 'status': ev[2],
                           'try_count': ev[3], 'incremented': ev[5], 'try_before': start[3]})
            start = None
    from urllib.parse import urlsplit
    if robots:
        rloads = iter([l for l in loads if urlsplit(l[2]).path == '/robots.txt'])
        ploads = iter([l for l in loads if urlsplit(l[2]).path != '/robots.txt'])
    else:
        rloads, ploads = iter([]), iter(loads)
    mreplies = model_replies(script.log, replies, ploads)
    rmreplies = model_replies(script.rlog, robots['replies'], rloads) if robots else []
    if host_fail:
        # no request ever reaches a server: the model gets "no connection" for every attempt
        mreplies = [(0, False, 5 if host_fail == 'refused' else 6, None)] * (max(tries, 1) + 4)
    from wpull.url import URLInfo
    def name_of(ip):
        for r in resolvers:
            h = r.host_of(ip)
            if h:
                return h
        return ip
    named = [(name_of(ip), port, head, bd) for ip, port, head, bd in script.log]
    connects = [(name_of(ip), port, head) for ip, port, head in script.connects]
    return {'visits': visits, 'events': list(events), 'hops': list(script.log), 'named_hops': named, 'tunnels': list(script.tunnels),
            'connects': connects, 'consumed': consumed_bytes(script), 'mreplies': mreplies, 'exit': exit_code,
            'hung': hung or spinning[0], 'spinning': spinning[0], 'capped': capped[0], 'checkouts': len([e for e in events if e[0] == 'out']),
            'rhops': list(script.rlog), 'rmreplies': rmreplies, 'robots': robots, 'retry': retry, 'attempts': attempts[0],
            'rejects': rejects, 'answers': [], 'init_pairs': [], 'init_url': URLInfo.parse(url)}


def crawl_in_child(logpath, kill_at, **kw):
    """run_crawl in a forked child that appends what happens to `logpath` (one line per page request, check-out,
    check-in) and, with `kill_at` = k, dies (os._exit) when the k-th page request of this run has arrived and is not
    yet answered — a crash while an attempt is in flight.  Returns the child's exit status."""
    import os
    pid = os.fork()
    if pid == 0:
        code = 0
        try:
            fd = os.open(logpath, os.O_WRONLY | os.O_APPEND | os.O_CREAT, 0o600)
            try:
                nul = os.open(os.devnull, os.O_WRONLY)
                os.dup2(nul, 2)
                os.dup2(nul, 1)
            except OSError:
                pass

            def on_request(k, head):
                os.write(fd, b'req %d\n' % k)
                if kill_at is not None and k == kill_at:
                    os.write(fd, b'killed\n')
                    os._exit(9)

            def on_event(ev):
                if ev[0] == 'out':
                    os.write(fd, ('out %s %d\n' % (ev[2], ev[3])).encode())
                else:
                    os.write(fd, ('in %s %d\n' % (ev[2], ev[3])).encode())
            res = run_crawl(on_request=on_request, on_event=on_event, **kw)
            os.write(fd, ('end capped=%d hung=%d\n' % (1 if res['capped'] else 0, 1 if res['hung'] else 0)).encode())
        except BaseException as e:     # noqa
            try:
                os.write(fd, ('crash %s\n' % type(e).__name__).encode())
            except Exception:
                pass
            code = 3
        os._exit(code)
    _, status = os.waitpid(pid, 0)
    return status
