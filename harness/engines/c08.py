"""C08 — HTTP/1.1 responses are delimited per RFC 7230 whatever the segmentation.

Streams (model `Wpull.HttpWire` vs the real code in the wpull tree under test):
  py       Python primitives the reader relies on (str.title/strip/splitlines, int(), the
           status-line regex, NameValueRecord.parse, get_read_strategy)      function level
  sr       asyncio.StreamReader read/readline over fed segments              function level
  decode   lock-step co-simulation: the REAL Stream.read_response + read_body over
           fakenet with a segment-by-segment feeder; every Connection.read(n)/readline()
           is logged, the model replays the exchange from the byte stream + the logged
           read sizes and must make the same calls and end in the same
           (status, fields, body, error class, consumed, closed, notified)
  session  also with the client WIRED BY THE APPLICATION (argv -> AppArgumentParser -> Builder ->
           NetworkSetupTask + ClientSetupTask; expectations follow from the options on the command
           line) and through WebClient / WebSession with duration_timeout None / 30 / ...
  leave    the REAL Client + ConnectionPool with sessions that are not completed (header only,
           left by exception, aborted) while the rest of the response is still on its way
  onestream several exchanges through ONE Stream object: content-coded, bodiless, identity  oracle only
  timeout  ONE Connection(timeout=...) object through stalls (read timeout), closes and
           reconnects: a stall ends in NetworkTimedOut, later exchanges are unaffected
  session  the REAL Client/Session on a reactive server (response k+1 is sent only after
           request k+1 arrived), sequences of exchanges on persistent connections
Oracles (independent of the model): segmentation independence of the real outputs;
an independent RFC 7230 reference decoder + the generator's own knowledge of what the
server meant (status, payload, message length); truncation => error; no body where the
protocol forbids one; surplus never reaches the next response.
"""
import asyncio
import glob
import json
import os

import compat  # noqa: F401
import fakenet
from runner import enc, Infra, unjson
from engines import http_common as H

RULE = ('decode: grammar-generated responses (status codes incl. 1xx/204/304, HEAD, header spellings / case / folding / '
        'LF-only / duplicates / latin-1 bytes, Content-Length, chunked with extensions, hex spellings and trailers, '
        'read-until-close, invalid lengths, content codings, byte mutations, over-long heads) x Stream options '
        '(keep_alive x ignore_length, all four, every message) x variants '
        '(complete, complete+surplus, truncated at a random / every position, peer keeps the connection open) x '
        'segmentations (none, random, every single cut, all single bytes); session: sequences of 2-5 such messages on a '
        'reactive server; timeout: 15 plans on one Connection(timeout) object (stall / ok / Connection: close / until-close / second stall). '
        'non-trivial = a response head was at least attempted (non-empty stream); distinct by '
        '(stream bytes, eof, request, options, segmentation)')
TRUSTED = ['asyncio.StreamReader read/readline semantics are mirrored (differential stream "sr")',
           'CPython str/bytes/int/re primitives are mirrored (differential stream "py")',
           'harness/fakenet.py in-memory transports',
           'the content decoder (zlib; property C19) is a parameter: its logged results are replayed by the model']
ASSUMPTIONS = ['header text is latin-1 (code points < 256); request methods are ASCII',
               'Stream.read_body is called with raw=False (Session.download default)',
               'TLS and the kernel are outside the model; the model has no clock: a blocked read is "stalled", which the timeout '
               'stream equates with NetworkTimedOut of a Connection that has a read timeout (real time: 0.12 s timer, repeated at 3x '
               'before a well-formed exchange that timed out counts as a failure)']
UNPROVED = ["at EOF the reader never keeps waiting, i.e. the non-success of truncation_is_error is an *error* (oracle kind truncation-blocks checks it on the real code; the theorem shows: never a success)"]


# ------------------------------------------------------------------ py stream
def stream_py(ctx, n):
    import re
    from wpull.namevalue import NameValueRecord
    from wpull.protocol.http.request import Response
    from wpull.protocol.http.stream import Stream
    rng = ctx.subrng('py')
    alpha = [chr(c) for c in range(256)]
    special = list("\t\n\x0b\x0c\r\x1c\x1d\x1e\x1f \x85\xa0:-_'aZz09\xb5\xdf\xff\xe9\xc9\xaa\xba\xd7\xf7+xX;,")
    reqs, expect = [], []

    def rs(k=None):
        k = rng.choice([0, 1, 2, 3, 5, 8, 12]) if k is None else k
        return ''.join(rng.choice(special) if rng.random() < 0.7 else rng.choice(alpha) for _ in range(k))
    for c in range(256):
        for s in (chr(c), 'a' + chr(c) + 'b', chr(c) + 'A'):
            reqs.append('http py title ' + enc(s)); expect.append(enc(s.title()))
            reqs.append('http py lower ' + enc(s)); expect.append(enc(s.lower()))
            reqs.append('http py strip ' + enc(s)); expect.append(enc(s.strip()))
            reqs.append('http py splitlines ' + enc(s)); expect.append(H.enc_segs_keep(s.splitlines()))
        b = bytes([c])
        reqs.append('http py bstrip ' + enc(b + b'a' + b)); expect.append(enc((b + b'a' + b).strip()))
    for _ in range(n):
        s = rs()
        reqs.append('http py title ' + enc(s)); expect.append(enc(s.title()))
        reqs.append('http py strip ' + enc(s)); expect.append(enc(s.strip()))
        reqs.append('http py splitlines ' + enc(s)); expect.append(H.enc_segs_keep(s.splitlines()))
        # integers
        body = ''.join(rng.choice('0123456789_+- xXaAfFgb\xa0\x85\x1f\t\xb2') if rng.random() < 0.5 else rng.choice('0123456789')
                       for _ in range(rng.choice([0, 1, 2, 3, 4, 6])))
        if rng.random() < 0.02:
            body = rng.choice(['', '+', '0']) + rng.choice(['1', '0', '1_']) * rng.choice([4299, 4300, 4301, 2150, 2151])
        try:
            v = str(int(body))
        except ValueError:
            v = 'VE'
        reqs.append('http py intdec ' + enc(body)); expect.append(v)
        bb = body.encode('latin-1')
        try:
            v = int(bb, 16)
            v = str(v) if abs(v) < 10 ** 4000 else None
        except ValueError:
            v = 'VE'
        if v is not None:
            reqs.append('http py inthex ' + enc(bb)); expect.append(v)
        # status line
        line = rng.choice([b'HTTP/1.1 200 OK', b'HTTP/1.0\t404  Not Found\r', b'HTTP/1.1 2000 x', b'HTTP/1. 200', b'HTTP/.1 200',
                           b'HTTP/11.22 7', b'http/1.1 200 OK', b'HTTP/1.1200 OK', b'HTTP/1.1 \t 99\tz\ry', b'HTTP/1.1 abc', b''])
        if rng.random() < 0.5:
            l = bytearray(line)
            for _ in range(rng.randrange(1, 3)):
                if l:
                    l[rng.randrange(len(l))] = rng.choice(b' \t\r.0123456789/HTP\xe9')
            line = bytes(l)
        try:
            ver, code, reason = Response.parse_status_line(line)
            v = '%s %d %s' % (enc(ver), code, enc(reason))
        except ValueError:
            v = 'none'
        reqs.append('http py status ' + enc(line)); expect.append(v)
        # field block
        lines = []
        for _ in range(rng.choice([0, 1, 2, 3, 4])):
            r = rng.random()
            if r < 0.5:
                lines.append(rng.choice(['content-length', 'Transfer-Encoding', 'x-a', 'X-A', 'conTent-lengtH', "o'x", 'a1b', '\xe9a-\xdfb'])
                             + rng.choice([':', ': ', ' : ', ':\t']) + rs(3))
            elif r < 0.7:
                lines.append(rng.choice([' ', '\t']) + rs(3))
            elif r < 0.85:
                lines.append(rs(4))
            else:
                lines.append(rng.choice(['Transfer-Encoding: ', 'transfer-encoding:']) +
                             rng.choice(['chunked', 'Chunked', 'gzip, chunked', 'chunked, gzip', 'chunked;a=b', ';chunked', 'chunked,',
                                         ',', 'gzip,\xa0CHUNKED', 'chunkedx', 'x chunked', '']))
        text = ''.join(l + rng.choice(['\r\n', '\n', '\r', '\x85', '\r\n']) for l in lines)
        for strict in (False, True):
            rec = NameValueRecord(encoding='latin-1')
            try:
                rec.parse(text, strict=strict)
                flat = []
                for nn, vv in rec.get_all():
                    flat += [enc(nn), enc(vv)]
                v = '/'.join(flat) if flat else '~'
            except ValueError:
                v = 'VE'
            reqs.append('http py fields %s %s' % ('T' if strict else 'F', enc(text))); expect.append(v)
        resp = Response()
        resp.fields.parse(text, strict=False)
        reqs.append('http py strategy ' + enc(text)); expect.append(Stream.get_read_strategy(resp))
    # is_no_body over every status code x request method: the model's no-body set is a definition
    # (HEAD, 1xx, 204, 304), the theorems mention it, this ties it to the code
    from wpull.protocol.http.stream import is_no_body
    from wpull.protocol.http.request import Request
    for method in ('GET', 'HEAD', 'head', 'Head', 'POST', 'HEADER', 'HEA', 'PUT'):
        request = Request('http://h/', method=method)
        for code in range(100, 600):
            reqs.append('http py nobody %s %d' % (enc(method), code))
            expect.append('T' if is_no_body(request, Response(status_code=code, reason='x')) else 'F')
    got = ctx.model.ask(reqs)
    for q, e, g in zip(reqs, expect, got):
        if e != g:
            ctx.disagree('py', {'request': q}, g, e)
    ctx.case(('py', ctx.seed, n), tags=['py:batch'])
    ctx.tag('py:lines', len(reqs))


# ------------------------------------------------------------------ sr stream
def real_sr(ops):
    async def go():
        r = asyncio.StreamReader(limit=2 ** 16)
        outs = []
        for op in ops:
            if op[0] == 'F':
                r.feed_data(op[1]); outs.append('.')
            elif op[0] == 'E':
                r.feed_eof(); outs.append('.')
            else:
                coro = r.read(op[1]) if op[0] == 'R' else r.readline()
                t = asyncio.ensure_future(coro)
                for _ in range(3):
                    await asyncio.sleep(0)
                if not t.done():
                    t.cancel()
                    try:
                        await t
                    except BaseException:
                        pass
                    outs.append('B')
                    continue
                try:
                    outs.append('d' + enc(t.result()))
                except ValueError:
                    outs.append('V')
                    return outs, True
        return outs, False
    return H.arun(go())


def stream_sr(ctx, n):
    rng = ctx.subrng('sr')
    reqs, reals = [], []
    for _ in range(n):
        ops = []
        for _ in range(rng.randrange(1, 9)):
            r = rng.random()
            if r < 0.4:
                k = rng.choice([1, 2, 3, 5, 10, 100]) if rng.random() < 0.97 else rng.choice([65535, 65536, 65537, 70000])
                ops.append(('F', bytes(rng.choice(b'ab\n\r') if k < 1000 else 97 for _ in range(k))))
            elif r < 0.5:
                ops.append(('E',))
            elif r < 0.75:
                ops.append(('R', rng.choice([1, 2, 3, 4096])))
            else:
                ops.append(('L',))
        if any(o[0] == 'E' for o in ops):
            i = max(i for i, o in enumerate(ops) if o[0] == 'E')
            ops = [o for j, o in enumerate(ops) if not (o[0] == 'F' and j > i)]   # feed_data after feed_eof is illegal
            seen = False
            tmp = []
            for o in ops:
                if o[0] == 'E':
                    if seen:
                        continue
                    seen = True
                tmp.append(o)
            ops = tmp
            # no feed after the (single) eof
            k = [j for j, o in enumerate(ops) if o[0] == 'E'][0]
            ops = [o for j, o in enumerate(ops) if not (o[0] == 'F' and j > k)]
        outs, cut = real_sr(ops)
        ops = ops[:len(outs)]
        tok = ','.join('E' if o[0] == 'E' else 'L' if o[0] == 'L' else ('R%d' % o[1]) if o[0] == 'R' else 'F' + enc(o[1])
                       for o in ops)
        reqs.append('http sr ' + (tok or '~'))
        reals.append(','.join(outs))
    got = ctx.model.ask(reqs)
    for q, e, g in zip(reqs, reals, got):
        ctx.case(('sr', q), tags=['sr'])
        if e != g:
            ctx.disagree('sr', {'request': q}, g, e)


# ------------------------------------------------------------------ decode stream
def variants(rng, m, thorough):
    """(tag, data, eof) variants of a generated message."""
    msg = m.message
    out = []
    until_close = m.framing == 'close'
    out.append(('complete', msg, True if until_close else rng.random() < 0.4))
    if not until_close and rng.random() < 0.35:
        surplus = rng.choice([b'X', b'\r\n', b'HTTP/1.1 200 OK\r\nContent-Length: 1\r\n\r\nQ', b'\x00' * 5000, b'0\r\n\r\n'])
        out.append(('surplus', msg + surplus, rng.random() < 0.5))
    if len(msg) > 1:
        cuts = {rng.randrange(0, len(msg))}
        if rng.random() < 0.5:
            cuts.add(len(m.head) + rng.randrange(0, max(1, len(m.framed))))
            cuts.add(max(0, len(m.head) - rng.randrange(1, 4)))
            cuts.add(max(0, len(msg) - rng.randrange(1, 6)))
        for c in sorted(cuts)[:(4 if thorough else 2)]:
            if c < len(msg):
                out.append(('truncated', msg[:c], rng.random() < 0.8))
                if rng.random() < 0.6:
                    out.append(('truncated', msg[:c], 'reset'))      # the peer's RST instead of its FIN
    # ... and a reset right after the complete message: harmless for a self-delimiting one, an
    # error for one that is delimited by the close
    if rng.random() < 0.4:
        out.append(('complete', msg, 'reset'))
    return out


def cutsets(rng, n, thorough):
    cs = [[]]
    if 1 < n <= 400:
        cs.append(list(range(1, n)))
    k = 3 if thorough else 2
    for _ in range(k):
        if n <= 1500:
            cs.append(fakenet.random_cuts(rng, n, rng.choice(['one', 'few', 'many'])))
        else:
            # long streams: a few dozen cuts, some of them right at the 4096-byte read boundaries
            c = set(rng.sample(range(1, n), min(n - 1, rng.choice([1, 3, 12, 40]))))
            if rng.random() < 0.5:
                c |= {x for x in (4095, 4096, 4097, 8192) if 0 < x < n}
            cs.append(sorted(c))
    return cs


def check_relaxed(ctx, case, m, tag, data, eof, x):
    """ignore_length on a Content-Length message: the body is delimited by the peer's close
    (the one thing the option may change); everything else still holds."""
    if tag == 'truncated':
        if len(data) < len(m.head) and x.outcome == 'ok':
            ctx.fail('truncation-accepted', 'read_response', case, 'a head cut short was accepted')
        return
    if not eof:
        return          # read-until-close needs the close; waiting is right
    ref = H.ref_decode(data, m.method, ignore_length=True)
    if ref.kind != 'complete' or not ref.until_close or ref.payload != data[len(m.head):]:
        raise Infra('reference decoder: ignore_length on a length-framed message must read until close')
    if x.outcome != 'ok':
        if m.coding and x.outcome == 'exc':
            return      # content decoder met the surplus / bad data (C19)
        ctx.fail('complete-message-blocks' if x.outcome == 'stalled' else 'complete-message-error', 'read_body', case,
                 'ignore_length: a message closed by the peer ended %s %s' % (x.outcome, x.exc))
        return
    if x.status[1] != m.code:
        ctx.fail('wrong-status', 'parse_status_line', case, 'status %r, server sent %d' % (x.status, m.code))
    if m.coding is None and x.body != ref.payload:
        ctx.fail('wrong-body', 'read_body', case, 'ignore_length: body %r..(%d bytes), bytes up to the close are %r..(%d bytes)'
                 % (x.body[:60], len(x.body), ref.payload[:60], len(ref.payload)))
    if b''.join(x.notified) != data:
        ctx.fail('notified-not-message', 'notify_read', case, 'listener data is not exactly the bytes up to the close')
    if x.consumed != len(data):
        ctx.fail('consumed-not-message-length', 'read_body', case, 'consumed %d of %d bytes' % (x.consumed, len(data)))


def check_reset(ctx, case, m, tag, data, x, opts):
    """The peer ended with a reset (ECONNRESET), not with an orderly close.  A reset is never an
    end of message: success only if the message was complete by its own framing before it."""
    mlen = len(m.message)
    nobody = m.framing == 'none'
    until_close = not nobody and (m.framing == 'close' or H.relaxed_by_options(m, opts))
    if not m.wf and 'badlength' not in m.tags:
        return
    if 'badlength' in m.tags:
        until_close = not (m.method == 'HEAD' or 100 <= m.code < 200 or m.code in (204, 304))
        if not until_close or tag != 'complete' or len(data) < len(m.head):
            return
    if tag == 'truncated' and len(data) >= (len(m.head) if nobody else mlen):
        return
    complete_by_framing = tag in ('complete', 'surplus') and not until_close
    if complete_by_framing:
        if x.outcome != 'ok' and not (m.coding == 'gzip-bad' and x.outcome == 'exc'):
            ctx.fail('complete-message-error', 'read_body', case, 'a complete self-delimiting message followed by a reset ended %s %s'
                     % (x.outcome, x.exc))
        elif x.outcome == 'ok':
            want = m.payload if m.coding is None else H.one_shot_decode(m.coding, m.payload)
            if want is not None and x.body != want:
                ctx.fail('wrong-body', 'read_body', case, 'body %r.. (%d bytes), payload %r.. (%d bytes)' % (x.body[:40], len(x.body), want[:40], len(want)))
        return
    # the stream stops short of a complete message (or is delimited by a close that never came)
    if x.outcome == 'ok':
        ctx.fail('reset-accepted', 'run_network_operation', case,
                 'the peer reset the connection after %d bytes of a %s-delimited response (%s); reported as a successful download of %d bytes'
                 % (len(data), 'close' if until_close else m.framing, 'stream cut short' if tag == 'truncated' else 'no close ever came', len(x.body)))
    elif x.outcome == 'stalled':
        ctx.fail('truncation-blocks', 'read_body', case, 'the peer reset the connection after %d bytes but the reader still waits' % len(data))


def check_one(ctx, m, tag, data, eof, segs, x, cache, opts=(True, False)):
    """Direct property oracle on the real outcome `x` of one (stream, segmentation, options)."""
    case = {'stream': 'decode', 'msg': m.case(), 'variant': tag, 'data': data, 'eof': eof, 'segs': segs,
            'opts': list(opts)}
    # (1) segmentation independence
    key = (data, eof, m.method, m.version, tuple(opts))
    obs = (x.key(), b''.join(x.notified) if x.outcome == 'ok' else None)
    prev = cache.setdefault(key, (segs, obs))
    if prev[1] != obs:
        c = dict(case)
        c['segs_b'] = prev[0]
        ctx.fail('segmentation-dependent', 'read_body', c,
                 'outcome differs between two segmentations of one byte stream: %r vs %r' % (str(prev[1])[:300], str(obs)[:300]))
    if eof == 'reset':
        check_reset(ctx, case, m, tag, data, x, opts)
        return
    if 'bighead-framed' in m.tags:
        # exact payload or error - never a success with anything else, never a wait for a close
        # the header block does not ask for
        want = m.payload if m.coding is None else H.one_shot_decode(m.coding, m.payload)
        if x.outcome == 'ok' and x.body != want:
            ctx.fail('wrong-body', 'read_response', case, 'a %d byte header block with its framing / coding field after the 32 KiB mark: '
                     'reported as a success with a body of %d bytes (%r..), the complete header block delimits %r'
                     % (len(m.head), len(x.body), x.body[:30], want[:30]))
        elif x.outcome == 'stalled':
            ctx.fail('complete-message-blocks', 'read_response', case, 'a complete message with a %d byte header block: the reader waits '
                     'for more (its framing field lies after the 32 KiB mark)' % len(m.head))
        return
    if not m.wf:
        return
    ref = H.ref_decode(m.message, m.method)
    if ref.kind != 'complete' or ref.length != len(m.message) or ref.payload != m.payload or ref.code != m.code:
        raise Infra('generator and reference decoder disagree on a well-formed message: %r' % (m.case(),))
    mlen = len(m.message)
    if H.relaxed_by_options(m, opts):
        check_relaxed(ctx, case, m, tag, data, eof, x)
        return
    # from here on the options must make no difference to what is delimited (keep_alive only
    # decides about closing afterwards; ignore_length only concerns Content-Length framing)
    if tag in ('complete', 'surplus'):
        if x.outcome != 'ok':
            if m.coding in ('gzip-bad',) and x.outcome == 'exc':
                return
            if x.outcome == 'stalled':
                ctx.fail('complete-message-blocks', 'read_body', case,
                         'a complete %s-framed message did not finish (the reader waits for more): %r' % (m.framing, data[:200]))
            else:
                ctx.fail('complete-message-error', 'read_body', case, 'complete message raised %s' % x.exc)
            return
        if x.status[1] != m.code:
            ctx.fail('wrong-status', 'parse_status_line', case, 'status %r, server sent %d' % (x.status, m.code))
        want = m.payload if m.coding is None else H.one_shot_decode(m.coding, m.payload)
        if want is not None and x.body != want:
            kind = 'body-where-forbidden' if m.framing == 'none' else 'wrong-body'
            ctx.fail(kind, 'read_body', case, 'body %r..(%d bytes), payload delimited by the framing rules is %r..(%d bytes)'
                     % (x.body[:60], len(x.body), want[:60], len(want)))
        if b''.join(x.notified) != data[:mlen]:
            ctx.fail('notified-not-message', 'notify_read', case, 'listener data (%d bytes) is not exactly the message (%d bytes)'
                     % (len(b''.join(x.notified)), mlen))
        if tag == 'complete':
            if x.consumed != mlen:
                ctx.fail('consumed-not-message-length', 'read_body', case, 'consumed %d of a %d byte message' % (x.consumed, mlen))
        else:
            if x.consumed < mlen or (x.consumed > mlen and not x.closed):
                ctx.fail('surplus-kept', 'read_body', case, 'consumed %d (message %d) closed=%s' % (x.consumed, mlen, x.closed))
    elif tag == 'truncated' and m.framing in ('length', 'chunked', 'none'):
        # strict prefix of a complete, self-delimiting message
        if x.outcome == 'ok':
            ctx.fail('truncation-accepted', 'read_body', case,
                     'a message cut after %d of %d bytes was reported as a successful download (body %d bytes)'
                     % (len(data), mlen, len(x.body)))
        elif eof and x.outcome == 'stalled':
            ctx.fail('truncation-blocks', 'read_body', case, 'peer closed after %d of %d bytes but the reader still waits' % (len(data), mlen))
    elif tag == 'truncated' and m.framing == 'close' and m.coding in ('gzip', 'deflate', 'raw-deflate') \
            and len(m.head) < len(data) < mlen and eof:
        # read-until-close has no framing to notice the cut, but the content coding has: the
        # coded stream does not reach its end
        if x.outcome == 'ok':
            ctx.fail('truncation-accepted', 'read_body', case,
                     'a %s-coded close-delimited body cut after %d of %d bytes was reported as a successful download '
                     '(body %d bytes)' % (m.coding, len(data) - len(m.head), len(m.framed), len(x.body)))
    elif tag == 'truncated' and m.framing == 'close' and len(data) < len(m.head):
        if x.outcome == 'ok':
            ctx.fail('truncation-accepted', 'read_response', case, 'a head cut short was accepted')


def stream_decode(ctx, items, thorough, cache=None):
    """items: list of (Msg, tag, data, eof, [cut lists]) or (…, (keep_alive, ignore_length))"""
    cache = {} if cache is None else cache
    runs = []
    for item in items:
        m, tag, data, eof, css = item[:5]
        opts = tuple(item[5]) if len(item) > 5 else (True, False)
        for cuts in css:
            segs = fakenet.segment(data, cuts)
            x = H.real_stream_exchange(segs, eof, method=m.method, version=m.version,
                                       keep_alive=opts[0], ignore_length=opts[1])
            runs.append((m, tag, data, eof, segs, x, opts))
    lines = [H.model_line(data, eof, H.sched_of(x.calls), x.declog, method=m.method, version=m.version,
                          keep_alive=opts[0], ignore_length=opts[1])
             for m, tag, data, eof, segs, x, opts in runs]
    replies = ctx.model.ask(lines)
    for (m, tag, data, eof, segs, x, opts), rep in zip(runs, replies):
        real = H.fmt_exchange(x)
        tags = ['decode:' + tag, 'decode:out=' + (x.outcome if x.outcome != 'exc' else 'exc:' + x.exc),
                'decode:segs=%s' % ('1' if len(segs) <= 1 else '2-4' if len(segs) <= 4 else '5+'),
                'decode:opts=%s%s/%s' % ('ka' if opts[0] else 'noka', '+il' if opts[1] else '', m.framing)] + \
               ['decode:' + t for t in m.tags] + (['decode:coding'] if m.coding else []) + \
               (['decode:HEAD'] if m.method == 'HEAD' else [])
        ctx.case(('decode', data, eof, m.method, m.version, tuple(segs), opts), nontrivial=len(data) > 0, tags=tags)
        if real != rep:
            ctx.disagree('decode', {'data': data, 'eof': eof, 'segs': segs, 'method': m.method, 'version': m.version,
                                    'opts': list(opts)}, rep[:1500], real[:1500])
        check_one(ctx, m, tag, data, eof, segs, x, cache, opts)
    if runs:
        m, tag, data, eof, segs, x, opts = runs[0]
        ctx.sample({'stream': 'decode', 'variant': tag, 'data': data[:200], 'eof': eof, 'segments': len(segs),
                    'outcome': x.outcome, 'method': m.method})


# ------------------------------------------------------------------ session stream
def gen_sequence(rng, opts=(True, False)):
    """A lock-step sequence: well-formed, self-delimiting messages; some send surplus early.
    With ignore_length a Content-Length message is delimited by the peer's close."""
    exs = []
    for k in range(rng.randrange(2, 6)):
        while True:
            m = H.gen_message(rng, allow_malformed=False)
            if m.wf and m.coding != 'gzip-bad' and len(m.message) < 20000:
                break
        marker = b'<%d:%d>' % (k, rng.randrange(10 ** 6))
        data = m.message
        surplus = b''
        last = False
        if m.framing != 'close' and rng.random() < 0.3:
            surplus = rng.choice([b'X', b'\r\n', b'HTTP/1.1 200 OK\r\nContent-Length: 4\r\n\r\nEVIL', b'junk' * 3])
        eof = m.framing == 'close' or H.relaxed_by_options(m, opts) or rng.random() < 0.15
        segs = fakenet.segment(data, fakenet.random_cuts(rng, len(data)) if len(data) <= 1500 else
                               sorted(rng.sample(range(1, len(data)), rng.choice([0, 1, 3, 12]))))
        if surplus:
            if rng.random() < 0.5 and segs:
                segs[-1] = segs[-1] + surplus     # arrives with the end of the body
            else:
                segs.append(surplus)              # arrives later, before the next request
        exs.append({'segs': segs, 'eof': eof, 'method': m.method, 'version': m.version, 'path': '/p%d' % k,
                    'msg': m, 'surplus': surplus, 'marker': marker})
    # the body file: a fresh buffer; a file that already holds a prefix and stands at its end
    # (-O, --save-headers, --continue); or ONE file object for the whole sequence (-O)
    r = rng.random()
    for e in exs:
        if r < 0.25:
            e['file'] = 'shared'
        else:
            e['file'] = 'prefix' if rng.random() < 0.4 else 'fresh'
            if e['file'] == 'prefix':
                e['file_prefix'] = bytes(rng.choice(b'PREFIX-abc\r\n: 0') for _ in range(rng.choice([1, 2, 7, 40, 5000])))
    return exs


APP_ARGVS = [[], ['--no-http-keep-alive'], ['--ignore-length'], ['--no-http-keep-alive', '--ignore-length'],
             ['--http-compression'], ['--no-http-keep-alive', '--http-compression', '--timeout', '30'],
             ['--read-timeout', '60', '--session-timeout', '120'], ['--no-http-keep-alive', '--no-cookies', '--tries', '2']]


def add_truncations(rng, exs, opts):
    """insert exchanges whose length-delimited response is cut short by the peer"""
    out = []
    for e in exs:
        m = e['msg']
        if m.framing == 'length' and len(m.framed) > 1 and m.coding is None and rng.random() < 0.5:
            cut = len(m.head) + rng.randrange(0, len(m.framed))
            data = m.message[:cut]
            out.append(dict(e, segs=fakenet.segment(data, [len(m.head)] if cut > len(m.head) and rng.random() < 0.5 else []), eof=True,
                            surplus=b'', truncated=True))
        out.append(e)
    for k, e in enumerate(out):
        e['path'] = '/p%d' % k
    return out


def fixed_app_exchanges(opts=(True, False)):
    ok = _mk(b'HTTP/1.1 200 OK\r\nContent-Type: text/plain\r\nContent-Length: 20\r\n\r\n', b'twenty bytes of body')
    five = _mk(b'HTTP/1.1 200 OK\r\nContent-Length: 5\r\n\r\n', b'hello')
    chunked = _mk(b'HTTP/1.1 200 OK\r\nTransfer-Encoding: chunked\r\n\r\n', b'5;x\r\nhello\r\n0\r\nT: 1\r\n\r\n', b'hello', framing='chunked')
    import gzip
    gz = gzip.compress(b'compressed payload')
    coded = _mk(b'HTTP/1.1 200 OK\r\nContent-Encoding: gzip\r\nTransfer-Encoding: chunked\r\n\r\n',
                b'%x\r\n' % len(gz) + gz + b'\r\n0\r\n\r\n', gz, framing='chunked')
    coded.coding = 'gzip'
    mk = lambda m, segs, eof, **kw: dict({'segs': segs, 'eof': eof, 'method': 'GET', 'version': 'HTTP/1.1', 'msg': m, 'surplus': b'',
                                          'marker': b''}, **kw)
    exs = [mk(ok, [ok.message], False),
           mk(ok, [ok.head, b'only8byt'], True, truncated=True),
           mk(five, [five.head, b'hello', b'SURPLUS'], True, surplus=b'SURPLUS'),
           mk(chunked, [chunked.message], False),
           mk(coded, [coded.head, coded.framed], False),
           mk(ok, [ok.message], False)]
    for k, e in enumerate(exs):
        e['path'] = '/p%d' % k
        if H.relaxed_by_options(e['msg'], opts):
            e['eof'] = True         # --ignore-length: the peer's close delimits a Content-Length response
    return exs


def app_sequences(rng, n):
    """(exchanges, options, wiring): the client is built by the application's own set-up tasks from
    a command line; what is expected follows from the options on that command line"""
    out = []
    for argv in APP_ARGVS:
        out.append((fixed_app_exchanges(H.options_of_argv(argv)), None, {'argv': ['http://h/'] + argv}))
    for i in range(n):
        argv = ['http://h/'] + APP_ARGVS[i % len(APP_ARGVS)]
        opts = H.options_of_argv(argv)
        out.append((add_truncations(rng, gen_sequence(rng, opts), opts), None, {'argv': argv}))
    return out


def web_sequences(rng, n):
    """the same exchange families through WebClient / WebSession, with and without a time limit"""
    out = []
    for dt in (None, 30, 1, 120.5):
        exs = [e for e in fixed_app_exchanges() if not e.get('truncated')]
        out.append((exs, (True, False), {'web': True, 'duration_timeout': dt}))
    for i in range(n):
        exs = [e for e in gen_sequence(rng) if not (300 <= e['msg'].code < 400 or e['msg'].code == 401)]
        for k, e in enumerate(exs):
            e['path'] = '/p%d' % k
        if exs:
            wiring = {'web': True, 'duration_timeout': rng.choice([None, 30, 30, 600])}
            if i % 3 == 0:
                wiring['argv'] = ['http://h/'] + rng.choice(APP_ARGVS[:2] + APP_ARGVS[4:])
            out.append((exs, (True, False), wiring))
    return out


def check_sequence(ctx, exs, results, where='Session', opts=(True, False), wiring=None):
    case = {'stream': 'session', 'opts': list(opts), 'wiring': wiring,
            'exchanges': [{'segs': e['segs'], 'eof': e['eof'], 'method': e['method'], 'version': e['version'],
                           'path': e['path'], 'msg': e['msg'].case(), 'surplus': e['surplus'],
                           'file': e.get('file', 'fresh'), 'file_prefix': e.get('file_prefix', b''),
                           'truncated': bool(e.get('truncated'))} for e in exs]}
    how = ''
    if wiring:
        how = ' [client wired by the application from argv %r%s]' % (wiring.get('argv'), ', through WebSession with duration_timeout=%r'
                                                                     % wiring.get('duration_timeout') if wiring.get('web') else '')
    for k, (e, r) in enumerate(zip(exs, results)):
        m, x = e['msg'], r['x']
        if e.get('truncated'):
            # a length-delimited response the peer cut short: an error - unless --ignore-length was
            # given, which is the one option that turns Content-Length framing into read-until-close
            if x.outcome == 'ok' and not H.relaxed_by_options(m, opts):
                ctx.fail('truncation-accepted', where, case, 'exchange %d: the peer sent %d of %d bytes and closed; reported as a successful '
                         'download of %d bytes%s' % (k, len(b''.join(e['segs'])), len(m.message), len(x.body), how))
                return
            continue
        if len(r['requests']) != 1:
            ctx.fail('request-count', where, case, 'exchange %d: %d requests reached the server' % (k, len(r['requests'])))
            return
        if not r['requests'][0].startswith(('%s %s ' % (e['method'], e['path'])).encode()):
            ctx.fail('request-mismatch', where, case, 'exchange %d: server got %r' % (k, r['requests'][0][:80]))
        if x.outcome != 'ok':
            if H.relaxed_by_options(m, opts) and m.coding and x.outcome == 'exc':
                continue        # the content decoder met the surplus (C19); nothing to say about framing
            kind = 'next-response-not-from-first-byte' if k > 0 and exs[k - 1]['surplus'] else 'lockstep-exchange-failed'
            ctx.fail(kind, where, case, 'exchange %d ended %s %s (previous exchange sent %d surplus bytes)'
                     % (k, x.outcome, x.exc, len(exs[k - 1]['surplus']) if k else 0))
            return
        fi = getattr(x, 'fileinfo', None)
        if fi is not None:
            # the caller reads the document from where the download leaves the file
            if fi['pos_after'] != fi['offset']:
                ctx.fail('file-position-not-restored', 'Session.download', case,
                         'exchange %d: the body file stood at offset %d before the download and at %d after it (file mode %s): '
                         'reading from the current position gives %d bytes, the payload has %d'
                         % (k, fi['offset'], fi['pos_after'], e.get('file', 'fresh'), len(x.body), len(m.payload)))
                return
            if fi['data_after'][:fi['offset']] != fi['before'][:fi['offset']]:
                ctx.fail('file-prefix-damaged', 'Session.download', case, 'exchange %d: what the file held before the download changed' % k)
                return
        want = m.payload if m.coding is None else H.one_shot_decode(m.coding, m.payload)
        sent = m.message
        if H.relaxed_by_options(m, opts):
            # ignore_length: everything up to the peer's close belongs to this response
            want = (m.payload + e['surplus']) if m.coding is None else None
            sent = m.message + e['surplus']
        if x.status[1] != m.code or (want is not None and x.body != want):
            kind = 'next-response-not-from-first-byte' if k > 0 and exs[k - 1]['surplus'] else 'wrong-body'
            ctx.fail(kind, where, case, 'exchange %d: status %r body %r.. but the server sent %d / %r..%s'
                     % (k, x.status, x.body[:40], m.code, (want or b'')[:40], how))
            return
        if b''.join(x.notified) != sent:
            ctx.fail('notified-not-message', where, case, 'exchange %d: response data events are not the message bytes' % k)
            return


def stream_session(ctx, seqs):
    """seqs: list of exchange lists or of (exchange list, (keep_alive, ignore_length))"""
    lines, metas = [], []
    flines, fmetas = [], []
    for item in seqs:
        wiring = None
        if isinstance(item, tuple) and len(item) == 3:
            exs, opts, wiring = item
        else:
            exs, opts = item if isinstance(item, tuple) else (item, (True, False))
        if wiring and wiring.get('argv') is not None:
            opts = H.options_of_argv(wiring['argv'])      # what the documented options mean, not what the app built
        opts = tuple(opts)
        results, conns = H.real_session_sequence(exs, keep_alive=opts[0], ignore_length=opts[1], wiring=wiring)
        check_sequence(ctx, exs, results, opts=opts, wiring=wiring)
        toks = []
        for e, r in zip(exs, results):
            x = r['x']
            data = b''.join(e['segs'])
            toks += [enc(e['method']), enc(e['version']), 'T' if e['eof'] else 'F', enc(data),
                     '-' if not H.sched_of(x.calls) else '.'.join('%x' % s for s in H.sched_of(x.calls)),
                     ','.join(('o' + enc(v)) if k == 'ok' else ('e' + v) for k, v in x.declog) or '~']
        lines.append('http session %s %s ' % ('T' if opts[0] else 'F', 'T' if opts[1] else 'F') + ' '.join(toks))
        metas.append((exs, results, opts, wiring))
        for e, r in zip(exs, results):
            fi = getattr(r['x'], 'fileinfo', None)
            if fi is not None and r['x'].outcome == 'ok' and len(fi['before']) + len(r['x'].body) <= 12000:
                flines.append('http file %s %d %s' % (enc(fi['before']), fi['offset'], enc(fi['data_after'][fi['offset']:])))
                fmetas.append((e, '%s %d %s' % (enc(fi['data_after']), fi['pos_after'], enc(r['x'].body))))
    for (e, real), rep in zip(fmetas, ctx.model.ask(flines)):
        if rep != real:
            ctx.disagree('file', {'file': e.get('file'), 'prefix': e.get('file_prefix', b'')}, rep[:400], real[:400])
    replies = ctx.model.ask(lines)
    for (exs, results, opts, wiring), rep in zip(metas, replies):
        parts = rep.split(' || ') if rep != '~' else []
        real_parts = []
        model_parts = []
        for r, p in zip(results, parts):
            idx, _, body = p.partition(':')
            f = body.split(' | ')
            model_parts.append('%s:%s | %s | %s' % (idx, f[0], f[2], f[3]) if len(f) == 4 else p)
            g = H.fmt_exchange_nc(r['x'])
            real_parts.append('%s:%s' % (r['conn'], g))
        ctx.case(('session', tuple((tuple(e['segs']), e['eof'], e['method']) for e in exs), opts),
                 tags=['session:len=%d' % len(exs), 'session:opts=%s%s' % ('ka' if opts[0] else 'noka', '+il' if opts[1] else ''),
                       'session:file=' + '/'.join(sorted({e.get('file', 'fresh') for e in exs})),
                       'session:wiring=' + ('app' if wiring and wiring.get('argv') is not None else 'direct') + ('+web' if wiring and wiring.get('web') else '')]
                 + (['session:surplus'] if any(e['surplus'] for e in exs) else []))
        if len(parts) != len(results) or real_parts != model_parts:
            ctx.disagree('session', {'opts': list(opts), 'wiring': wiring,
                                     'exchanges': [{'segs': e['segs'], 'eof': e['eof'], 'method': e['method']} for e in exs]},
                         [p[:600] for p in model_parts], [p[:600] for p in real_parts])
    if metas:
        ctx.sample({'stream': 'session', 'exchanges': len(metas[0][0]),
                    'connections': [r['conn'] for r in metas[0][1]]})


# ------------------------------------------------------------------ leave stream
LEAVES = {'full': 'D', 'header': 'H', 'raise': 'R', 'abort': 'A'}


def gen_leave_sequence(rng):
    """Lock-step exchanges through the real Client + ConnectionPool where some sessions are not
    completed: only start() is called and the `with` block is left normally, left by an
    exception, or aborted - while the rest of that response is still on its way (the server
    delivers it when the next request reaches it on that connection)."""
    exs = gen_sequence(rng)
    for e in exs:
        m = e['msg']
        e['surplus'] = b''
        r = rng.random()
        e['leave'] = 'full' if r < 0.5 else rng.choice(['header', 'header', 'raise', 'abort'])
        body_segs = fakenet.segment(m.framed, fakenet.random_cuts(rng, len(m.framed)) if len(m.framed) <= 600 else
                                    sorted(rng.sample(range(1, len(m.framed)), 3)))
        if e['leave'] == 'full':
            e['segs'] = fakenet.segment(m.message, fakenet.random_cuts(rng, len(m.message)) if len(m.message) <= 1500 else [])
            e['hold'] = None
        else:
            e['segs'] = [m.head] + body_segs
            e['hold'] = rng.choice([1, 1, 1, 2, len(e['segs'])])    # mostly: only the header block is out when the session is left
            e['hold'] = min(e['hold'], len(e['segs']))
    return exs


def fixed_leave_sequences():
    ok = lambda body: _mk(b'HTTP/1.1 200 OK\r\nContent-Length: %d\r\n\r\n' % len(body), body)
    evil = b'HTTP/1.1 200 OK\r\nContent-Length: 4\r\n\r\nEVIL'
    out = []
    for leave in ('header', 'raise', 'abort'):
        for first in (ok(evil), ok(b'x' * 30),
                      _mk(b'HTTP/1.1 200 OK\r\nTransfer-Encoding: chunked\r\n\r\n', b'5\r\nhello\r\n0\r\n\r\n', b'hello', framing='chunked')):
            for hold in (1, 2):
                exs = []
                for k, (m, lv) in enumerate(((ok(b'zero'), 'full'), (first, leave), (ok(b'after'), 'full'), (ok(b'last'), 'full'))):
                    segs = [m.head, m.framed[:3], m.framed[3:]] if lv != 'full' else [m.message]
                    exs.append({'segs': [x for x in segs if x], 'eof': False, 'method': 'GET', 'version': 'HTTP/1.1', 'path': '/p%d' % k,
                                'msg': m, 'surplus': b'', 'marker': b'', 'leave': lv, 'hold': hold if lv != 'full' else None})
                out.append(exs)
    return out


def stream_leave(ctx, seqs):
    lines, metas = [], []
    for exs in seqs:
        results, conns = H.real_session_sequence(exs)
        case = {'stream': 'leave',
                'exchanges': [{'segs': e['segs'], 'eof': e['eof'], 'method': e['method'], 'version': e['version'], 'path': e['path'],
                               'msg': e['msg'].case(), 'surplus': b'', 'leave': e['leave'], 'hold': e['hold']} for e in exs]}
        prev_abandoned = None
        for k, (e, r) in enumerate(zip(exs, results)):
            m, x = e['msg'], r['x']
            if prev_abandoned is not None and r['conn'] is not None and r['conn'] == prev_abandoned:
                ctx.fail('abandoned-connection-reused', 'Session.recycle', case,
                         'exchange %d runs on connection %d, which exchange %d left with its response body unread (session left by %s)'
                         % (k, r['conn'], k - 1, exs[k - 1]['leave']))
            prev_abandoned = None
            if len(r['requests']) != 1:
                ctx.fail('request-count', 'Session', case, 'exchange %d: %d requests reached the server' % (k, len(r['requests'])))
                break
            if x.outcome != 'ok' or x.status[1] != m.code:
                ctx.fail('next-response-not-from-first-byte' if k and exs[k - 1]['leave'] != 'full' else 'lockstep-exchange-failed',
                         'Session', case, 'exchange %d (%s) ended %s %s status %r, the server sent %d%s'
                         % (k, e['leave'], x.outcome, x.exc, x.status, m.code,
                            '; the previous session was left by %s with its body unread' % exs[k - 1]['leave'] if k and exs[k - 1]['leave'] != 'full' else ''))
                break
            if e['leave'] == 'full':
                want = m.payload if m.coding is None else H.one_shot_decode(m.coding, m.payload)
                if want is not None and x.body != want:
                    ctx.fail('next-response-not-from-first-byte' if k and exs[k - 1]['leave'] != 'full' else 'wrong-body', 'Session', case,
                             'exchange %d: body %r.. but the server sent %r.. for this request' % (k, x.body[:40], want[:40]))
                    break
            elif len(m.framed) > 0:
                prev_abandoned = r['conn']
        toks = []
        for e, r in zip(exs, results):
            x = r['x']
            data = b''.join(e['segs'] if e['leave'] == 'full' else e['segs'][:e['hold']])
            toks += [enc(e['method']), enc(e['version']), 'T' if e['eof'] and e['leave'] == 'full' else 'F', enc(data),
                     '-' if not H.sched_of(x.calls) else '.'.join('%x' % s for s in H.sched_of(x.calls)),
                     ','.join(('o' + enc(v)) if k == 'ok' else ('e' + v) for k, v in x.declog) or '~', LEAVES[e['leave']]]
        lines.append('http sessionl T F ' + ' '.join(toks))
        metas.append((exs, results))
    replies = ctx.model.ask(lines)
    for (exs, results), rep in zip(metas, replies):
        parts = rep.split(' || ') if rep != '~' else []
        real_parts, model_parts = [], []
        for r, p in zip(results, parts):
            idx, _, body = p.partition(':')
            f = body.split(' | ')
            model_parts.append('%s:%s | %s | %s' % (idx, f[0], f[2], f[3]) if len(f) == 4 else p)
            real_parts.append('%s:%s' % (r['conn'], H.fmt_exchange_nc(r['x'])))
        ctx.case(('leave', tuple((tuple(e['segs']), e['leave'], e['hold']) for e in exs)),
                 tags=['leave:len=%d' % len(exs)] + ['leave:' + e['leave'] for e in exs])
        if len(parts) != len(results) or real_parts != model_parts:
            ctx.disagree('leave', {'exchanges': [{'segs': e['segs'], 'leave': e['leave'], 'hold': e['hold']} for e in exs]},
                         [p[:500] for p in model_parts], [p[:500] for p in real_parts])
    if metas:
        ctx.sample({'stream': 'leave', 'sequences': len(metas), 'leaves': [e['leave'] for e in metas[0][0]]})


# ------------------------------------------------------------------ one Stream object, several exchanges
def onestream_plans():
    """Several exchanges through ONE `Stream` object (as stream_test.py drives it): a content-coded
    response, optionally bodiless ones, then a body-carrying response WITHOUT a content coding."""
    import gzip
    import zlib
    plain = b'compressed payload of the first response'
    coded = [('gzip', b'gzip', gzip.compress(plain)), ('deflate', b'deflate', zlib.compress(plain)),
             ('raw-deflate', b'Deflate', H.raw_deflate(plain))]
    between = {'none': [], '304': [(_mk(b'HTTP/1.1 304 NM\r\nContent-Length: 9\r\n\r\n', code=304, framing='none'), 'GET')],
               'head': [(_mk(b'HTTP/1.1 200 OK\r\nContent-Encoding: gzip\r\nContent-Length: 9\r\n\r\n', framing='none'), 'HEAD')],
               '204+unknown': [(_mk(b'HTTP/1.1 204 NC\r\n\r\n', code=204, framing='none'), 'GET'),
                               (_mk(b'HTTP/1.1 200 OK\r\nContent-Encoding: br\r\nContent-Length: 2\r\n\r\n', b'br'), 'GET')]}
    identity = [_mk(b'HTTP/1.1 200 OK\r\nContent-Length: 14\r\n\r\n', b'identity body!'),
                _mk(b'HTTP/1.1 200 OK\r\nTransfer-Encoding: chunked\r\n\r\n', b'5\r\nplain\r\n0\r\n\r\n', b'plain', framing='chunked'),
                _mk(b'HTTP/1.1 200 OK\r\nContent-Encoding: identity\r\nContent-Length: 3\r\n\r\n', b'abc')]
    plans = []
    for name, ce, payload in coded:
        for framing in ('length', 'chunked'):
            if framing == 'length':
                first = _mk(b'HTTP/1.1 200 OK\r\nContent-Encoding: ' + ce + b'\r\nContent-Length: %d\r\n\r\n' % len(payload), payload)
            else:
                first = _mk(b'HTTP/1.1 200 OK\r\nContent-Encoding: ' + ce + b'\r\nTransfer-Encoding: chunked\r\n\r\n',
                            b'%x\r\n' % len(payload) + payload + b'\r\n0\r\n\r\n', payload, framing='chunked')
            first.coding = name
            for bname, mids in between.items():
                for last in identity:
                    exs = []
                    for k, (m, method) in enumerate([(first, 'GET')] + mids + [(last, 'GET'), (first, 'GET'), (last, 'GET')]):
                        exs.append({'segs': fakenet.segment(m.message, [len(m.head)] if k % 2 else []), 'eof': False, 'method': method,
                                    'version': 'HTTP/1.1', 'path': '/o%d' % k, 'msg': m, 'what': 'ok', 'data': m.message})
                    plans.append({'stream': 'onestream', 'exchanges': exs, 'between': bname})
    return plans


def stream_onestream(ctx, plans):
    """Oracle only: every well-formed response read through the shared Stream object reaches the
    caller with exactly its delimited, decoded payload."""
    for plan in plans:
        exs = plan['exchanges']
        results, nconn = H.real_timeout_sequence(exs, 30.0)
        case = {'stream': 'onestream', 'between': plan.get('between'),
                'exchanges': [{'segs': e['segs'], 'eof': e['eof'], 'method': e['method'], 'version': e['version'], 'path': e['path'],
                               'msg': e['msg'].case(), 'what': 'ok', 'data': e['data']} for e in exs]}
        ctx.case(('onestream', tuple((tuple(e['segs']), e['method']) for e in exs)),
                 tags=['onestream:between=%s' % plan.get('between')] + ['onestream:' + x.outcome for x in results])
        for k, (e, x) in enumerate(zip(exs, results)):
            m = e['msg']
            want = b'' if m.framing == 'none' else (m.payload if m.coding is None else H.one_shot_decode(m.coding, m.payload))
            if x.outcome != 'ok':
                ctx.fail('complete-message-error', 'Stream', case,
                         'exchange %d of %d through ONE Stream object: a complete well-formed response (Content-Encoding %r) ended %s %s; '
                         'the exchanges before it on this Stream: %s'
                         % (k, len(exs), m.coding, x.outcome, x.exc, [p['msg'].coding or ('no body' if p['msg'].framing == 'none' else 'identity')
                                                                        for p in exs[:k]]))
                break
            if x.status[1] != m.code or x.body != want:
                ctx.fail('wrong-body', 'Stream', case, 'exchange %d through ONE Stream object: status %r body %r.., the server sent %d / %r..'
                         % (k, x.status, x.body[:40], m.code, want[:40]))
                break
    if plans:
        ctx.sample({'stream': 'onestream', 'plans': len(plans)})


# ------------------------------------------------------------------ timeout stream
def timeout_cases():
    """Sequences on ONE Connection object with a read timeout: well-formed exchanges, an exchange
    that stalls mid-message (timer fires), well-formed exchanges after the reconnect - also after
    an ordinary close -, and a second stall later."""
    ok1 = _mk(b'HTTP/1.1 200 OK\r\nContent-Length: 3\r\n\r\n', b'abc')
    ok2 = _mk(b'HTTP/1.1 200 OK\r\nTransfer-Encoding: chunked\r\n\r\n', b'2\r\nhi\r\n0\r\n\r\n', b'hi', framing='chunked')
    okc = _mk(b'HTTP/1.1 200 OK\r\nConnection: close\r\nContent-Length: 2\r\n\r\n', b'zz')
    okclose = _mk(b'HTTP/1.0 200 OK\r\n\r\n', b'until close', framing='close')
    stalls = [(ok1, 10), (ok1, len(ok1.head) + 1), (ok2, len(ok2.head) + 4), (ok2, len(ok2.message) - 2), (okclose, len(okclose.message))]
    plans = []
    for si, (sm, cut) in enumerate(stalls):
        for shape in (['ok', 'stall', 'ok', 'ok', 'stall', 'ok'], ['stall', 'ok', 'okc', 'ok', 'stall'],
                      ['okc', 'ok', 'stall', 'okclose', 'ok', 'stall', 'ok']):
            exs = []
            for k, what in enumerate(shape):
                if what == 'stall':
                    m, data, eof = sm, sm.message[:cut], False
                else:
                    m = {'ok': (ok1, ok2)[k % 2], 'okc': okc, 'okclose': okclose}[what]
                    data, eof = m.message, m.framing == 'close' or what == 'okc'
                exs.append({'segs': fakenet.segment(data, [len(m.head)] if k % 2 else []), 'eof': eof, 'method': 'GET',
                            'version': 'HTTP/1.1', 'path': '/t%d' % k, 'msg': m, 'what': what, 'data': data})
            plans.append({'stream': 'timeout', 'exchanges': exs})
    return plans


def stream_timeout(ctx, plans, timeout=0.12):
    lines, metas = [], []
    for plan in plans:
        exs = plan['exchanges']
        for attempt in (1, 3):
            # a well-formed exchange must never time out; if the machine was so loaded that one
            # did, repeat the plan once with a 3x longer timeout before calling it a failure
            results, nconn = H.real_timeout_sequence(exs, timeout * attempt)
            spurious = any(e['what'] != 'stall' and x.outcome == 'exc' and x.exc == 'NetworkTimedOut'
                           and not any(p['what'] == 'stall' for p in exs[:i]) for i, (e, x) in enumerate(zip(exs, results)))
            if not spurious:
                break
        case = {'stream': 'timeout', 'exchanges': [{'segs': e['segs'], 'eof': e['eof'], 'method': e['method'], 'version': e['version'],
                                                    'path': e['path'], 'msg': e['msg'].case(), 'what': e['what'], 'data': e['data']}
                                                   for e in exs]}
        stalled_before = False
        for k, (e, x) in enumerate(zip(exs, results)):
            m = e['msg']
            if e['what'] == 'stall':
                if x.outcome == 'stalled':
                    ctx.fail('stall-not-detected', 'CloseTimer', case,
                             'exchange %d: the response stopped after %d bytes, the read timeout (%.2fs) never fired%s'
                             % (k, len(e['data']), timeout, ' (an earlier exchange on this Connection object was closed or timed out)' if k else ''))
                    break
                if x.outcome != 'exc' or x.exc != 'NetworkTimedOut':
                    ctx.fail('stall-not-detected', 'CloseTimer', case, 'exchange %d: a stalled response ended %s %s' % (k, x.outcome, x.exc))
                stalled_before = True
                continue
            if x.outcome != 'ok' or x.status[1] != m.code or x.body != m.payload:
                kind = 'timeout-after-reconnect' if (stalled_before and x.outcome == 'exc' and x.exc == 'NetworkTimedOut') else \
                    'complete-message-error' if x.outcome != 'ok' else 'wrong-body'
                ctx.fail(kind, 'Connection.connect' if kind == 'timeout-after-reconnect' else 'read_body', case,
                         'exchange %d: a complete well-formed response ended %s %s (body %r)%s'
                         % (k, x.outcome, x.exc, x.body, '; an earlier exchange on the same Connection object had timed out' if stalled_before else ''))
                if x.outcome == 'stalled':
                    break
        for e, x in zip(exs, results):
            lines.append(H.model_line(e['data'], e['eof'], H.sched_of(x.calls), x.declog))
            metas.append((case, e, x))
        ctx.case(('timeout', tuple((tuple(e['segs']), e['what']) for e in exs)),
                 tags=['timeout:plan', 'timeout:connections=%d' % nconn] + ['timeout:' + e['what'] + '=' + (x.outcome if x.outcome != 'exc' else x.exc)
                                                                          for e, x in zip(exs, results)])
    for (case, e, x), rep in zip(metas, ctx.model.ask(lines)):
        # the model knows no clock: its "stalled" is the timeout of the real run
        want = rep.split(' | ')[0]
        if want == 'stalled':
            want = 'exc NetworkTimedOut'
        x.consumed, x.closed = 0, False
        real = H.fmt_exchange(x).split(' | ')[0]
        if want != real:
            ctx.disagree('timeout', {'exchange': e['path'], 'what': e['what'], 'data': e['data']}, want[:400], real[:400])
    if plans:
        ctx.sample({'stream': 'timeout', 'plans': len(plans)})


# ------------------------------------------------------------------ corpus / replay
def load_corpus(ctx, pid='C08'):
    out = []
    for p in sorted(glob.glob(os.path.join(ctx.verif, 'harness', 'corpus', pid, '*.json'))):
        with open(p) as f:
            out.append(unjson(json.load(f)))
    return out


def replay(ctx, case, kind=None, where=None):
    _only_c08(ctx, lambda: _replay(ctx, case, kind, where))


def _replay(ctx, case, kind=None, where=None):
    case = case.get('case', case)
    s = case.get('stream')
    if s == 'decode':
        m = H.Msg.from_case(case['msg'])
        data, eof = case['data'], case['eof']
        css = [H.cuts_of(case['segs'])]
        if 'segs_b' in case:
            css.append(H.cuts_of(case['segs_b']))
        css += [[], list(range(1, len(data)))]
        stream_decode(ctx, [(m, case['variant'], data, eof, css, tuple(case.get('opts', (True, False))))], True)
    elif s == 'onestream':
        exs = []
        for e in case['exchanges']:
            e = dict(e)
            e['msg'] = H.Msg.from_case(e['msg'])
            exs.append(e)
        stream_onestream(ctx, [{'stream': 'onestream', 'exchanges': exs, 'between': case.get('between')}])
    elif s == 'leave':
        exs = []
        for e in case['exchanges']:
            e = dict(e)
            e['msg'] = H.Msg.from_case(e['msg'])
            e['marker'] = b''
            exs.append(e)
        stream_leave(ctx, [exs])
    elif s == 'timeout':
        exs = []
        for e in case['exchanges']:
            e = dict(e)
            e['msg'] = H.Msg.from_case(e['msg'])
            exs.append(e)
        stream_timeout(ctx, [{'stream': 'timeout', 'exchanges': exs}])
    elif s == 'session':
        exs = []
        for e in case['exchanges']:
            e = dict(e)
            e['msg'] = H.Msg.from_case(e['msg'])
            exs.append(e)
        stream_session(ctx, [(exs, tuple(case.get('opts', (True, False))), case.get('wiring'))])
    else:
        raise Infra('unknown replay stream %r' % s)


# ------------------------------------------------------------------ entry points
def _mk(head, framed=b'', payload=None, method='GET', version='HTTP/1.1', code=200, framing='length', wf=True):
    m = H.Msg()
    m.head, m.framed, m.payload = head, framed, framed if payload is None else payload
    m.surplus, m.method, m.version, m.code, m.framing, m.wf = b'', method, version, code, framing, wf
    m.coding, m.conn_close, m.tags = None, None, ['fixed']
    return m


def fixed_sequences():
    """Lock-step pairs: a response with status `code` in every framing, delivered whole / cut right
    after its header block / byte by byte, followed by an ordinary exchange on the same connection.
    A body the protocol allows must be consumed with its response (and the connection kept); a
    body the protocol forbids must not be waited for."""
    out = []
    second = _mk(b'HTTP/1.1 200 OK\r\nContent-Length: 6\r\n\r\n', b'second')
    for code in (200, 201, 203, 204, 205, 206, 301, 304, 305, 400, 404, 500, 101):
        nobody = 100 <= code < 200 or code in (204, 304)
        st = b'HTTP/1.1 %d R\r\n' % code
        shapes = [(st + b'Transfer-Encoding: chunked\r\n\r\n', b'0\r\n\r\n', b'', 'chunked'),
                  (st + b'Transfer-Encoding: chunked\r\n\r\n', b'2;x\r\nhi\r\n0\r\nT: 1\r\n\r\n', b'hi', 'chunked'),
                  (st + b'Content-Length: 3\r\n\r\n', b'abc', b'abc', 'length'),
                  (st + b'Content-Length: 0\r\n\r\n', b'', b'', 'length')]
        for head, framed, payload, framing in shapes:
            if nobody:
                framed, payload, framing = b'', b'', 'none'
            m = _mk(head, framed, payload, code=code, framing=framing)
            msg = m.message
            for cuts in ([], [len(head)], list(range(1, len(msg)))):
                exs = []
                for k, (mm, cc) in enumerate(((m, cuts), (second, []))):
                    exs.append({'segs': fakenet.segment(mm.message, cc), 'eof': False, 'method': 'GET', 'version': 'HTTP/1.1',
                                'path': '/p%d' % k, 'msg': mm, 'surplus': b'', 'marker': b''})
                out.append(exs)
            if nobody:
                break
    return out


def bighead_items():
    """Header sections of 33 KiB .. 200 KiB whose framing / coding / connection field comes AFTER
    the 32 KiB mark.  The reader may refuse such a head; what it must not do is succeed with
    anything but the payload the complete header block delimits."""
    import gzip
    items = []
    gz = gzip.compress(b'compressed payload')
    for size in (33000, 70000, 200000):
        filler = b''
        i = 0
        while len(filler) < size:
            filler += b'X-Filler-%d: %s\r\n' % (i, b'a' * 900)
            i += 1
        for late, framed, payload, framing, coding in (
                (b'Transfer-Encoding: chunked\r\n', b'5\r\nhello\r\n0\r\n\r\n', b'hello', 'chunked', None),
                (b'Content-Length: 3\r\n', b'abc', b'abc', 'length', None),
                (b'Content-Length: %d\r\nContent-Encoding: gzip\r\n' % len(gz), gz, gz, 'length', 'gzip'),
                (b'Content-Length: 3\r\nConnection: close\r\n', b'abc', b'abc', 'length', None)):
            m = _mk(b'HTTP/1.1 200 OK\r\n' + filler + late + b'\r\n', framed, payload, framing=framing, wf=False)
            m.coding = coding
            m.tags = ['fixed', 'bighead-framed']
            msg = m.message
            h = len(m.head)
            for eof in (True, False):
                items.append((m, 'complete', msg, eof, [[], [32768, h]]))
            items.append((m, 'surplus', msg + b'XY', True, [[h]]))
    return items


def coded_truncation_items():
    """Content-coded, close-delimited responses (HTTP/1.0 style and HTTP/1.1 `Connection: close`):
    complete, and cut by the peer at EVERY position inside the coded body.  The framing cannot
    notice the cut; the content coding can (the coded stream does not reach its end)."""
    import gzip
    import zlib
    plain = b'The quick brown fox jumps over the lazy dog. ' * 3
    items = []
    for coding, payload in (('gzip', gzip.compress(plain)), ('deflate', zlib.compress(plain)),
                            ('raw-deflate', H.raw_deflate(plain))):
        ce = b'gzip' if coding == 'gzip' else b'deflate'
        for head, version in ((b'HTTP/1.0 200 OK\r\nContent-Encoding: ' + ce + b'\r\n\r\n', 'HTTP/1.0'),
                              (b'HTTP/1.1 200 OK\r\nConnection: close\r\nContent-Encoding: ' + ce + b'\r\n\r\n', 'HTTP/1.1')):
            m = _mk(head, payload, payload, version=version, framing='close')
            m.coding = coding
            m.tags = ['fixed', 'coded-close']
            msg = m.message
            h = len(head)
            items.append((m, 'complete', msg, True, [[], list(range(1, len(msg))), [h + 1]]))
            for c in range(h + 1, len(msg)):
                items.append((m, 'truncated', msg[:c], True, [[], [h], list(range(h, c))]))
                if c % 7 == 0:
                    items.append((m, 'truncated', msg[:c], 'reset', [[], [h]]))
            items.append((m, 'complete', msg, 'reset', [[], [h + 1]]))
    return items


def fixed_file_sequences():
    """the same three exchanges with every body-file mode: fresh buffers, files that already hold
    a prefix (1 byte ... a saved header block), and one growing file for all of them (-O)"""
    out = []
    msgs = [(b'HTTP/1.1 200 OK\r\nContent-Length: 5\r\n\r\n', b'first', b'first', 'length'),
            (b'HTTP/1.1 200 OK\r\nTransfer-Encoding: chunked\r\n\r\n', b'6\r\nsecond\r\n0\r\n\r\n', b'second', 'chunked'),
            (b'HTTP/1.1 200 OK\r\nContent-Length: 0\r\n\r\n', b'', b'', 'length'),
            (b'HTTP/1.1 200 OK\r\nContent-Length: 5\r\n\r\n', b'third', b'third', 'length')]
    for mode, prefix in (('fresh', b''), ('prefix', b'X'), ('prefix', b'HTTP/1.1 200 OK\r\nContent-Length: 5\r\n\r\n'), ('shared', b'')):
        exs = []
        for k, (head, framed, payload, framing) in enumerate(msgs):
            m = _mk(head, framed, payload, framing=framing)
            exs.append({'segs': fakenet.segment(m.message, [len(head)] if k % 2 else []), 'eof': False, 'method': 'GET', 'version': 'HTTP/1.1',
                        'path': '/p%d' % k, 'msg': m, 'surplus': b'', 'marker': b'', 'file': mode, 'file_prefix': prefix})
        out.append(exs)
    return out


def fixed_messages():
    """Hand-written messages at the decision points of the framing rules."""
    mk = _mk
    msgs = [
        mk(b'HTTP/1.1 200 OK\r\nContent-Length: 3\r\n\r\n', b'abc'),
        mk(b'HTTP/1.1 200 OK\r\nContent-Length: 0\r\n\r\n', b''),
        mk(b'HTTP/1.1 304 Not Modified\r\nContent-Length: 5\r\n\r\n', code=304, framing='none'),
        mk(b'HTTP/1.1 204 No Content\r\nTransfer-Encoding: chunked\r\n\r\n', code=204, framing='none'),
        mk(b'HTTP/1.1 100 Continue\r\nContent-Length: 5\r\n\r\n', code=100, framing='none'),
        mk(b'HTTP/1.1 200 OK\r\nContent-Length: 5\r\n\r\n', method='HEAD', framing='none'),
        mk(b'HTTP/1.1 200 OK\r\nTransfer-Encoding: chunked\r\n\r\n', method='HEAD', framing='none'),
        mk(b'HTTP/1.1 200 OK\r\nTransfer-Encoding: chunked\r\n\r\n', b'3\r\nabc\r\n0\r\n\r\n', b'abc', framing='chunked'),
        mk(b'HTTP/1.1 200 OK\r\nTransfer-Encoding: Chunked\r\n\r\n', b'3\r\nabc\r\n0\r\n\r\n', b'abc', framing='chunked'),
        mk(b'HTTP/1.1 200 OK\r\nTransfer-Encoding: gzip, chunked\r\n\r\n', b'3\r\nabc\r\n0\r\n\r\n', b'abc', framing='chunked'),
        mk(b'HTTP/1.1 200 OK\r\nTransfer-Encoding: gzip\r\nTransfer-Encoding: chunked\r\n\r\n', b'3\r\nabc\r\n0\r\n\r\n', b'abc', framing='chunked'),
        mk(b'HTTP/1.1 200 OK\r\nContent-Length: 9\r\nTransfer-Encoding: chunked\r\n\r\n', b'3;x=y\r\nabc\r\n0\r\nT: 1\r\n\r\n', b'abc', framing='chunked'),
        mk(b'HTTP/1.0 200 OK\r\n\r\n', b'until close', framing='close', version='HTTP/1.0'),
        mk(b'HTTP/1.1 200 OK\r\nContent-Length: nonsense\r\n\r\n', b'read until close', framing='close', wf=False),
        # obs-fold on the framing fields, continuation starting with SP and with HTAB
        mk(b'HTTP/1.1 200 OK\r\nTransfer-Encoding:\r\n\tchunked\r\n\r\n', b'3\r\nabc\r\n0\r\n\r\n', b'abc', framing='chunked'),
        mk(b'HTTP/1.1 200 OK\r\nTransfer-Encoding:\r\n chunked\r\n\r\n', b'3\r\nabc\r\n0\r\n\r\n', b'abc', framing='chunked'),
        mk(b'HTTP/1.1 200 OK\r\nTransfer-Encoding: gzip,\r\n\t chunked\r\n\r\n', b'3\r\nabc\r\n0\r\n\r\n', b'abc', framing='chunked'),
        mk(b'HTTP/1.1 200 OK\r\nContent-Length:\r\n\t12\r\n\r\n', b'twelve bytes'),
        mk(b'HTTP/1.1 200 OK\nContent-Length:\n 3\n\n', b'abc'),
        mk(b'HTTP/1.1 200 OK\r\nContent-Length: 3\r\nConnection:\r\n\tclose\r\n\r\n', b'abc'),
        # status codes next to the no-body ones are framed like any other response
        mk(b'HTTP/1.1 205 Reset Content\r\nTransfer-Encoding: chunked\r\n\r\n', b'0\r\n\r\n', b'', code=205, framing='chunked'),
        mk(b'HTTP/1.1 205 Reset Content\r\nContent-Length: 3\r\n\r\n', b'abc', code=205),
        mk(b'HTTP/1.1 205 Reset Content\r\n\r\n', b'to the close', code=205, framing='close'),
        mk(b'HTTP/1.1 203 NAI\r\nTransfer-Encoding: chunked\r\n\r\n', b'1\r\nz\r\n0\r\n\r\n', b'z', code=203, framing='chunked'),
        mk(b'HTTP/1.1 305 Use Proxy\r\nContent-Length: 2\r\n\r\n', b'up', code=305),
        mk(b'HTTP/1.1 404 Not Found\r\nContent-Length: 4\r\n\r\n', b'gone', code=404),
        mk(b'HTTP/1.1 200 OK\r\nContent-Length: 0\r\n\r\n', b'', code=200),
        mk(b'HTTP/1.1 199 Odd\r\nContent-Length: 3\r\n\r\n', code=199, framing='none'),
        mk(b'HTTP/1.1 200 OK\nContent-Length:2\n\n', b'ok'),
        mk(b'HTTP/1.1 200 OK\r\nX: a\r\n b\r\nContent-Length: 1\r\n\r\n', b'z'),
    ]
    for m in msgs:
        if b'nonsense' in m.head:
            m.tags.append('badlength')
    return msgs


C04_ONLY = {'notified-not-message'}     # a C04 statement; C08's co-simulation still compares the notified bytes


def _only_c08(ctx, thunk):
    orig = ctx.fail

    def fail(kind, where, case, detail=''):
        if kind not in C04_ONLY:
            orig(kind, where, case, detail)
    ctx.fail = fail
    try:
        thunk()
    finally:
        ctx.fail = orig


def run(ctx, pid='C08'):
    _only_c08(ctx, lambda: _run(ctx, pid))


def _run(ctx, pid='C08'):
    thorough = ctx.tier == 'thorough'
    for case in load_corpus(ctx, pid):
        replay(ctx, case)
    rng = ctx.rng
    import time
    t0 = time.time()
    stream_py(ctx, ctx.scale(1500, 20000))
    stream_sr(ctx, ctx.scale(300, 5000))
    ctx.note('t_py_sr', round(time.time() - t0, 1))
    cache = {}
    # fixed decision-point messages: every cut position, all single bytes, every truncation
    items = []
    for m in fixed_messages():
        msg = m.message
        n = len(msg)
        css = [[], list(range(1, n))] + [[i] for i in range(1, n)]
        items.append((m, 'complete', msg, m.framing == 'close', css))
        if m.framing != 'close':
            items.append((m, 'surplus', msg + b'XY', False, [[], list(range(1, n + 2)), [n], [n + 1]]))
        for c in range(0, n, 1 if thorough else 3):
            items.append((m, 'truncated', msg[:c], True, [[], list(range(1, c))]))
        # the RESET ending next to the EOF ending: in the head, in the body / chunk, right after the message
        for c in sorted({5, len(m.head) - 2, len(m.head), len(m.head) + 1, n - 3, n - 1, n}):
            if 0 <= c <= n:
                items.append((m, 'truncated' if c < n else 'complete', msg[:c], 'reset', [[], list(range(1, c))]))
        # the Stream options are a full dimension: every framing under every (keep_alive, ignore_length)
        for opts in H.OPTS[1:]:
            for eof in ((True,) if m.framing == 'close' else (True, False)):
                items.append((m, 'complete', msg, eof, [[], list(range(1, n)), [len(m.head)], [n - 1]], opts))
                if m.framing != 'close':
                    items.append((m, 'surplus', msg + b'XY', eof, [[], list(range(1, n + 2)), [n]], opts))
            items.append((m, 'complete', msg, 'reset', [[], [len(m.head)]], opts))
            items.append((m, 'truncated', msg[:n - 1], 'reset', [[], [len(m.head)]], opts))
            for c in sorted({len(m.head) - 2, len(m.head), len(m.head) + 1, n - 3, n - 1}):
                if 0 <= c < n:
                    items.append((m, 'truncated', msg[:c], True, [[], list(range(1, c))], opts))
    stream_decode(ctx, items, thorough, cache)
    stream_decode(ctx, coded_truncation_items(), thorough, cache)
    stream_decode(ctx, bighead_items(), thorough, cache)
    ctx.note('t_fixed', round(time.time() - t0, 1))
    # generated messages
    batch = []
    total = ctx.scale(520, 4000)
    for i in range(total):
        m = H.gen_message(rng)
        for tag, data, eof in variants(rng, m, thorough):
            css = cutsets(rng, len(data), thorough) if len(data) <= 12000 else [[], fakenet.random_cuts(rng, len(data), 'few')]
            batch.append((m, tag, data, eof, css))
            # every generated message also runs under the three other option combinations
            # (fewer segmentations each: unsegmented + one of the above)
            for opts in H.OPTS[1:]:
                eof2 = eof if (m.framing == 'close' or rng.random() < 0.5) else (not eof)
                batch.append((m, tag, data, eof2, [[], css[rng.randrange(len(css))]], opts))
        if len(batch) >= 400:
            stream_decode(ctx, batch, thorough, cache)
            batch = []
            cache.clear()
    stream_decode(ctx, batch, thorough, cache)
    ctx.note('t_generated', round(time.time() - t0, 1))
    if thorough:
        exhaustive_small(ctx)
    # lock-step sequences on the real client
    srng = ctx.subrng('session')
    nseq = ctx.scale(120, 800)
    seqs = [(exs, (True, False)) for exs in fixed_sequences() + fixed_file_sequences()]
    for i in range(nseq):
        opts = H.OPTS[1 + (i // 2) % 3] if i % 2 else (True, False)      # half default, the rest spread over the other three
        seqs.append((gen_sequence(srng, opts), opts))
    stream_session(ctx, seqs)
    wrng = ctx.subrng('wiring')
    stream_session(ctx, app_sequences(wrng, ctx.scale(40, 600)) + web_sequences(wrng, ctx.scale(40, 600)))
    lrng = ctx.subrng('leave')
    stream_leave(ctx, fixed_leave_sequences() + [gen_leave_sequence(lrng) for _ in range(ctx.scale(100, 1500))])
    stream_onestream(ctx, onestream_plans())
    stream_timeout(ctx, timeout_cases())
    ctx.note('read_sizes', 'the model replays the logged size of every Connection.read; calls are compared one by one')


def exhaustive_small(ctx):
    """all segmentations (every subset of cut positions) of short complete messages"""
    import itertools
    msgs = [(b'HTTP/1.1 200 OK\r\nContent-Length: 2\r\n\r\nabX', 'GET'),
            (b'HTTP/1.1 200 OK\r\nTransfer-Encoding: chunked\r\n\r\n1\r\na\r\n0\r\n\r\n', 'GET')]
    cache = {}
    for data, method in msgs:
        tail = 12
        n = len(data)
        base = n - tail
        m = H.Msg()
        m.head, m.framed, m.payload, m.surplus = data, b'', b'', b''
        m.method, m.version, m.code, m.framing, m.wf, m.coding, m.conn_close, m.tags = method, 'HTTP/1.1', 200, 'x', False, None, None, ['exhaustive']
        items = []
        for r in range(0, tail):
            for comb in itertools.combinations(range(base, n), r):
                if len(items) > 1500:
                    break
                items.append((m, 'complete', data, False, [list(comb)]))
        stream_decode(ctx, items, True, cache)
    ctx.exhaustive = False
    ctx.note('small_scope', 'every subset (<= 1500) of cut positions in the last 12 bytes of two short messages')


def search(ctx):
    _only_c08(ctx, lambda: _search(ctx))


def _search(ctx):
    rng = ctx.subrng('search')
    cache = {}
    batch = []
    for i in range(ctx.scale(60, 120)):
        m = H.gen_message(rng)
        opts = H.OPTS[i % 4]
        for tag, data, eof in variants(rng, m, True):
            batch.append((m, tag, data, eof, cutsets(rng, len(data), True) if len(data) <= 12000 else [[]], opts))
    stream_decode(ctx, batch, True, cache)
    stream_session(ctx, [(gen_sequence(rng, H.OPTS[i % 4]), H.OPTS[i % 4]) for i in range(ctx.scale(20, 40))])
