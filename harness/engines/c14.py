"""C14 — The URL table behaves as a keyed set with a status state machine.

History-independence: the Lean refinement says every answer (check_out included) is a function of the
current rows only; the probing triples and the exhaustive short histories tie that to the real table
object (a memo / cache / counter inside the object that survives a state change shows there).

Streams (model `Wpull.Table` vs the real code in the wpull checkout):
  session   a random history of table calls is run on a real `SQLiteURLTable`
            (":memory:" / a file in a temp dir, with close+reopen steps / the
            `GenericSQLURLTable` on a file), bare or through `URLTableHookWrapper`;
            after every call the return value / exception class and the
            canonicalised `get_all()` are compared with the Lean machine `step`
            (one driver request per history).  A share of the histories is also run
            through the reference machine `sstep` (the refinement theorem, sampled).
  oracle    independent of the Lean model: a dict-based reference in Python checks the
            clauses of the property on the observed behaviour of the real table.
"""
import glob
import json
import logging
import multiprocessing
import os
import pickle
import shutil
import tempfile

import compat  # noqa: F401
from runner import enc, Infra, unjson

RULE = ('session: 300 (quick) / 3500 (thorough) histories of 5..60 (quick) / 5..80, every tenth 5..400 (thorough) calls drawn from add_many (batches of 0..6 with '
        'internal duplicates, None / partial / full URLProperties, URLData), check_out (all 5 statuses, optional level '
        'bound), check_in (flag, URLResult), update_one, release, remove_many, add_visits, get_revisit_id, count, '
        'get_all, get_one, contains, get_hostnames, close+reopen; URLs from a per-history pool of 4..9 (collisions '
        'common) made of plain, IDN/Unicode, unparseable, empty, NUL-containing and lone-surrogate strings plus fresh '
        'arbitrary Unicode strings, and near twins of pool members (ASCII case of path / query / whole URL, percent-escape case, trailing blank, NFC vs NFD) in 60 % of the pools — also the 2 URLs of the exhaustive alphabet and a bigbatch style; property strings arbitrary Unicode (incl. empty, NUL, astral, surrogates), integers '
        '0..5, 2^31, 2^63-1 and (rarely) >= 2^63; table variants memory/disk/generic x bare/wrapped; half of the '
        'histories are probing: 2..4 plain URLs, all added and partly checked out, then query / state change / '
        '(reopen) / same query triples where the query asks check_out for the status the change produces '
        '(release, check_in, update_one, add_many, remove_many, check_out; with and without level bound) or '
        'get_one / contains / count / get_all. exhaustive: every call sequence prefix + c1 + c2 (+ c3 thorough) + '
        'observer over 2 URLs (levels 0 and 1), 13 state-changing calls (incl. reopen), 5-6 observers, 3 (quick) / '
        '5 (thorough) prefix states: 2535 (quick) / ~29k (thorough) histories, each on a fresh table object. '
        'multi: 60 (quick) / 600 (thorough) histories of 6..30 calls interleaved over 2-3 table objects alive in '
        'one process (memory/disk/generic, bare/wrapped, reopen of one while the others stay open), each table '
        'against its own model run and dict reference, untouched tables must not change. '
        'durability: reopen comes as close+reopen and as reopen WITHOUT close (old object left open); 40 % of the '
        'on-disk histories contain 1-2 killed runs (a forked child opens the file, makes 1-4 calls, dies with '
        'os._exit; with and without a clean close of the parent before); half of the multi histories put two '
        'live table objects on the SAME file (one model run / reference per file). '
        'caller objects: in 60 % of the histories (and in all exhaustive / bigbatch ones) the URLProperties / '
        'URLData / URLResult objects handed to add_many / check_in are RE-USED: the j-th entry of every batch '
        'is the same object with its attributes reset and set anew, one URLResult for all check_ins. '
        'start state: 35 % of the on-disk / generic tables (random and multi streams, exhaustive every 16th) are '
        'opened on a file whose schema was left half-created (tables present, all or a seeded subset of the '
        'explicit indexes missing, as after a kill between CREATE TABLE and CREATE INDEX). '
        'bigbatch: one add_many of 1, 499..503, 1000..1003, 1500+ (thorough up to 2506) entries, plain / with '
        'properties (3 strings per entry: 166..168, 333..336) / mixed / with internal duplicates, then count, get_one '
        'at chunk-boundary positions, check_out, a second overlapping batch, count, get_hostnames. '
        'non-trivial = the history changes the table at least once; distinct by canonical history + variant')
TRUSTED = ['SQLite / SQLAlchemy 2 / sqlite3 binding: transaction atomicity, UNIQUE / NOT NULL with OR IGNORE, rowid '
           'assignment max+1, scan order by rowid (mirrored in the model, sampled by the correspondence run)',
           'URLInfo.parse(url).hostname is a parameter of the model: its result is logged from the real parser']
ASSUMPTIONS = ['integers handed to the table are naturals (levels, try counts, priorities, status codes)',
               'one call carries at most one kind of un-bindable value (lone surrogate / integer >= 2^63 / batch '
               'without parent_url or root_url): the order in which the binding layer meets them is not modelled',
               'update_one is given column names of queued_urls and a valid status string (a bogus status string '
               'makes every later read of the real table raise LookupError)',
               'the queued_files / convert_check_out side table is outside the property and not modelled',
               'try counts stay below 2^63 - 1 (at the edge SQLite evaluates `try_count + 1` to the REAL 2^63)',
               'sequential use: one call at a time (each call is one transaction)']
UNPROVED = []

STATUSES = ['todo', 'in_progress', 'done', 'error', 'skipped']
LINKS = ['html', 'css', 'javascript', 'media', 'sitemap', 'file', 'directory']
BIG = 2 ** 63


# ------------------------------------------------------------------ encoding (same as TableDriver.lean)
def eo(v, f=str):
    return 'N' if v is None else '=' + f(v)


def enc_props(p):
    if p is None:
        return 'N'
    return 'P' + '|'.join([eo(p.get('parent_url'), enc), eo(p.get('root_url'), enc),
                           eo(p.get('status'), lambda s: str(STATUSES.index(s))),
                           eo(p.get('try_count')), eo(p.get('level')), eo(p.get('inline_level')),
                           eo(p.get('link_type'), lambda s: str(LINKS.index(s))), eo(p.get('priority'))])


def parse_host(url):
    """the model's parameter: ('X',) when URLInfo.parse raises, else ('H', hostname)"""
    from wpull.url import URLInfo
    try:
        return ('H', URLInfo.parse(url).hostname)
    except ValueError:
        return ('X',)


def enc_entry(e):
    d = e.get('data')
    ph = parse_host(e['url'])
    return ':'.join([enc(e['url']), enc_props(e.get('props')),
                     'N' if d is None else 'D' + eo(d.get('post_data'), enc),
                     'X' if ph[0] == 'X' else 'H' + eo(ph[1], enc)])


ASSIGN_LETTER = {'status': 's', 'try_count': 't', 'level': 'l', 'priority': 'p', 'inline_level': 'i',
                 'link_type': 'k', 'post_data': 'd', 'status_code': 'c', 'filename': 'f'}


def enc_assign(k, v):
    L = ASSIGN_LETTER[k]
    if k == 'status':
        return L + '=' + str(STATUSES.index(v))
    if k == 'link_type':
        return L + eo(v, lambda s: str(LINKS.index(s)))
    if k in ('post_data', 'filename'):
        return L + eo(v, enc)
    return L + eo(v)


def enc_op(op):
    k = op[0]
    if k == 'A':
        return 'A' if not op[1] else 'A,' + ';'.join(enc_entry(e) for e in op[1])
    if k == 'O':
        return 'O,%d,%s' % (STATUSES.index(op[1]), eo(op[2]))
    if k == 'I':
        r = op[4]
        return 'I,%s,%d,%s,%s' % (enc(op[1]), STATUSES.index(op[2]), 'T' if op[3] else 'F',
                                  'N' if r is None else 'R%s|%s' % (eo(r.get('status_code')), eo(r.get('filename'), enc)))
    if k == 'U':
        return 'U,' + enc(op[1]) + (',' + ';'.join(enc_assign(a, b) for a, b in op[2].items()) if op[2] else '')
    if k == 'X':
        return 'X' if not op[1] else 'X,' + ';'.join(enc(u) for u in op[1])
    if k == 'V':
        return 'V' if not op[1] else 'V,' + ';'.join(':'.join(enc(x) for x in v) for v in op[1])
    if k == 'G':
        return 'G,%s,%s' % (enc(op[1]), enc(op[2]))
    if k in ('1', 'Q'):
        return '%s,%s' % (k, enc(op[1]))
    if k in ('R', 'C', 'L', 'H', 'Z'):
        return k
    if k == 'Y':
        return 'Z'      # for the model a new table object on the same path is a reopen, closed or not
    raise Infra('unknown op %r' % (op,))


def enc_lists(l):
    return '~' if not l else '/'.join(enc(s) for s in l)


def rec_fields(r):
    """URLRecord -> plain tuple"""
    return (r.url, r.parent_url, r.root_url, r.status.value, r.try_count, r.level, r.inline_level,
            None if r.link_type is None else r.link_type.value, r.priority, r.post_data, r.status_code, r.filename)


def enc_rec(f):
    return '|'.join([enc(f[0]), eo(f[1], enc), eo(f[2], enc), str(STATUSES.index(f[3])), str(f[4]), str(f[5]),
                     eo(f[6]), eo(f[7], lambda s: str(LINKS.index(s))), str(f[8]), eo(f[9], enc), eo(f[10]),
                     eo(f[11], enc)])


def enc_recs(fs):
    return '~' if not fs else ';'.join(enc_rec(f) for f in fs)


# ------------------------------------------------------------------ the real table
def exc_name(e):
    from wpull.database.base import NotFound
    import sqlalchemy.exc as sx
    for cls, name in ((NotFound, 'NotFound'), (UnicodeEncodeError, 'UnicodeEncodeError'),
                      (OverflowError, 'OverflowError'), (sx.OperationalError, 'OperationalError'),
                      (sx.IntegrityError, 'IntegrityError'), (sx.DBAPIError, 'DBAPIError'),
                      (sx.StatementError, 'StatementError'), (ValueError, 'ValueError'),
                      (AssertionError, 'AssertionError')):
        if isinstance(e, cls):
            return name
    return type(e).__name__


class Real:
    """A real table of one variant; `apply(op)` returns (canonical output, python value)."""

    def __init__(self, variant, wrapped, share=None, reuse=True, damage=None):
        """share: another Real whose database file this one opens too (two live tables on one file)"""
        self.variant = variant
        self.wrapped = wrapped
        self.dir = None
        self.owns_dir = share is None
        if share is not None:
            self.dir = share.dir
        elif variant != 'memory':
            self.dir = tempfile.mkdtemp(prefix='c14-')
        self.path = os.path.join(self.dir, 'table?é.db') if self.dir else None
        self.table = None
        self.abandoned = []       # table objects left open without close() (a killed run's handles)
        # reuse: the caller keeps its URLProperties / URLData / URLResult objects and changes their
        # attributes between calls (the j-th entry of every batch is the same object), as crawler code
        # that fills one properties object per batch does; the table must read the current values
        self.reuse = reuse
        self._props, self._datas, self._result = {}, {}, None
        if damage is not None and share is None and variant != 'memory':
            self.half_create(damage)
        self.open()

    def open(self):
        from wpull.database.sqltable import SQLiteURLTable, GenericSQLURLTable
        from wpull.database.wrap import URLTableHookWrapper
        if self.variant == 'memory':
            t = SQLiteURLTable(':memory:')
        elif self.variant == 'disk':
            t = SQLiteURLTable(self.path)
        else:
            t = GenericSQLURLTable('sqlite:///' + os.path.join(self.dir, 'generic.db'))
        self.table = URLTableHookWrapper(t) if self.wrapped else t

    def db_file(self):
        return self.path.replace('?', '_') if self.variant == 'disk' else os.path.join(self.dir, 'generic.db')

    def half_create(self, damage):
        """What a run killed between CREATE TABLE and CREATE INDEX leaves: the tables exist, some ('all' or
        a seeded subset) of the explicitly created indexes - among them the UNIQUE ones on
        url_strings.url and queued_urls.url_string_id - are missing.  Opening the table must repair it."""
        import random
        import sqlite3
        from sqlalchemy import create_engine
        from wpull.database.sqlmodel import DBBase
        eng = create_engine('sqlite:///' + self.db_file())
        DBBase.metadata.create_all(eng)
        eng.dispose()
        con = sqlite3.connect(self.db_file())
        names = [r[0] for r in con.execute("select name from sqlite_master where type='index' and sql is not null")]
        if damage != 'all':
            r = random.Random(damage)
            names = [n for n in names if r.random() < 0.6] or names[:1]
        for n in names:
            con.execute('drop index "%s"' % n)
        con.commit()
        con.close()

    def dispose(self):
        for t in [self.table] + self.abandoned:
            try:
                if t is not None:
                    t.close()
            except Exception:
                pass
        if self.dir and self.owns_dir:
            shutil.rmtree(self.dir, ignore_errors=True)

    def fork_run(self, subops):
        """A forked child opens its own table object on the same file, makes the calls and dies with
        os._exit (no close()); returns its per-call (output, result, get_all)."""
        r, w = os.pipe()
        pid = os.fork()
        if pid == 0:
            code = 1
            try:
                os.close(r)
                self.abandoned.append(self.table)
                res = []
                try:
                    self.open()
                except Exception as e:     # the constructor's failure is an observation, not a harness error
                    name = exc_name(e)
                    res = [('exc:' + name, ('exc', name), 'constructor raised ' + name) for _ in subops]
                    subops = []
                for so in subops:
                    out, result = self.apply(so)
                    try:
                        st = self.state()
                    except Exception as e:
                        st = 'get_all raised ' + exc_name(e)
                    res.append((out, result, st))
                data = pickle.dumps(res)
                while data:
                    n = os.write(w, data)
                    data = data[n:]
                code = 0
            finally:
                os._exit(code)
        os.close(w)
        chunks = []
        while True:
            b = os.read(r, 1 << 16)
            if not b:
                break
            chunks.append(b)
        os.close(r)
        _, status = os.waitpid(pid, 0)
        if status != 0 or not chunks:
            raise Infra('forked table child failed (status %r)' % status)
        return pickle.loads(b''.join(chunks))

    @property
    def persistent(self):
        return self.variant != 'memory'

    def state(self):
        return [rec_fields(r) for r in self.table.get_all()]

    def call(self, op):
        from wpull.database.base import AddURLInfo
        from wpull.pipeline.item import Status, URLProperties, URLData, URLResult, LinkType
        t = self.table
        k = op[0]
        if k == 'A':
            batch = []
            for j, e in enumerate(op[1]):
                p = None
                if e.get('props') is not None:
                    p = (self._props.get(j) if self.reuse else None) or URLProperties()
                    self._props[j] = p
                    for a in URLProperties.database_attributes:
                        setattr(p, a, None)
                    for a, v in e['props'].items():
                        if a == 'status' and v is not None:
                            v = Status(v)
                        if a == 'link_type' and v is not None:
                            v = LinkType(v)
                        setattr(p, a, v)
                d = None
                if e.get('data') is not None:
                    d = (self._datas.get(j) if self.reuse else None) or URLData()
                    self._datas[j] = d
                    d.post_data = e['data'].get('post_data')
                batch.append(AddURLInfo(e['url'], p, d))
            return ('urls', list(t.add_many(batch)))
        if k == 'O':
            if op[2] is None:
                return ('rec', rec_fields(t.check_out(Status(op[1]))))
            return ('rec', rec_fields(t.check_out(Status(op[1]), op[2])))
        if k == 'I':
            r = None
            if op[4] is not None:
                r = (self._result if self.reuse else None) or URLResult()
                self._result = r
                r.status_code = op[4].get('status_code')
                r.filename = op[4].get('filename')
            return ('none', t.check_in(op[1], Status(op[2]), increment_try_count=op[3], url_result=r))
        if k == 'U':
            return ('none', t.update_one(op[1], **op[2]))
        if k == 'R':
            return ('none', t.release())
        if k == 'X':
            return ('none', t.remove_many(list(op[1])))
        if k == 'V':
            return ('none', t.add_visits([tuple(v) for v in op[1]]))
        if k == 'G':
            return ('os', t.get_revisit_id(op[1], op[2]))
        if k == 'C':
            return ('n', t.count())
        if k == 'L':
            return ('recs', [rec_fields(r) for r in t.get_all()])
        if k == '1':
            return ('rec', rec_fields(t.get_one(op[1])))
        if k == 'Q':
            return ('b', t.contains(op[1]))
        if k == 'H':
            return ('strs', sorted(t.get_hostnames()))
        if k == 'Z':
            t.close()
            self.open()
            return ('none', None)
        if k == 'Y':
            # reopen WITHOUT close: the old object (and its connection) stays behind, as after a kill
            self.abandoned.append(t)
            self.open()
            return ('none', None)
        raise Infra('unknown op %r' % (op,))

    def apply(self, op):
        try:
            kind, val = self.call(op)
        except Infra:
            raise
        except Exception as e:  # the call's exception class is an observation
            return 'exc:' + exc_name(e), ('exc', exc_name(e))
        if kind == 'none':
            out = 'none' if val is None else 'other:%r' % (val,)
        elif kind == 'urls':
            out = 'urls:' + enc_lists(val)
        elif kind == 'rec':
            out = 'rec:' + enc_rec(val)
        elif kind == 'recs':
            out = 'recs:' + enc_recs(val)
        elif kind == 'n':
            out = 'n:%d' % val
        elif kind == 'b':
            out = 'b:' + ('T' if val else 'F')
        elif kind == 'os':
            out = 'os:' + eo(val, enc)
        else:
            out = 'strs:' + enc_lists(val)
        return out, (kind, val)


def canon_model_out(tok):
    """hostnames come back in table order from the model, sorted from the real table"""
    if tok.startswith('strs:'):
        body = tok[5:]
        if body == '~':
            return tok
        parts = body.split('/')
        dec = sorted((''.join(chr(int(x, 16)) for x in p.split('.')) if p != '-' else '') for p in parts)
        return 'strs:' + enc_lists(dec)
    return tok


# ------------------------------------------------------------------ the independent reference (oracle)
class Oracle:
    """The property's clauses on a dict url -> record (insertion ordered), no Lean involved."""

    def __init__(self, ctx, case, persistent):
        self.ctx = ctx
        self.case = case
        self.persistent = persistent
        self.ref = {}          # url -> list of 12 fields
        self.step = -1
        self.cur_op = []
        self.label = ''

    def fail(self, kind, where, detail):
        case = dict(self.case)
        case['failed_at_step'] = self.step
        self.ctx.fail(kind, where, case, 'step %d %s%r: %s' % (self.step, self.label, self.cur_op[:3], detail))

    def observe(self, i, op, result, state):
        """result = (kind, value) of the real call, state = real get_all() after it"""
        self.step = i
        self.cur_op = op
        k = op[0]
        name_k = k
        if k == 'Y':
            k = 'Z'
        before = {u: list(f) for u, f in self.ref.items()}
        order_before = list(self.ref)
        after = {}
        for f in state:
            if f[0] in after:
                self.fail('stored-twice', 'get_all', 'URL %r appears twice in the table' % (f[0],))
            after[f[0]] = list(f)
        order_after = [f[0] for f in state]
        exc = result[1] if result[0] == 'exc' else None

        # what the reference expects
        exp = {u: list(f) for u, f in before.items()}
        exp_order = list(order_before)
        if exc is not None and not (k == 'O' and exc == 'NotFound') and not (k == '1' and exc == 'NotFound'):
            # a refused call must leave the table as it was
            if state != [tuple(before[u]) for u in order_before]:
                self.fail('refused-call-changed-table', OPNAME.get(name_k, name_k), 'raised %s but the table changed' % exc)
            self.ref = {u: after[u] for u in order_after}
            return
        if k == 'A':
            new = []
            for e in op[1]:
                u = e['url']
                if u in exp:
                    continue
                p = e.get('props') or {}
                rec = [u, p.get('parent_url') if e.get('props') is not None else u,
                       p.get('root_url') if e.get('props') is not None else u,
                       p.get('status') or 'todo', p.get('try_count') or 0, p.get('level') or 0,
                       p.get('inline_level'), p.get('link_type'), p.get('priority') or 0,
                       (e.get('data') or {}).get('post_data'), None, None]
                exp[u] = rec
                exp_order.append(u)
                new.append(u)
            reported = list(result[1])
            for u in reported:
                if u in before:
                    self.fail('existing-reported-new', 'add_many', 'URL %r was already stored but is reported as added' % (u,))
            if sorted(reported) != sorted(new):
                self.fail('added-list-wrong', 'add_many', 'reported %r, new were %r' % (reported, new))
            for u in before:
                if u in after and (after[u][3], after[u][4], after[u][5]) != (before[u][3], before[u][4], before[u][5]):
                    self.fail('add-changed-existing', 'add_many',
                              'URL %r: status/try_count/level %r -> %r' % (u, before[u][3:6], after[u][3:6]))
            # an empty parent/root string is stored as NULL: do not insist on it
            for u in new:
                if u in after:
                    for j in (1, 2):
                        if exp[u][j] == '':
                            exp[u][j] = after[u][j]
        elif k == 'O':
            st, lv = op[1], op[2]
            cands = [u for u in order_before if before[u][3] == st and (lv is None or before[u][5] < lv)]
            if exc == 'NotFound':
                if cands:
                    self.fail('notfound-but-present', 'check_out', 'NotFound although %r has status %s' % (cands[0], st))
            else:
                got = result[1]
                if not cands:
                    self.fail('checkout-without-candidate', 'check_out', 'returned %r but no URL had status %s' % (got[0], st))
                elif got[0] not in cands:
                    self.fail('checkout-wrong-status', 'check_out',
                              'returned %r whose status was %r level %r (asked %s, level<%r)'
                              % (got[0], before.get(got[0], [None] * 6)[3], before.get(got[0], [None] * 6)[5], st, lv))
                if got[0] in exp:
                    exp[got[0]][3] = 'in_progress'
                if got[3] != 'in_progress':
                    self.fail('checkout-not-marked', 'check_out', 'returned record has status %r' % (got[3],))
                if got[0] in after and after[got[0]][3] != 'in_progress':
                    self.fail('checkout-not-marked', 'check_out', 'row of %r has status %r after check_out' % (got[0], after[got[0]][3]))
        elif k == 'I':
            u = op[1]
            if u in exp:
                exp[u][3] = op[2]
                if op[3]:
                    exp[u][4] += 1
                r = op[4] or {}
                if r.get('status_code') is not None:
                    exp[u][10] = r['status_code']
                if r.get('filename') is not None:
                    exp[u][11] = r['filename']
                if u in after:
                    if after[u][3] != op[2]:
                        self.fail('checkin-status', 'check_in', 'status is %r, asked %r' % (after[u][3], op[2]))
                    if after[u][4] != before[u][4] + (1 if op[3] else 0):
                        self.fail('checkin-try-count', 'check_in',
                                  'try_count %r -> %r with increment_try_count=%r' % (before[u][4], after[u][4], op[3]))
        elif k == 'U':
            u = op[1]
            idx = {'status': 3, 'try_count': 4, 'level': 5, 'inline_level': 6, 'link_type': 7, 'priority': 8,
                   'post_data': 9, 'status_code': 10, 'filename': 11}
            if u in exp:
                for a, v in op[2].items():
                    exp[u][idx[a]] = v
        elif k == 'R':
            for u in exp:
                if exp[u][3] == 'in_progress':
                    exp[u][3] = 'todo'
            for u in before:
                if u in after:
                    if before[u][3] == 'in_progress' and after[u][3] != 'todo':
                        self.fail('release-missed', 'release', '%r stays %r' % (u, after[u][3]))
                    if before[u][3] != 'in_progress' and after[u][3] != before[u][3]:
                        self.fail('release-touched-other', 'release', '%r: %r -> %r' % (u, before[u][3], after[u][3]))
        elif k == 'X':
            for u in op[1]:
                if u in exp:
                    del exp[u]
                    exp_order.remove(u)
        elif k == 'Z':
            if not self.persistent:
                exp, exp_order = {}, []
            elif state != [tuple(before[u]) for u in order_before]:
                self.fail('reopen-changed-table', 'close', 'the on-disk table differs after close + reopen')
        elif k == 'C':
            if result[1] != len(before):
                self.fail('count-wrong', 'count', 'count() = %r with %d URLs stored' % (result[1], len(before)))
        elif k == 'Q':
            if result[1] != (op[1] in before):
                self.fail('contains-wrong', 'contains', 'contains(%r) = %r' % (op[1], result[1]))
        elif k == '1':
            if (exc == 'NotFound') != (op[1] not in before):
                self.fail('get-one-wrong', 'get_one', 'get_one(%r): %r' % (op[1], result))
            elif exc is None and list(result[1]) != before[op[1]]:
                self.fail('get-one-wrong', 'get_one', 'get_one(%r) = %r, stored %r' % (op[1], result[1], before[op[1]]))
        elif k == 'L':
            if [list(f) for f in result[1]] != [before[u] for u in order_before]:
                self.fail('get-all-unstable', 'get_all', 'two consecutive get_all() differ')

        # only removal deletes (and a memory table forgets on close)
        if k not in ('X',) and not (k == 'Z' and not self.persistent):
            lost = [u for u in order_before if u not in after]
            if lost:
                self.fail('deleted-without-remove', OPNAME.get(name_k, name_k), 'URLs %r vanished' % (lost,))
        # the table agrees with the reference as a whole
        if order_after != exp_order or any(after[u] != exp[u] for u in exp_order if u in after):
            diff = [(u, exp.get(u), after.get(u)) for u in dict.fromkeys(exp_order + order_after)
                    if exp.get(u) != after.get(u)][:3]
            self.fail('differs-from-reference', OPNAME.get(name_k, name_k),
                      'order %r vs expected %r; first differences %r' % (order_after[:8], exp_order[:8], diff))
        self.ref = {u: after[u] for u in order_after}


OPNAME = {'A': 'add_many', 'O': 'check_out', 'I': 'check_in', 'U': 'update_one', 'R': 'release', 'X': 'remove_many',
          'V': 'add_visits', 'G': 'get_revisit_id', 'C': 'count', 'L': 'get_all', '1': 'get_one', 'Q': 'contains',
          'H': 'get_hostnames', 'Z': 'close', 'Y': 'reopen_without_close'}


class VisitOracle:
    """warc_visits: first visit of a URL wins; lookup needs url and digest"""

    def __init__(self, oracle):
        self.o = oracle
        self.v = {}

    def observe(self, op, result, persistent):
        if result[0] == 'exc':
            return
        if op[0] == 'V':
            for u, i, d in op[1]:
                self.v.setdefault(u, (i, d))
        elif op[0] in ('Z', 'Y') and not persistent:
            self.v = {}
        elif op[0] == 'G':
            want = self.v.get(op[1])
            want = want[0] if want is not None and want[1] == op[2] else None
            if result[1] != want:
                self.o.fail('revisit-id-wrong', 'get_revisit_id', 'got %r, expected %r' % (result[1], want))


# ------------------------------------------------------------------ generation
PLAIN = ['http://a/', 'http://a/x', 'http://b/', 'https://b/y?q=1', 'http://c.example/', 'ftp://d/f', 'http://a/é',
         'http://ü.example/p', 'http://a/\U0001F600', 'HTTP://E/', 'http://a/x y', 'file:///tmp/x',
         # near twins: keys that a collation / normalisation would merge (ASCII case in path, query, scheme+host;
         # percent-escape case; trailing blank; NFC vs NFD) must stay different keys
         'http://a/X', 'https://b/y?Q=1', 'http://c.example/wiki/Python', 'http://c.example/wiki/python',
         'http://e/', 'http://a/%2f', 'http://a/%2F', 'http://a/x ', 'http://a/e\u0301', 'http://A/x']


def near_twin(rng, u):
    """a different string that a case-folding / trimming / normalising key comparison would merge with u"""
    i = u.find('://')
    j = u.find('/', i + 3) if i >= 0 else -1
    r = rng.random()
    if r < 0.6 and j >= 0 and u[j:].swapcase() != u[j:]:
        return u[:j] + u[j:].swapcase()          # path / query case (what arrives from real pages)
    if r < 0.75 and u.swapcase() != u:
        return u.swapcase()
    if r < 0.9:
        return u + ' '
    return u.upper() if u.upper() != u else u + '/'

ODD = ['', 'abc', 'http://[/', 'http://a/\x00z', 'http://s/\udc80', '\ud800', 'mailto:x@y', '//a/b', ' http://a/',
       'http://a/\n']


def uni(rng, n=None):
    n = rng.choice([0, 1, 1, 2, 3, 5, 9, 40]) if n is None else n
    out = []
    for _ in range(n):
        r = rng.random()
        if r < 0.45:
            out.append(rng.choice('abcxyz/:.?=&%0129 -_'))
        elif r < 0.55:
            out.append(chr(rng.randrange(0, 0x80)))
        elif r < 0.7:
            out.append(chr(rng.randrange(0x80, 0x800)))
        elif r < 0.85:
            out.append(chr(rng.choice([rng.randrange(0x800, 0xd800), rng.randrange(0xe000, 0x10000)])))
        elif r < 0.994:
            out.append(chr(rng.randrange(0x10000, 0x110000)))
        else:
            out.append(chr(rng.randrange(0xd800, 0xe000)))
    return ''.join(out)


def gen_url(rng):
    r = rng.random()
    if r < 0.45:
        return rng.choice(PLAIN)
    if r < 0.6:
        return rng.choice(ODD)
    if r < 0.9:
        s = uni(rng)
        s = ''.join(c for c in s if c >= ' ' and c != '\x7f') if rng.random() < 0.8 else s
        return rng.choice(['http://h/', 'http://a.b/p/', 'https://x/?']) + s
    return uni(rng)


def gen_nat(rng, allow_big=True):
    r = rng.random()
    if r < 0.85:
        return rng.randrange(0, 6)
    if r < 0.93:
        return rng.choice([2 ** 31, 2 ** 32 + 1, 200, 404, 10 ** 12])
    if r < 0.98 or not allow_big:
        return BIG - 1
    return rng.choice([BIG, 2 ** 64, 2 ** 70 + 3])


def gen_try(rng):
    """try counts stay far below 2^63 - 1 (SQLite's `try_count + 1` turns into a REAL there)"""
    return rng.choice([0, 0, 1, 2, 3, 5, 2 ** 32 + 1, 2 ** 62])


def opt(rng, p, f):
    return f() if rng.random() < p else None


def gen_props(rng, pool, full=False):
    if not full and rng.random() < 0.45:
        return None
    p = {}
    if full or rng.random() < 0.9:
        p['parent_url'] = rng.choice(pool) if rng.random() < 0.7 else uni(rng)
    if full or rng.random() < 0.9:
        p['root_url'] = rng.choice(pool) if rng.random() < 0.7 else uni(rng)
    if rng.random() < 0.3:
        p['status'] = rng.choice(STATUSES)
    if rng.random() < 0.3:
        p['try_count'] = gen_try(rng)
    if rng.random() < 0.6:
        p['level'] = gen_nat(rng)
    if rng.random() < 0.3:
        p['inline_level'] = gen_nat(rng)
    if rng.random() < 0.3:
        p['link_type'] = rng.choice(LINKS)
    if rng.random() < 0.2:
        p['priority'] = gen_nat(rng)
    if rng.random() < 0.15:
        p[rng.choice(['parent_url', 'root_url', 'status', 'level', 'try_count', 'priority'])] = None
    return p


def gen_op(rng, pool, allow_reopen=True):
    def url():
        return rng.choice(pool) if rng.random() < 0.9 else gen_url(rng)
    r = rng.random()
    if r < 0.28:
        n = rng.choice([0, 1, 1, 2, 3, 3, 4, 6])
        style = rng.random()
        batch = []
        for _ in range(n):
            e = {'url': url()}
            e['props'] = gen_props(rng, pool, full=style < 0.3) if style < 0.85 else None
            e['data'] = opt(rng, 0.3, lambda: {'post_data': opt(rng, 0.8, lambda: uni(rng))})
            batch.append(e)
        return ['A', batch]
    if r < 0.43:
        return ['O', rng.choice(['todo', 'todo', 'todo', 'error', 'done', 'in_progress', 'skipped']),
                opt(rng, 0.35, lambda: gen_nat(rng))]
    if r < 0.58:
        return ['I', url(), rng.choice(['done', 'error', 'skipped', 'todo', 'in_progress']), rng.random() < 0.6,
                opt(rng, 0.5, lambda: {'status_code': opt(rng, 0.6, lambda: gen_nat(rng)),
                                       'filename': opt(rng, 0.5, lambda: uni(rng))})]
    if r < 0.66:
        kw = {}
        for _ in range(rng.choice([0, 1, 1, 1, 2, 3])):
            c = rng.choice(list(ASSIGN_LETTER))
            if c == 'status':
                kw[c] = rng.choice(STATUSES)
            elif c == 'try_count':
                kw[c] = gen_try(rng)
            elif c in ('level', 'priority'):
                kw[c] = gen_nat(rng)
            elif c in ('inline_level', 'status_code'):
                kw[c] = opt(rng, 0.8, lambda: gen_nat(rng))
            elif c == 'link_type':
                kw[c] = opt(rng, 0.8, lambda: rng.choice(LINKS))
            else:
                kw[c] = opt(rng, 0.8, lambda: uni(rng))
        return ['U', url(), kw]
    if r < 0.72:
        return ['R']
    if r < 0.79:
        return ['X', [url() for _ in range(rng.choice([0, 1, 1, 2, 3]))]]
    if r < 0.83:
        return ['V', [[url(), uni(rng), rng.choice(['d1', 'd2', uni(rng)])] for _ in range(rng.choice([0, 1, 2, 3]))]]
    if r < 0.87:
        return ['G', url(), rng.choice(['d1', 'd2', uni(rng)])]
    if r < 0.89:
        return ['C']
    if r < 0.91:
        return ['L']
    if r < 0.935:
        return ['1', url()]
    if r < 0.96:
        return ['Q', url()]
    if r < 0.975:
        return ['H']
    return [rng.choice('ZY')] if allow_reopen else ['R']


def op_values(op):
    """strings and integers a call hands to the database (for the one-error-kind rule)"""
    strs, nats = [], []
    k = op[0]
    if k == 'A':
        for e in op[1]:
            strs.append(e['url'])
            p = e.get('props') or {}
            strs += [p.get('parent_url'), p.get('root_url'), (e.get('data') or {}).get('post_data')]
            nats += [p.get('try_count'), p.get('level'), p.get('inline_level'), p.get('priority')]
    elif k == 'O':
        nats.append(op[2])
    elif k == 'I':
        strs += [op[1], (op[4] or {}).get('filename')]
        nats.append((op[4] or {}).get('status_code'))
    elif k == 'U':
        strs.append(op[1])
        for a, v in op[2].items():
            (strs if a in ('post_data', 'filename') else nats if a not in ('status', 'link_type') else []).append(v)
    elif k == 'X':
        strs += op[1]
    elif k == 'V':
        for v in op[1]:
            strs += v
    elif k == 'G':
        strs += [op[1], op[2]]
    elif k in ('1', 'Q'):
        strs.append(op[1])
    return [s for s in strs if s is not None], [n for n in nats if n is not None]


def error_kinds(op):
    strs, nats = op_values(op)
    kinds = set()
    if any(0xd800 <= ord(c) <= 0xdfff for s in strs for c in s):
        kinds.add('surrogate')
    if any(n >= BIG for n in nats):
        kinds.add('overflow')
    if op[0] == 'A' and op[1]:
        if not any(e.get('props') is None or e['props'].get('parent_url') is not None for e in op[1]) or \
           not any(e.get('props') is None or e['props'].get('root_url') is not None for e in op[1]):
            kinds.add('missing-bind')
    return kinds


def gen_probe(rng, pool):
    """query - state change - same query: [observe, change, (reopen,) observe].  The observing call
    asks for the status the change produces (so it typically misses first and must hit afterwards);
    an answer that depends on anything but the current rows (a memo, a stale cache) shows here."""
    def url():
        return rng.choice(pool)
    r = rng.random()
    if r < 0.3:
        change, st = ['R'], 'todo'
    elif r < 0.5:
        st = rng.choice(STATUSES)
        change = ['I', url(), st, rng.random() < 0.5, None]
    elif r < 0.62:
        st = rng.choice(STATUSES)
        change = ['U', url(), {'status': st}]
    elif r < 0.7:
        st = 'todo'
        change = ['U', url(), {'level': rng.choice([0, 1, 3])}]
    elif r < 0.82:
        st = rng.choice(['todo', 'todo', 'error', 'done'])
        change = ['A', [{'url': url(), 'data': None,
                         'props': None if st == 'todo' and rng.random() < 0.5 else
                         {'parent_url': url(), 'root_url': url(), 'status': st, 'level': rng.choice([0, 1, 2])}}]]
    elif r < 0.92:
        st = rng.choice(STATUSES)
        change = ['X', [url()]]
    else:
        st = rng.choice(['todo', 'error'])
        change = ['O', rng.choice(['todo', 'error']), None]
    r = rng.random()
    if r < 0.75:
        obs = ['O', st, rng.choice([None, None, 1, 2])]
    elif r < 0.85:
        obs = ['1', url()]
    elif r < 0.92:
        obs = ['Q', url()]
    else:
        obs = rng.choice([['C'], ['L']])
    mid = [change] + ([[rng.choice('ZY')]] if rng.random() < 0.12 else [])
    return [list(obs)] + mid + [list(obs)]


def gen_session(rng, maxlen):
    pool = []
    for _ in range(rng.randrange(4, 10)):
        pool.append(gen_url(rng))
    if rng.random() < 0.7:
        pool = [u for u in pool if parse_host(u)[0] == 'H' and not any(0xd800 <= ord(c) <= 0xdfff for c in u)] \
            + [rng.choice(PLAIN), rng.choice(PLAIN)]
    # half of the histories are "probing": dense state (2-4 plain URLs) and query/change/query triples
    probing = rng.random() < 0.5
    if probing:
        pool = rng.sample(PLAIN, rng.randrange(2, 5))
    if rng.random() < 0.6:
        # near twins of pool members (bare and wrapper streams alike)
        for _ in range(rng.randrange(1, 3)):
            t = near_twin(rng, rng.choice(pool))
            if not any(0xd800 <= ord(c) <= 0xdfff for c in t) and (not probing or parse_host(t)[0] == 'H'):
                pool.append(t)
    n = rng.randrange(5, maxlen + 1)
    ops = []
    if probing:
        ops.append(['A', [{'url': u, 'props': None, 'data': None} for u in pool]])
        for _ in range(rng.randrange(0, len(pool) + 2)):
            ops.append(['O', 'todo', None])
    while len(ops) < n:
        if probing and rng.random() < 0.45:
            ops.extend(gen_probe(rng, pool))
            continue
        op = gen_op(rng, pool)
        if len(error_kinds(op)) > 1:
            continue
        ops.append(op)
    variant = rng.choice(['memory', 'disk', 'disk', 'generic'])
    if variant != 'memory' and rng.random() < 0.4:
        # a killed run: a forked child works on the file and dies without close(); the parent reopens
        for _ in range(rng.randrange(1, 3)):
            sub = []
            while len(sub) < rng.randrange(1, 5):
                so = gen_op(rng, pool, allow_reopen=False)
                if len(error_kinds(so)) <= 1:
                    sub.append(so)
            ops.insert(rng.randrange(1, len(ops) + 1), ['K', sub, rng.random() < 0.5])
    case = {'variant': variant, 'wrapped': rng.random() < 0.5, 'reuse': rng.random() < 0.6, 'ops': ops}
    if variant != 'memory' and rng.random() < 0.35:
        case['damage'] = rng.choice(['all', 'all', rng.randrange(1000)])    # half-created schema on the file
    return case


# ------------------------------------------------------------------ large batches (size boundaries)
BIG_SIZES_QUICK = [(1, 'plain'), (499, 'plain'), (500, 'plain'), (501, 'plain'), (502, 'dups'), (1000, 'plain'),
                   (1001, 'mixed'), (1003, 'dups'), (1503, 'plain'), (167, 'props'), (168, 'props'), (335, 'props'),
                   (260, 'mixed'), (60, 'twins')]
BIG_SIZES_THOROUGH = BIG_SIZES_QUICK + [(n, st) for n in (2, 250, 499, 500, 501, 503, 999, 1000, 1001, 1002, 1500,
                                                           1502, 1504, 2004, 2506)
                                        for st in ('plain', 'mixed', 'dups')] + \
    [(n, 'props') for n in (166, 167, 169, 333, 334, 336, 500, 501, 668, 1002)]


def gen_big(rng, n, style):
    """One add_many with n entries (callers batch 1000 at a time; any chunking inside the table code has
    its own boundaries: every URL / parent / root string of the flattened batch must arrive), then
    count / get_one at chunk-boundary positions / check_out / a second overlapping batch."""
    tag = rng.randrange(10 ** 6)
    urls = ['http://h%d.example/%d/p%d' % (i % 5, tag, i) for i in range(n)]
    batch = []
    for i, u in enumerate(urls):
        if style == 'dups' and i > 3 and rng.random() < 0.1:
            u = urls[rng.randrange(i)]
        if style == 'twins' and i % 2 == 1:
            u = urls[i - 1].replace('/p', '/P')
        if style == 'props' or (style == 'mixed' and rng.random() < 0.5):
            props = {'parent_url': 'http://par.example/%d/%d' % (tag, i) if rng.random() < 0.7 else urls[0],
                     'root_url': 'http://root.example/%d/%d' % (tag, i) if rng.random() < 0.5 else urls[0],
                     'level': rng.choice([0, 1, 1, 2])}
        else:
            props = None
        batch.append({'url': u, 'props': props, 'data': None})
    ops = [['A', batch], ['C']]
    marks = [i for i in (0, 166, 167, 499, 500, 501, 1000, 1001, 1002, 1502, 1503, n - 1) if 0 <= i < n]
    for i in rng.sample(marks, min(3, len(marks))):
        ops.append(['1', urls[i]])
    ops.append(['O', 'todo', None])
    half = batch[n // 2:] + [{'url': 'http://new.example/%d/%d' % (tag, i), 'props': None, 'data': None}
                             for i in range(rng.choice([1, 3, 501]) if n > 400 else 2)]
    ops += [['A', half], ['C'], ['H']]
    return {'variant': rng.choice(['memory', 'memory', 'disk']), 'wrapped': rng.random() < 0.3, 'ops': ops}


# ------------------------------------------------------------------ exhaustive short histories
# the two URLs of the alphabet are case twins in the path: they must behave as two keys
XA, XB = 'http://a/wiki/Python', 'http://a/wiki/python'


def exhaustive_cases(thorough):
    """All call sequences prefix + c1 + c2 (+ c3 in the thorough tier) + observer over a 2-URL alphabet
    (a at level 0, b at level 1): every (state change, state change, observation) order after
    five typical table states.  Any answer that is not a function of the current rows alone
    (memo, cache, counter) differs from the model on one of them."""
    ea = {'url': XA, 'props': None, 'data': None}
    eb = {'url': XB, 'props': {'parent_url': XA, 'root_url': XA, 'level': 1}, 'data': None}
    changers = [['A', [ea]], ['A', [eb]], ['O', 'todo', None], ['O', 'todo', 1], ['O', 'error', None],
                ['I', XA, 'done', True, None], ['I', XA, 'error', True, None], ['I', XB, 'todo', False, None],
                ['R'], ['X', [XA]], ['U', XB, {'level': 0}], ['U', XA, {'status': 'todo'}], ['Z'], ['Y']]
    observers = [['O', 'todo', None], ['O', 'todo', 1], ['O', 'error', None], ['O', 'in_progress', None],
                 ['1', XA], ['C']]
    prefixes = [[['A', [ea, eb]], ['O', 'todo', None]],
                [['A', [ea, eb]], ['O', 'todo', None], ['O', 'todo', None]],
                [['A', [ea, eb]], ['O', 'todo', None], ['I', XA, 'error', True, None]]]
    if thorough:
        prefixes += [[], [['A', [ea, eb]]]]
    else:
        observers = observers[:5]
    import itertools
    cases = []
    k = 0
    depth = 3 if thorough else 2
    for pi, pre in enumerate(prefixes):
        d = depth if pi < 2 else 2
        for mid in itertools.product(changers, repeat=d):
            for obs in observers:
                k += 1
                # table creation dominates here: mostly the in-memory variant (generic only in thorough)
                variant = ('memory', 'memory', 'memory', 'disk')[k % 4] if not thorough else \
                    ('memory', 'memory', 'disk', 'memory', 'memory', 'generic', 'memory', 'memory')[k % 8]
                cases.append({'variant': variant, 'wrapped': (k // 4) % 2 == 1,
                              'ops': [json.loads(json.dumps(o)) for o in pre + list(mid) + [obs]]})
                if variant != 'memory' and k % 16 < 8:
                    cases[-1]['damage'] = 'all'
                    if k % 32 < 8:
                        cases[-1]['variant'] = 'generic'    # the --database-uri class on a damaged file
    return cases


# ------------------------------------------------------------------ running
def model_lines(cases, mode='run'):
    out = []
    for c in cases:
        out.append('table %s %s %s' % (mode, 'F' if c['variant'] == 'memory' else 'T',
                                       ' '.join(enc_op(op) for op, _ in flatten(c['ops']))))
    return out


def split_reply(rep, n):
    toks = rep.split(' ') if rep else []
    if len(toks) != n:
        raise Infra('table driver: %d replies for %d ops (%r)' % (len(toks), n, rep[:200]))
    res, prev = [], '~'
    for t in toks:
        o, _, st = t.partition('#')
        if st == '=':
            st = prev
        prev = st
        res.append((o, st))
    return res


def flatten(ops):
    """['K', subops, closed?] (closed: the parent closes its table before the fork, so the dead child's
    handle is the only one left behind) = a forked child opens the file, makes the calls and dies without close(); then the
    parent opens a new table object without closing its old one.  For the model that is: the calls, then
    a reopen.  Returns [(op, fork id or None)]."""
    flat = []
    for n, op in enumerate(ops):
        if op[0] == 'K':
            flat += [(list(so), n) for so in op[1]]
            flat.append((['Y'], None))
        else:
            flat.append((op, None))
    return flat


def run_case(ctx, case, reply, stream='session'):
    """Run one history on the real table; compare with the model reply; feed the oracle."""
    flat = flatten(case['ops'])
    ops = [op for op, _ in flat]
    model = split_reply(reply, len(ops)) if reply is not None else None
    real = Real(case['variant'], case['wrapped'], reuse=case.get('reuse', True), damage=case.get('damage'))
    oracle = Oracle(ctx, case, real.persistent)
    visits = VisitOracle(oracle)
    changed = False
    tags = set()
    try:
        prev_state = []
        forked = {}
        for i, (op, kid) in enumerate(flat):
            if kid is not None:
                if kid not in forked:
                    if len(case['ops'][kid]) > 2 and case['ops'][kid][2]:
                        real.table.close()      # the parent had closed cleanly; only the child is "killed"
                        tags.add('forked-child-after-close')
                    forked[kid] = real.fork_run([o for o, k2 in flat if k2 == kid])
                    tags.add('forked-child')
                out, result, state = forked[kid].pop(0)
            else:
                out, result = real.apply(op)
                state = None
            try:
                if isinstance(state, str):
                    raise RuntimeError(state)
                if state is None:
                    state = real.state()
            except Exception as e:
                ctx.disagree(stream, {'case': case, 'step': i}, model[i][1] if model else None,
                             'get_all raised %s' % exc_name(e))
                ctx.fail('table-unreadable', OPNAME.get(op[0], op[0]), dict(case, failed_at_step=i),
                         'get_all() raises %s after step %d' % (exc_name(e), i))
                break
            if state != prev_state:
                changed = True
            prev_state = state
            tags.add('op:' + OPNAME.get(op[0], op[0]) + (':' + result[1] if result[0] == 'exc' else ''))
            oracle.observe(i, op, result, state)
            visits.observe(op, result, real.persistent)
            if model is not None:
                m_out, m_state = model[i]
                m_out = canon_model_out(m_out)
                if op[0] == 'L' and m_out == 'recs:' + m_state and out == 'recs:' + enc_recs(state):
                    pass
                elif m_out != out:
                    ctx.disagree(stream, {'case': case, 'step': i, 'what': 'output'}, m_out, out)
                    break
                if m_state != enc_recs(state):
                    ctx.disagree(stream, {'case': case, 'step': i, 'what': 'get_all'}, m_state, enc_recs(state))
                    break
    finally:
        real.dispose()
    tags.add('variant:%s%s' % (case['variant'], '+wrapper' if case['wrapped'] else ''))
    if case.get('damage') is not None:
        tags.add('half-created-schema:' + case['variant'])
    tags.add('caller-objects:' + ('reused' if case.get('reuse', True) else 'fresh'))
    tags.add('stream:' + stream)
    ctx.case(('session', case['variant'], case['wrapped'], json.dumps(jsonable_ops(ops), sort_keys=True)),
             nontrivial=changed, tags=sorted(tags))
    ctx.tag('steps', len(ops))


def gen_multi(rng, maxlen=30):
    """2-3 table objects alive in one process (memory + file, file + file, memory + memory, bare and
    wrapped), calls interleaved between them, one of them closed and reopened while the others stay
    open: every table must keep behaving as if it were alone."""
    n = rng.choice([2, 2, 3])
    tables = [{'variant': rng.choice(['memory', 'disk', 'disk', 'generic']), 'wrapped': rng.random() < 0.4,
               'reuse': rng.random() < 0.6} for _ in range(n)]
    for t in tables:
        if t['variant'] != 'memory' and rng.random() < 0.35:
            t['damage'] = rng.choice(['all', rng.randrange(1000)])
    if rng.random() < 0.5:
        # two live table objects on the SAME file: they are one table
        tables[0]['variant'] = rng.choice(['disk', 'disk', 'generic'])
        tables[-1] = {'variant': tables[0]['variant'], 'wrapped': rng.random() < 0.4, 'same_as': 0}
    pool = rng.sample(PLAIN, rng.randrange(3, 6))
    ops = []
    for k in range(n):
        if rng.random() < 0.7:
            ops.append([k, ['A', [{'url': u, 'props': None, 'data': None}
                                  for u in rng.sample(pool, rng.randrange(1, len(pool)))]]])
    m = rng.randrange(6, maxlen + 1)
    while len(ops) < m:
        op = gen_probe(rng, pool)[1] if rng.random() < 0.3 else gen_op(rng, pool)
        if len(error_kinds(op)) > 1:
            continue
        ops.append([rng.randrange(n), op])
    return {'tables': tables, 'ops': ops}


def group_of(case, i):
    return case['tables'][i].get('same_as', i)


def multi_lines(case):
    """one model run per database: the calls made through any table object opened on it, in order"""
    return ['table run %s %s' % ('F' if t['variant'] == 'memory' else 'T',
                                 ' '.join(enc_op(op) for k, op in case['ops'] if group_of(case, k) == i))
            for i, t in enumerate(case['tables'])]


def run_multi(ctx, case, replies, stream='multi'):
    """Several live tables: each one against ITS OWN model run (its subsequence of the calls) and its own
    dict reference; after every call the tables that were not called must show what they showed before
    (the frame property `step_left_preserves_right` / `interleaving_projects` of the model)."""
    n = len(case['tables'])
    grp = [group_of(case, i) for i in range(n)]
    subs = [[op for k, op in case['ops'] if grp[k] == i] for i in range(n)]
    models = [split_reply(r, len(subs[i])) if r is not None and subs[i] else ([] if r is not None else None)
              for i, r in enumerate(replies)] if replies is not None else [None] * n
    reals, oracles, visits = [], [], []
    changed = False
    tags = set()
    try:
        for i, t in enumerate(case['tables']):
            try:
                reals.append(Real(t['variant'], t['wrapped'], share=reals[grp[i]] if grp[i] != i else None,
                                  reuse=t.get('reuse', True), damage=t.get('damage')))
            except Infra:
                raise
            except Exception as e:
                ctx.fail('constructor-raised', 'open', dict(case, failed_at_step=-1),
                         'opening table %d (%r) while tables %r are open raises %s'
                         % (i, t, list(range(i)), exc_name(e)))
                ctx.case(('multi', json.dumps(jsonable_ops(case['tables'])), 'constructor'), tags=['stream:' + stream])
                return
        for i, r in enumerate(reals):
            o = Oracle(ctx, case, r.persistent)
            o.label = 'table %d ' % i
            oracles.append(o)
            visits.append(VisitOracle(o))
        states = [[] for _ in range(n)]
        pos = [0] * n
        for gi, (tk, op) in enumerate(case['ops']):
            out, result = reals[tk].apply(op)
            k = grp[tk]
            new_states = []
            try:
                for r in reals:
                    new_states.append(r.state())
            except Exception as e:
                ctx.fail('table-unreadable', OPNAME.get(op[0], op[0]), dict(case, failed_at_step=gi),
                         'get_all() raises %s after step %d' % (exc_name(e), gi))
                break
            tags.add('op:' + OPNAME.get(op[0], op[0]) + (':' + result[1] if result[0] == 'exc' else ''))
            stop = False
            for j in range(n):
                if grp[j] == k and new_states[j] != new_states[tk]:
                    ctx.fail('same-file-tables-differ', OPNAME.get(op[0], op[0]), dict(case, failed_at_step=gi),
                             'step %d: after %s through table %d, table %d on the same file shows %r, table %d %r'
                             % (gi, OPNAME.get(op[0], op[0]), tk, j, [(f[0], f[3]) for f in new_states[j]][:6],
                                tk, [(f[0], f[3]) for f in new_states[tk]][:6]))
                    ctx.disagree(stream, {'case': case, 'step': gi, 'what': 'same-file'}, enc_recs(new_states[tk]),
                                 enc_recs(new_states[j]))
                    stop = True
                if grp[j] != k and new_states[j] != states[j]:
                    ctx.fail('other-table-changed', OPNAME.get(op[0], op[0]), dict(case, failed_at_step=gi),
                             'step %d: %s on table %d changed what table %d shows: %r -> %r'
                             % (gi, OPNAME.get(op[0], op[0]), k, j, [f[0] for f in states[j]][:6],
                                [f[0] for f in new_states[j]][:6]))
                    ctx.disagree(stream, {'case': case, 'step': gi, 'what': 'frame'}, enc_recs(states[j]),
                                 enc_recs(new_states[j]))
                    stop = True
            if new_states[tk] != states[tk]:
                changed = True
            oracles[k].observe(gi, op, result, new_states[tk])
            visits[k].observe(op, result, reals[k].persistent)
            if models[k] is not None:
                m_out, m_state = models[k][pos[k]]
                m_out = canon_model_out(m_out)
                if not (op[0] == 'L' and m_out == 'recs:' + m_state and out == 'recs:' + enc_recs(new_states[tk])) \
                        and m_out != out:
                    ctx.disagree(stream, {'case': case, 'step': gi, 'what': 'output'}, m_out, out)
                    stop = True
                elif m_state != enc_recs(new_states[tk]):
                    ctx.disagree(stream, {'case': case, 'step': gi, 'what': 'get_all'}, m_state, enc_recs(new_states[tk]))
                    stop = True
            pos[k] += 1
            states = new_states
            if stop:
                break
    finally:
        for r in reversed(reals):
            r.dispose()
    tags.add('stream:' + stream)
    if any(grp[i] != i for i in range(n)):
        tags.add('two-tables-one-file')
    tags.add('tables:%d' % n)
    ctx.case(('multi', json.dumps(jsonable_ops(case['tables'])), json.dumps(jsonable_ops(case['ops']), sort_keys=True)),
             nontrivial=changed, tags=sorted(tags))
    ctx.tag('steps', len(case['ops']))


def run_multis(ctx, cases, stream='multi'):
    if not cases:
        return
    lines, idx = [], []
    for c in cases:
        ls = multi_lines(c)
        idx.append((len(lines), len(ls)))
        lines += ls
    replies = ctx.model.ask(lines)
    for rep in replies:
        if rep in ('bad-arg', 'bad-op', 'bad-engine'):
            raise Infra('table driver rejected a request: %s' % rep)
    run_parallel(ctx, [(c, replies[a:a + b], stream) for c, (a, b) in zip(cases, idx)])


def jsonable_ops(ops):
    from runner import jsonable
    return jsonable(ops)


class Recorder:
    """stands in for ctx inside a worker process; `merge` replays the calls on the real ctx"""

    def __init__(self):
        self.events = []

    def case(self, key, nontrivial=True, tags=()):
        self.events.append(('case', (key,), {'nontrivial': nontrivial, 'tags': list(tags)}))

    def tag(self, t, n=1):
        self.events.append(('tag', (t, n), {}))

    def disagree(self, *a):
        self.events.append(('disagree', a, {}))

    def fail(self, *a):
        self.events.append(('fail', a, {}))


def _work(job):
    logging.disable(logging.CRITICAL)      # the wrapper logs every URL it cannot parse
    rec = Recorder()
    try:
        for case, rep, stream in job:
            if 'tables' in case:
                run_multi(rec, case, rep, stream)
            else:
                run_case(rec, case, rep, stream)
    except Infra as e:
        return rec.events, str(e)
    return rec.events, None


def run_parallel(ctx, jobs):
    """jobs: list of (case, model reply or None, stream)"""
    if not jobs:
        return
    nproc = max(1, min(8, ctx.jobs // 2, len(jobs) // 4))
    chunks = [jobs[i::nproc * 4] for i in range(nproc * 4)]
    chunks = [c for c in chunks if c]
    if nproc == 1:
        results = [_work(c) for c in chunks]
    else:
        with multiprocessing.get_context('fork').Pool(nproc) as pool:
            results = pool.map(_work, chunks)
    for events, err in results:
        for name, a, kw in events:
            getattr(ctx, name)(*a, **kw)
        if err:
            raise Infra(err)


def run_cases(ctx, cases, spec_share=0.0, stream='session'):
    if not cases:
        return
    replies = ctx.model.ask(model_lines(cases))
    for rep in replies:
        if rep in ('bad-arg', 'bad-op', 'bad-engine'):
            raise Infra('table driver rejected a request: %s' % rep)
    run_parallel(ctx, [(c, rep, stream) for c, rep in zip(cases, replies)])
    if spec_share > 0:
        k = max(1, int(len(cases) * spec_share))
        sub = cases[:k]
        a = ctx.model.ask(model_lines(sub, 'run'))
        b = ctx.model.ask(model_lines(sub, 'srun'))
        for c, x, y in zip(sub, a, b):
            ctx.tag('refinement-sampled')
            if x != y:
                ctx.disagree('refinement', {'case': c}, x, y)


def load_corpus(ctx):
    out = []
    for p in sorted(glob.glob(os.path.join(ctx.verif, 'harness', 'corpus', 'C14', '*.json'))):
        with open(p) as f:
            out.append(unjson(json.load(f)))
    return out


def normalise(case):
    case = dict(case)
    case.setdefault('variant', 'memory')
    case.setdefault('wrapped', False)
    case['ops'] = [list(op) for op in case['ops']]
    for op in case['ops']:
        if op[0] == 'K':
            op[1] = [list(so) for so in op[1]]
    return case


def replay(ctx, case, kind=None, where=None):
    case = case['case'] if 'case' in case and 'ops' not in case else case
    if 'tables' in case:
        case = dict(case)
        case.pop('failed_at_step', None)
        case['ops'] = [[k, list(op)] for k, op in case['ops']]
        run_multis(ctx, [case])
        return
    case = normalise(case)
    case.pop('failed_at_step', None)
    run_cases(ctx, [case])


def run(ctx):
    for case in load_corpus(ctx):
        replay(ctx, case)
    rng = ctx.rng
    n = ctx.scale(300, 3500)
    maxlen = 60 if ctx.tier == 'quick' else 400
    cases = []
    for i in range(n):
        # thorough: most histories stay short, a share goes up to 400 calls
        m = maxlen if (ctx.tier == 'quick' or i % 10 == 0) else 80
        cases.append(gen_session(rng, m))
    ctx.sample({'stream': 'session', 'variant': cases[0]['variant'], 'wrapped': cases[0]['wrapped'],
                'ops': cases[0]['ops'][:6]})
    run_cases(ctx, cases, spec_share=0.2)
    mrng = ctx.subrng('multi')
    multis = [gen_multi(mrng) for _ in range(ctx.scale(60, 600))]
    ctx.note('multi_table_histories', len(multis))
    run_multis(ctx, multis)
    brng = ctx.subrng('big')
    big = [gen_big(brng, n, st) for n, st in (BIG_SIZES_QUICK if ctx.tier == 'quick' else BIG_SIZES_THOROUGH)]
    ctx.note('large_batches', len(big))
    run_cases(ctx, big, stream='bigbatch')
    ex = exhaustive_cases(ctx.tier == 'thorough')
    ctx.note('exhaustive_short_histories', len(ex))
    run_cases(ctx, ex, stream='exhaustive')
    ctx.exhaustive = False


def search(ctx):
    rng = ctx.subrng('search')
    cases = [gen_session(rng, 60) for _ in range(ctx.scale(15, 30))]
    run_parallel(ctx, [(c, None, 'search') for c in cases])
    run_parallel(ctx, [(gen_multi(rng), None, 'search') for _ in range(ctx.scale(10, 20))])
    if not ctx.failures:
        run_parallel(ctx, [(c, None, 'search') for c in exhaustive_cases(False)])


def oracle_only(ctx):
    rng = ctx.rng
    run_parallel(ctx, [(gen_session(rng, 60), None, 'session') for _ in range(ctx.scale(200, 1000))])
