"""End-to-end, socket-free, deterministic runs of the whole wpull application.

`run_crawl(argv, site, seed)` builds the real application
(`Builder(args).build()`), runs `app.run()` on `sched.DetLoop(seed)` against an
in-process HTTP server (`SiteServer`) reached through `fakenet`, and returns the
observable trace: request lines per origin in arrival order, every URL-table
call with arguments and results, final table rows, exit status, hang flag.
Only stdlib / third-party entry points are replaced (asyncio.open_connection,
the DNS resolver's `resolve`), never wpull's crawl logic.
"""
import asyncio
import io
import os
import shutil
import sys
import tempfile

import compat  # noqa: F401
import fakenet
import sched


def quiet_stderr():
    """Worker processes: wpull logs fetch errors to stderr whatever the verbosity; drop them.
    (Exceptions of the harness itself still travel back through the executor.)"""
    try:
        fd = os.open(os.devnull, os.O_WRONLY)
        os.dup2(fd, 2)
    except OSError:
        pass


class Page:
    """What the server answers for one path."""

    def __init__(self, status=200, body=b'', ctype='text/html', headers=None, links=None,
                 location=None, close=False, raw=None, delay=None):
        self.status = status
        self.body = body
        self.ctype = ctype
        self.headers = list(headers or [])
        self.links = links
        self.location = location
        self.close = close
        self.raw = raw          # raw bytes to send instead of a formatted response
        self.delay = delay      # fixed virtual delay of the answer (None = seeded jitter)

    def render(self):
        if self.raw is not None:
            return self.raw
        reason = {200: 'OK', 301: 'Moved', 302: 'Found', 303: 'See Other', 307: 'Temporary Redirect',
                  308: 'Permanent Redirect', 404: 'Not Found', 500: 'Server Error', 503: 'Unavailable',
                  401: 'Unauthorized', 403: 'Forbidden'}.get(self.status, 'Status')
        lines = ['HTTP/1.1 %d %s' % (self.status, reason)]
        hdrs = list(self.headers)
        if self.location is not None:
            hdrs.append(('Location', self.location))
        if self.ctype and not any(k.lower() == 'content-type' for k, _ in hdrs):
            hdrs.append(('Content-Type', self.ctype))
        hdrs.append(('Content-Length', str(len(self.body))))
        if self.close:
            hdrs.append(('Connection', 'close'))
        for k, v in hdrs:
            lines.append('%s: %s' % (k, v))
        return ('\r\n'.join(lines) + '\r\n\r\n').encode('latin-1') + self.body


def html(links=(), inline=(), meta=None, title='t'):
    """A small HTML page: `links` become <a href>, `inline` become <img src>."""
    parts = ['<html><head><title>%s</title>' % title]
    if meta:
        parts.append(meta)
    parts.append('</head><body>')
    for l in links:
        parts.append('<a href="%s">x</a>' % l)
    for l in inline:
        parts.append('<img src="%s">' % l)
    parts.append('</body></html>')
    return ''.join(parts).encode('utf-8')


class SiteServer:
    """Serves `site[(host_header)][path] -> Page` (a key 'host#port' takes precedence: the same host header
    over another scheme); logs every request line."""

    def __init__(self, site, rng, loop, log, jitter=True, default=None):
        self.site = site
        self.rng = rng
        self.loop = loop
        self.log = log           # list of dicts appended in arrival order
        self.jitter = jitter
        self.default = default or Page(404, b'not found', 'text/plain')
        self.on_request = None   # hook(entry) called at arrival (kill points)

    def handler(self, scheme_port):
        srv = self

        class H:
            def __init__(self):
                self.buf = b''
                self.busy = False

            def on_write(self, conn, data):
                self.buf += data
                self.pump(conn)

            def pump(self, conn):
                while b'\r\n\r\n' in self.buf:
                    head, _, rest = self.buf.partition(b'\r\n\r\n')
                    self.buf = rest
                    srv.handle(conn, head, scheme_port)
        return H

    def handle(self, conn, head, port):
        lines = head.decode('latin-1').split('\r\n')
        try:
            method, target, _ = lines[0].split(' ', 2)
        except ValueError:
            method, target = 'BAD', lines[0]
        hdrs = {}
        for l in lines[1:]:
            k, _, v = l.partition(':')
            hdrs.setdefault(k.strip().lower(), v.strip())
        host = hdrs.get('host', '')
        entry = {'n': len(self.log), 'method': method, 'host': host, 'port': port, 'target': target,
                 'conn': id(conn) % 100000, 'headers': hdrs, 'raw': head}
        self.log.append(entry)
        if self.on_request:
            self.on_request(entry)
        pages = self.site.get('%s#%d' % (host, port)) or self.site.get(host) or self.site.get(host.split(':')[0]) or {}
        page = pages.get(target)
        if callable(page):
            page = page(entry)
        if page is None:
            page = self.default
        data = page.render()
        if 'if-modified-since' in hdrs and page.status == 200 and page.raw is None:
            # a server that honours conditional requests: what it has is never newer than what the client holds
            data = b'HTTP/1.1 304 Not Modified\r\nContent-Length: 0\r\n\r\n'
        if method == 'HEAD':
            data = data.split(b'\r\n\r\n', 1)[0] + b'\r\n\r\n'

        def deliver():
            if conn.client_closed:
                return
            split = getattr(page, 'split', None)
            if split and b'\r\n\r\n' in data and not data.endswith(b'\r\n\r\n'):
                # header block first, the body a little later (as a loaded server does): the client reads them apart
                head_, _, body_ = data.partition(b'\r\n\r\n')
                conn.send(head_ + b'\r\n\r\n')

                def rest():
                    if not conn.client_closed:
                        conn.send(body_)
                        if page.close:
                            conn.close()
                self.loop.call_later(split, rest)
                return
            conn.send(data)
            if page.close:
                conn.close()
        if page.delay is not None:
            self.loop.call_later(page.delay, deliver)
        elif self.jitter:
            self.loop.call_later(self.rng.uniform(0.001, 1.0), deliver)
        else:
            deliver()


TABLE_METHODS = ('add_many', 'check_out', 'check_in', 'update_one', 'release', 'remove_many')


def _canon_add(info):
    props = info.properties
    d = {'url': info.url}
    if props is not None:
        d.update({'level': props.level, 'inline_level': props.inline_level,
                  'parent': props.parent_url, 'root': props.root_url})
    return d


class TableTrace:
    """Wraps the methods of the URL table object the factory built."""

    def __init__(self):
        self.events = []
        self.on_event = None

    def install(self, table):
        from wpull.database.base import NotFound
        trace = self

        def wrap(name, orig):
            def wrapper(*args, **kwargs):
                if name == 'add_many':
                    infos = list(args[0])
                    res = orig(infos)
                    ev = {'op': 'add_many', 'batch': [_canon_add(i) for i in infos], 'inserted': list(res)}
                    trace._emit(ev)
                    return res
                if name == 'check_out':
                    status = args[0] if args else kwargs.get('filter_status')
                    try:
                        rec = orig(*args, **kwargs)
                    except NotFound:
                        trace._emit({'op': 'check_out', 'status': getattr(status, 'value', status), 'got': None})
                        raise
                    trace._emit({'op': 'check_out', 'status': getattr(status, 'value', status), 'got': rec.url,
                                 'level': rec.level, 'inline_level': rec.inline_level, 'try_count': rec.try_count,
                                 'link_type': getattr(rec.link_type, 'value', rec.link_type)})
                    return rec
                if name == 'check_in':
                    url, status = args[0], args[1]
                    res = orig(*args, **kwargs)
                    trace._emit({'op': 'check_in', 'url': url, 'status': getattr(status, 'value', status),
                                 'inc': bool(kwargs.get('increment_try_count', False))})
                    return res
                res = orig(*args, **kwargs)
                trace._emit({'op': name, 'args': repr(args)[:200]})
                return res
            return wrapper
        for m in TABLE_METHODS:
            setattr(table, m, wrap(m, getattr(table, m)))

    def _emit(self, ev):
        ev['n'] = len(self.events)
        self.events.append(ev)
        if self.on_event:
            self.on_event(ev)


class CrawlResult:
    def __init__(self):
        self.requests = []
        self.table = []
        self.rows = []
        self.exit_code = None
        self.hung = False
        self.error = None
        self.steps = 0

    def request_urls(self, scheme='http'):
        return ['%s://%s%s' % ('https' if r['port'] == 443 else scheme, r['host'], r['target'])
                for r in self.requests]


def default_argv(start_urls, db_path, out_dir, concurrent=1, extra=()):
    return list(start_urls) + ['--html-parser', 'html5lib', '--database', db_path, '--concurrent', str(concurrent),
                               '-q', '-o', os.devnull, '--waitretry', '0', '--tries', '2', '-P', out_dir, '--no-host-directories',
                               '--timeout', '50'] + list(extra)


def read_rows(db_path):
    import sqlite3
    con = sqlite3.connect(db_path)
    try:
        cur = con.execute(
            'select u.url, q.status, q.try_count, q.level, q.inline_level, q.link_type from queued_urls q '
            'join url_strings u on u.id = q.url_string_id order by q.id')
        return [dict(url=r[0], status=r[1], try_count=r[2], level=r[3], inline_level=r[4], link_type=r[5]) for r in cur]
    except sqlite3.OperationalError as e:
        if 'no such table' in str(e):
            return []           # a database whose tables were never (all) created
        raise
    finally:
        con.close()


class _Tty(io.StringIO):
    """stderr of an interactive run: the progress plugin draws its bar only on a terminal"""
    def isatty(self):
        return True


def run_crawl(start_urls, site, seed=0, concurrent=1, extra=(), workdir=None, ports=(80,),
              jitter=True, on_request=None, on_table_event=None, max_steps=3_000_000, keep_db=None,
              hosts_ips=None, verbose_tty=False, on_app=None, relative_paths=False):
    """Run one crawl.  `site`: {host_header: {target: Page | callable}}."""
    import random
    own = workdir is None
    if own:
        workdir = tempfile.mkdtemp(prefix='wpull-verif-')
    db_path = keep_db or os.path.join(workdir, 'crawl.db')
    out_dir = os.path.join(workdir, 'out')
    res = CrawlResult()
    loop = sched.new_det_loop(seed)
    rng = random.Random('srv/%d' % seed)
    net = fakenet.FakeNet()
    server = SiteServer(site, rng, loop, res.requests, jitter=jitter)
    server.on_request = on_request
    for port in ports:
        net.listen(None, port, server.handler(port))
    import wpull.network.dns as wdns
    orig_resolve = wdns.Resolver.resolve
    resolver = fakenet.FakeResolver(hosts_ips or {})
    wdns.Resolver.resolve = lambda self, host: resolver.resolve(host)
    trace = TableTrace()
    trace.on_event = on_table_event
    cwd = os.getcwd()
    import logging
    if not logging.getLogger().handlers:
        logging.getLogger().addHandler(logging.NullHandler())
    try:
        net.install()
        from wpull.application.options import AppArgumentParser
        from wpull.application.builder import Builder
        argv = default_argv(start_urls, db_path, out_dir, concurrent, extra)
        if relative_paths:
            # the command as a user types it in the run's directory: `--database crawl.db -P out`, the output
            # directory not made beforehand (it exists from the second run on)
            os.chdir(workdir)
            argv = default_argv(start_urls, os.path.relpath(db_path, workdir), 'out', concurrent, extra)
        if '--database-uri' in argv:
            # the same database file, addressed by URI (GenericSQLURLTable) instead of --database (SQLiteURLTable)
            k = argv.index('--database')
            del argv[k:k + 2]
            argv[argv.index('--database-uri') + 1] = 'sqlite:///' + db_path
        if '--warc-dedup' in argv:
            # a CDX index of an earlier capture, next to the database (loaded into the table at every start)
            cdx = os.path.join(workdir, 'earlier.cdx')
            if not os.path.exists(cdx):
                with open(cdx, 'w') as f:
                    f.write(' CDX a b m s k S V g u\n')
                    f.write('http://a.test/earlier 20200101000000 text/html 200 AAAABBBBCCCCDDDDEEEEFFFFGGGGHHHH 10 0 old.warc.gz <urn:uuid:00000000-0000-4000-8000-000000000001>\n')
            argv[argv.index('--warc-dedup') + 1] = cdx
        real_stderr = sys.stderr
        if verbose_tty:
            argv = [a for a in argv if a != '-q'] + ['-v']
            sys.stderr = _Tty()
        args = AppArgumentParser().parse_args(argv)
        builder = Builder(args)
        app = builder.build()
        factory = builder.factory
        # `--concurrent` is parsed but never applied in this tree; the supported
        # way to get N workers is the PipelineSeries API (what a plugin does)
        factory['PipelineSeries'].concurrency = concurrent

        # the URL table object is created by a pipeline task; hook its creation
        orig_new = factory.new

        def new(name, *a, **k):
            obj = orig_new(name, *a, **k)
            if name == 'URLTable':
                trace.install(obj)
            return obj
        factory.new = new
        if on_app is not None:
            on_app(app, builder)       # optional hook: instrument the built application before it runs
        if not relative_paths:
            os.makedirs(out_dir, exist_ok=True)
        os.chdir(workdir)
        done, task = loop.run_until_quiescent(app.run(), max_steps=max_steps)
        res.steps = loop.steps
        if not done:
            res.hung = True
            task.cancel()
            loop.drain()
        else:
            try:
                res.exit_code = task.result()
            except BaseException as e:  # noqa
                res.error = '%s: %s' % (type(e).__name__, e)
        try:
            table = factory.get('URLTable')
            if table is not None:
                table.close()
        except Exception:
            pass
        res.table = trace.events
        if os.path.exists(db_path):
            res.rows = read_rows(db_path)
    finally:
        if 'real_stderr' in locals():
            sys.stderr = real_stderr
        os.chdir(cwd)
        net.uninstall()
        wdns.Resolver.resolve = orig_resolve
        sched.close_loop(loop)
        import logging
        logging.shutdown()
        for h in list(logging.getLogger().handlers):
            logging.getLogger().removeHandler(h)
        logging.getLogger().addHandler(logging.NullHandler())
        logging.getLogger().setLevel(logging.WARNING)
        if own:
            shutil.rmtree(workdir, ignore_errors=True)
    return res
