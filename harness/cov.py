"""Line coverage of wpull's own sources while a check runs (VERIF_COV=<dir>): which lines of the files a
property is anchored in do the real-code runs of its check execute?  sys.monitoring (3.12): each location reports
once and is then disabled; every process (fork pools, killed children) appends to its own file at once."""
import os
import sys


def install(outdir, prefix):
    os.makedirs(outdir, exist_ok=True)
    state = {'pid': None, 'f': None}
    mon = sys.monitoring
    tool = mon.COVERAGE_ID

    def out():
        if state['pid'] != os.getpid():
            state['pid'] = os.getpid()
            state['f'] = open(os.path.join(outdir, 'cov.%d' % os.getpid()), 'a', buffering=1)
        return state['f']

    def line(code, lineno):
        fn = code.co_filename
        if fn.startswith(prefix):
            out().write('%s:%d\n' % (fn[len(prefix):], lineno))
        return mon.DISABLE
    try:
        mon.use_tool_id(tool, 'verifcov')
    except ValueError:
        return
    mon.register_callback(tool, mon.events.LINE, line)
    mon.set_events(tool, mon.events.LINE)
