"""Translator for C09's handler layer: wpull source -> raise/handle skeleton -> Lean obligation.

On every run the receive-path functions of the CURRENT source (ctx.repo) are
parsed with `ast` and turned into a `Wpull.Skeleton.Prog`:

  raise X(...)            -> .raise cls(X)            bare raise -> .reraise
  try/except/else/finally -> .tryH body handlers orelse fin   (class names resolved in the real modules,
                                                               tuples such as REMOTE_ERRORS expanded)
  if / for / while / with -> .choice / .loop / .seq
  call of a function defined in the curated wpull modules (resolved by name) -> its skeleton, inlined
                             (several definitions with that name -> .choice of them; recursion is cut)
  call of a declared primitive (PRIMS: int(), bytes.decode without errors=, zlib, stream I/O, ...)
                          -> .prim [declared classes]
  anything else           -> .skip    (assert statements, subscripts, attribute access and unknown
                                       calls are NOT modelled: that is the declared trusted base)

The generated Lean file states, for each entry point,
    allAllowed (ofTable table) allowed (escapes (ofTable table) entry []) = true
by `decide`, together with `transOk table = true`; `Proofs/C09.lean`
(`entry_only_allowed`, `escape_sound`) turns that into "only allowed classes can
leave the entry point".  The file is compiled in a per-run temporary directory.
"""
import ast
import importlib
import os
import subprocess
import sys
import tempfile

CURATED = [
    'wpull/processor/web.py', 'wpull/processor/ftp.py', 'wpull/processor/rule.py', 'wpull/processor/base.py',
    'wpull/protocol/http/client.py', 'wpull/protocol/http/stream.py', 'wpull/protocol/http/chunked.py',
    'wpull/protocol/http/request.py', 'wpull/protocol/http/web.py', 'wpull/protocol/http/robots.py',
    'wpull/protocol/http/redirect.py', 'wpull/protocol/http/util.py',
    'wpull/protocol/ftp/client.py', 'wpull/protocol/ftp/command.py', 'wpull/protocol/ftp/stream.py',
    'wpull/protocol/ftp/request.py', 'wpull/protocol/ftp/util.py', 'wpull/protocol/ftp/ls/listing.py',
    'wpull/protocol/ftp/ls/date.py',
    'wpull/protocol/abstract/client.py', 'wpull/protocol/abstract/stream.py', 'wpull/protocol/abstract/request.py',
    'wpull/network/connection.py', 'wpull/namevalue.py', 'wpull/decompression.py', 'wpull/robotstxt.py',
    'wpull/scraper/base.py', 'wpull/scraper/html.py', 'wpull/scraper/css.py', 'wpull/scraper/javascript.py',
    'wpull/scraper/sitemap.py', 'wpull/scraper/util.py', 'wpull/url.py', 'wpull/pipeline/session.py',
    'wpull/cookiewrapper.py', 'wpull/writer.py',
]

# names too generic to resolve by name (dict.get, file.read, ...): calls to them are resolved only
# when the receiver text matches the hint
GENERIC = {'get', 'read', 'write', 'close', 'add', 'update', 'pop', 'append', 'clear', 'seek', 'tell', 'items',
           'keys', 'values', 'join', 'split', 'strip', 'lower', 'upper', 'format', 'replace', 'startswith',
           'endswith', 'find', 'match', 'search', 'group', 'register', 'notify', 'call', 'debug', 'info',
           'warning', 'error', 'exception', 'copy', 'count', 'index', 'remove', 'discard', 'set', 'reset',
           'start', 'download', 'process', 'parse', 'session', 'connect', 'readline', 'flush', 'decompress',
           'to_bytes', 'to_str', 'to_dict', 'done', 'closed', 'load', 'check', 'fetch', '__init__', 'new',
           'truncate', 'size', 'name', 'scrape', 'iter_links', 'iter_processed_links', 'iter_text'}
RECEIVER_HINTS = {
    ('start', '_web_client_session'): ['wpull.protocol.http.web.WebSession.start'],
    ('download', '_web_client_session'): ['wpull.protocol.http.web.WebSession.download'],
    ('start', 'session'): ['wpull.protocol.http.client.Session.start', 'wpull.protocol.ftp.client.Session.start'],
    ('download', 'session'): ['wpull.protocol.http.client.Session.download', 'wpull.protocol.ftp.client.Session.download'],
    ('start', '_current_session'): ['wpull.protocol.http.client.Session.start'],
    ('download', '_current_session'): ['wpull.protocol.http.client.Session.download'],
    ('readline', '_connection'): ['wpull.network.connection.BaseConnection.readline'],
    ('read', '_connection'): ['wpull.network.connection.Connection.read', 'wpull.network.connection.BaseConnection.read'],
    ('write', '_connection'): ['wpull.network.connection.BaseConnection.write'],
    ('connect', '_connection'): ['wpull.network.connection.BaseConnection.connect'],
    ('parse', 'response'): ['wpull.protocol.http.request.Response.parse'],
    ('parse', 'fields'): ['wpull.namevalue.NameValueRecord.parse'],
    ('parse', 'reply'): ['wpull.protocol.ftp.request.Reply.parse'],
    ('parse', 'URLInfo'): ['wpull.url.URLInfo.parse'],
    ('decompress', '_decompressor'): ['wpull.decompression.GzipDecompressor.decompress', 'wpull.decompression.DeflateDecompressor.decompress'],
    ('flush', '_decompressor'): ['wpull.decompression.SimpleGzipDecompressor.flush', 'wpull.decompression.DeflateDecompressor.flush'],
    ('readline', 'reader'): ['prim:ValueError'],      # StreamReader.readline: line longer than the limit
    ('decompress', 'decompressobj'): ['prim:zlib.error'],
    ('flush', 'decompressobj'): ['prim:zlib.error'],
    ('scrape', 'scraper'): ['wpull.scraper.html.HTMLScraper.scrape', 'wpull.scraper.css.CSSScraper.scrape',
                            'wpull.scraper.javascript.JavaScriptScraper.scrape', 'wpull.scraper.sitemap.SitemapScraper.scrape'],
}
# declared raise-sets of primitives, by callee name
PRIMS = {
    'int': ['ValueError'], 'float': ['ValueError'],
    'decompressobj': [], 'unquote': [], 'urljoin': ['ValueError'],
    'wait_for': ['asyncio.TimeoutError'],
    'mktime': ['ValueError', 'OverflowError'],
    'datetime': ['ValueError'],
}
# `raise X(...)` statements of these classes are internal invariant checks (misuse of an API, "cannot
# happen" branches), like `assert`: not data a server controls.  Declared, not verified.
INTERNAL = ['Exception', 'RuntimeError', 'NotImplementedError', 'TypeError', 'AssertionError',
            'wpull.protocol.http.robots.NotInPoolError']
# raise sites declared unable to fire, with the reason (value reasoning the skeleton cannot do)
DECLARED_SAFE = {
    ('wpull.protocol.http.request.Response.parse_status_line', 'ValueError'): 'int() of a group the regex restricts to 1-3 digits',
    ('wpull.protocol.ftp.request.Reply.parse', 'ValueError'): 'int() of a group the regex restricts to 3 digits',
    ('wpull.protocol.http.client.Session.start', 'ValueError'): "int() of the request's own Content-Length field",
    ('wpull.protocol.http.web.WebSession._add_basic_auth_header', 'UnicodeDecodeError'): 'decode() of base64 output (ASCII)',
    ('wpull.protocol.ftp.util.parse_address', 'ValueError'): 'int() of groups the regex restricts to 1-3 digits',
}
# calls whose argument is the crawler's own, already validated data: (calling function, callee name)
SAFE_CALLS = {
    ('wpull.protocol.http.web.WebSession._get_cookie_referrer_host', 'parse'): "URLInfo.parse of the request's own Referer (a URL from the table / the --referer option)",
    ('wpull.protocol.http.robots.RobotsTxtChecker.fetch_robots_txt', 'parse'): 'URLInfo.parse of scheme://host[:port]/robots.txt rebuilt from a parsed URL',
}
# `yield from <name>` that is not a call: what the awaited thing may raise, by enclosing function
AWAITS = {'run_network_operation': ['OSError', 'asyncio.TimeoutError', 'AttributeError']}

ENTRIES = [
    # (entry function, classes allowed to leave it)
    ('wpull.processor.web.WebProcessorSession.process', ['wpull.application.hook.HookStop', 'wpull.errors.SSLVerificationError']),
    ('wpull.processor.ftp.FTPProcessorSession.process', ['wpull.application.hook.HookStop', 'wpull.errors.SSLVerificationError']),
    ('wpull.protocol.http.client.Session.start', ['REMOTE_ERRORS', 'RuntimeError']),
    ('wpull.protocol.http.client.Session.download', ['REMOTE_ERRORS', 'RuntimeError']),
    ('wpull.protocol.ftp.client.Session.start', ['REMOTE_ERRORS', 'RuntimeError']),
    ('wpull.protocol.ftp.client.Session.download_listing', ['REMOTE_ERRORS', 'RuntimeError']),
    ('wpull.protocol.http.robots.RobotsTxtChecker.can_fetch', ['REMOTE_ERRORS', 'RuntimeError']),
]


class Translator:
    def __init__(self, repo):
        self.repo = repo
        self.funcs = {}          # qualified name -> (FunctionDef, module name)
        self.by_name = {}        # bare name -> [qualified]
        self.classes = {}        # class object -> id
        self.class_list = []
        self.notes = []
        for rel in CURATED:
            path = os.path.join(repo, rel)
            if not os.path.exists(path):
                self.notes.append('missing ' + rel)
                continue
            mod = rel[:-3].replace('/', '.')
            tree = ast.parse(open(path, encoding='utf-8').read())
            for node in tree.body:
                if isinstance(node, (ast.FunctionDef, ast.AsyncFunctionDef)):
                    self._add(mod + '.' + node.name, node, mod)
                elif isinstance(node, ast.ClassDef):
                    for sub in node.body:
                        if isinstance(sub, (ast.FunctionDef, ast.AsyncFunctionDef)):
                            self._add('%s.%s.%s' % (mod, node.name, sub.name), sub, mod)

    def _add(self, q, node, mod):
        self.funcs[q] = (node, mod)
        self.by_name.setdefault(node.name, []).append(q)

    # ---- classes
    def cls_id(self, cls):
        if cls not in self.classes:
            self.classes[cls] = len(self.class_list)
            self.class_list.append(cls)
            for b in cls.__mro__[1:]:
                if b is not object:
                    self.cls_id(b)
        return self.classes[cls]

    def resolve_classes(self, node, modname):
        """ast expression naming exception class(es) -> list of class objects"""
        if node is None:
            return [BaseException]
        if isinstance(node, ast.Tuple):
            out = []
            for e in node.elts:
                out += self.resolve_classes(e, modname)
            return out
        try:
            obj = self.eval_in(ast.unparse(node), modname)
        except Exception:
            self.notes.append('unresolved class %s in %s' % (ast.unparse(node), modname))
            return [Exception]
        if isinstance(obj, tuple):
            return [c for c in obj if isinstance(c, type)]
        if isinstance(obj, type) and issubclass(obj, BaseException):
            return [obj]
        return [Exception]

    def eval_in(self, text, modname):
        mod = importlib.import_module(modname)
        return eval(text, vars(mod))

    def named_classes(self, names, modname='wpull.processor.base'):
        out = []
        for n in names:
            if n == 'REMOTE_ERRORS':
                out += list(self.eval_in('REMOTE_ERRORS', 'wpull.processor.base'))
            elif '.' in n:
                m, c = n.rsplit('.', 1)
                out.append(getattr(importlib.import_module(m), c))
            else:
                import builtins
                out.append(getattr(builtins, n))
        return out

    # ---- programs: ('skip',) ('raise', id) ('prim', [ids]) ('seq', a, b) ('choice', a, b) ('loop', a)
    #                ('reraise',) ('try', body, [(ids, prog)], orelse, fin)
    def seq(self, progs):
        progs = [p for p in progs if p != ('skip',)]
        if not progs:
            return ('skip',)
        out = progs[-1]
        for p in reversed(progs[:-1]):
            out = ('seq', p, out)
        return out

    def choice(self, progs):
        progs = list(dict.fromkeys(progs))
        if not progs:
            return ('skip',)
        out = progs[-1]
        for p in reversed(progs[:-1]):
            out = ('choice', p, out)
        return out

    def path(self, stack, fname):
        if not stack:
            return fname
        return '>'.join(q.split('.')[-1] for q in stack[:-1]) + ('>' if len(stack) > 1 else '') + stack[-1]

    def func(self, q, stack):
        if q in stack or len(stack) > 7:
            return ('skip',)
        node, mod = self.funcs[q]
        return self.drop_safe(self.block(node.body, mod, stack + (q,), node.name), q)

    def drop_safe(self, p, q):
        """remove raise sites of function q that are declared unable to fire"""
        k = p[0]
        if k == 'prim' and p[2].rsplit(':', 1)[0].endswith(q):
            keep = tuple(c for c in p[1] if (q, self.class_list[c].__name__) not in DECLARED_SAFE)
            return ('prim', keep, p[2]) if keep else ('skip',)
        if k == 'raise' and p[2].rsplit(':', 1)[0].endswith(q):
            return ('skip',) if (q, self.class_list[p[1]].__name__) in DECLARED_SAFE else p
        if k in ('seq', 'choice'):
            return (k, self.drop_safe(p[1], q), self.drop_safe(p[2], q))
        if k == 'loop':
            return ('loop', self.drop_safe(p[1], q))
        if k == 'try':
            return ('try', self.drop_safe(p[1], q), tuple((cs, self.drop_safe(h, q)) for cs, h in p[2]),
                    self.drop_safe(p[3], q), self.drop_safe(p[4], q))
        return p

    def block(self, stmts, mod, stack, fname):
        return self.seq([self.stmt(s, mod, stack, fname) for s in stmts])

    def stmt(self, s, mod, stack, fname):
        if isinstance(s, ast.Raise):
            pre = self.expr(s.exc, mod, stack, fname) if s.exc is not None else ('skip',)
            if s.exc is None:
                return ('reraise',)
            target = s.exc.func if isinstance(s.exc, ast.Call) else s.exc
            classes = self.resolve_classes(target, mod)
            internal = self.named_classes(INTERNAL)
            classes = [c for c in classes if c not in internal]
            return self.seq([pre, self.choice([('raise', self.cls_id(c), '%s:%d' % (self.path(stack, fname), s.lineno)) for c in classes])])
        if isinstance(s, ast.Try):
            body = self.block(s.body, mod, stack, fname)
            hs = []
            for h in s.handlers:
                classes = self.resolve_classes(h.type, mod)
                hs.append((tuple(self.cls_id(c) for c in classes), self.block(h.body, mod, stack, fname)))
            return ('try', body, tuple(hs), self.block(s.orelse, mod, stack, fname), self.block(s.finalbody, mod, stack, fname))
        if isinstance(s, ast.If):
            t = s.test
            conj = t.values if isinstance(t, ast.BoolOp) and isinstance(t.op, ast.And) else [t]
            inst = [c for c in conj if isinstance(c, ast.Call) and isinstance(c.func, ast.Name)
                    and c.func.id == 'isinstance' and len(c.args) == 2]
            if inst and len(s.body) == 1 and isinstance(s.body[0], ast.Raise) and s.body[0].exc is None:
                # `if [... and] isinstance(error, X): raise` re-raises only instances of X
                classes = self.resolve_classes(inst[0].args[1], mod)
                return self.choice([('prim', tuple(self.cls_id(c) for c in classes), '%s:%d' % (self.path(stack, fname), s.lineno)), self.block(s.orelse, mod, stack, fname)])
            return self.seq([self.expr(s.test, mod, stack, fname),
                             self.choice([self.block(s.body, mod, stack, fname), self.block(s.orelse, mod, stack, fname)])])
        if isinstance(s, (ast.For, ast.AsyncFor)):
            return self.seq([self.expr(s.iter, mod, stack, fname), ('loop', self.block(s.body, mod, stack, fname)),
                             self.block(s.orelse, mod, stack, fname)])
        if isinstance(s, ast.While):
            return self.seq([('loop', self.seq([self.expr(s.test, mod, stack, fname), self.block(s.body, mod, stack, fname)])),
                             self.block(s.orelse, mod, stack, fname)])
        if isinstance(s, (ast.With, ast.AsyncWith)):
            return self.seq([self.expr(i.context_expr, mod, stack, fname) for i in s.items] + [self.block(s.body, mod, stack, fname)])
        if isinstance(s, (ast.FunctionDef, ast.AsyncFunctionDef, ast.ClassDef, ast.Assert, ast.Import, ast.ImportFrom,
                          ast.Global, ast.Nonlocal, ast.Pass, ast.Break, ast.Continue)):
            return ('skip',)
        # expression-bearing statements
        return self.seq([self.expr(v, mod, stack, fname) for v in ast.iter_child_nodes(s) if isinstance(v, ast.expr)])

    def expr(self, e, mod, stack, fname):
        if e is None:
            return ('skip',)
        parts = []
        for node in ast.walk(e):
            if isinstance(node, ast.Lambda):
                continue
            if isinstance(node, ast.Call):
                parts.append(self.call(node, mod, stack, fname))
            elif isinstance(node, (ast.YieldFrom, ast.Await)) and not isinstance(node.value, ast.Call):
                decl = AWAITS.get(fname)
                if decl:
                    parts.append(('prim', tuple(self.cls_id(c) for c in self.named_classes(decl)), '%s:%d' % (self.path(stack, fname), node.lineno)))
        parts.reverse()          # inner calls first
        return self.seq(parts)

    def call(self, node, mod, stack, fname):
        f = node.func
        if isinstance(f, ast.Name):
            name, recv = f.id, ''
        elif isinstance(f, ast.Attribute):
            name, recv = f.attr, ast.unparse(f.value)
        else:
            return ('skip',)
        if name in ('decode', 'encode') and (len(node.args) < 2 and not any(k.arg == 'errors' for k in node.keywords)) \
                and not (node.args and isinstance(node.args[0], ast.Constant) and str(node.args[0].value).lower().replace('-', '') in ('latin1', 'iso88591')):
            cls = UnicodeDecodeError if name == 'decode' else UnicodeEncodeError
            if isinstance(f, ast.Attribute) and not isinstance(f.value, ast.Constant):
                return ('prim', (self.cls_id(cls),), '%s:%d' % (self.path(stack, fname), node.lineno))
            return ('skip',)
        if stack and (stack[-1], name) in SAFE_CALLS:
            return ('skip',)
        if name == 'parse' and any(k.arg == 'strict' and isinstance(k.value, ast.Constant) and k.value.value is False
                                   for k in node.keywords):
            return ('skip',)      # NameValueRecord.parse(strict=False) ignores malformed lines
        for (n, hint), targets in RECEIVER_HINTS.items():
            if n == name and recv.endswith(hint):
                return self.choice([self.target(t, stack, node.lineno) for t in targets])
        if name in PRIMS and name not in self.by_name:
            decl = PRIMS[name]
            return ('prim', tuple(self.cls_id(c) for c in self.named_classes(decl)), '%s:%d' % (self.path(stack, fname), node.lineno)) if decl else ('skip',)
        if name in GENERIC:
            return ('skip',)
        if name in self.by_name:
            qs = self.by_name[name]
            # a class-qualified call (`URLInfo.parse`, `cls.x`, `self.x`) narrows the candidates
            if recv in ('self', 'cls') and stack:
                own = stack[-1].rsplit('.', 1)[0]
                narrowed = [q for q in qs if q.startswith(own + '.')]
                qs = narrowed or qs
            return self.choice([self.func(q, stack) for q in qs[:6]])
        if name in PRIMS:
            decl = PRIMS[name]
            return ('prim', tuple(self.cls_id(c) for c in self.named_classes(decl)), '%s:%d' % (self.path(stack, fname), node.lineno)) if decl else ('skip',)
        return ('skip',)

    def target(self, t, stack, lineno=0):
        if t.startswith('prim:'):
            return ('prim', tuple(self.cls_id(c) for c in self.named_classes([t[5:]])), '%s:%d' % (self.path(stack, '?'), lineno))
        if t in self.funcs:
            return self.func(t, stack)
        self.notes.append('hint target missing: ' + t)
        return ('skip',)


# ---------------------------------------------------------------- python-side evaluation (mirror of Lean `escapes`)
def escapes(p, ctx, isa):
    """python mirror of Lean `escapes`; elements are (class id, origin) pairs"""
    k = p[0]
    if k == 'skip':
        return []
    if k == 'raise':
        return [(p[1], p[2])]
    if k == 'prim':
        return [(c, p[2]) for c in p[1]]
    if k in ('seq', 'choice'):
        return escapes(p[1], ctx, isa) + escapes(p[2], ctx, isa)
    if k == 'loop':
        return escapes(p[1], ctx, isa)
    if k == 'reraise':
        return list(ctx)
    if k == 'try':
        _, body, hs, orelse, fin = p
        eb = escapes(body, ctx, isa)
        out = [r for r in eb if not any(any(isa(r[0], c) for c in cs) for cs, _ in hs)]
        for cs, h in hs:
            cb = []
            eb_here = list(eb)
            eb = [r for r in eb if not any(isa(r[0], c) for c in cs)]   # later clauses see only the rest
            for r in eb_here:
                for c in cs:
                    if isa(r[0], c):
                        cb.append(r)
                    elif isa(c, r[0]):
                        cb.append((c, r[1]))
            cb += [(c, 'reraise') for c in cs if any(not isa(r[0], c) and not isa(c, r[0]) for r in eb_here)]
            out += escapes(h, cb, isa)
        return out + escapes(orelse, ctx, isa) + escapes(fin, ctx, isa)
    raise ValueError(k)


def size(p):
    k = p[0]
    if k in ('seq', 'choice'):
        return 1 + size(p[1]) + size(p[2])
    if k == 'loop':
        return 1 + size(p[1])
    if k == 'try':
        return 1 + size(p[1]) + sum(size(h) for _, h in p[2]) + size(p[3]) + size(p[4])
    return 1


def to_lean(p):
    k = p[0]
    if k == 'skip':
        return '.skip'
    if k == 'raise':
        return '(.raise %d)' % p[1]
    if k == 'prim':
        return '(.prim [%s])' % ', '.join(map(str, p[1]))
    if k in ('seq', 'choice'):
        return '(.%s %s %s)' % (k, to_lean(p[1]), to_lean(p[2]))
    if k == 'loop':
        return '(.loop %s)' % to_lean(p[1])
    if k == 'reraise':
        return '.reraise'
    _, body, hs, orelse, fin = p
    h = '.nil'
    for cs, hp in reversed(hs):
        h = '(.cons [%s] %s %s)' % (', '.join(map(str, cs)), to_lean(hp), h)
    return '(.tryH %s %s %s %s)' % (to_lean(body), h, to_lean(orelse), to_lean(fin))


def simplify(p):
    """drop sub-programs that cannot raise (keeps `escapes` unchanged, keeps the Lean term small)"""
    k = p[0]
    if k in ('seq', 'choice'):
        a, b = simplify(p[1]), simplify(p[2])
        if a == ('skip',):
            return b
        if b == ('skip',):
            return a
        if a == b and k == 'choice':
            return a
        return (k, a, b)
    if k == 'loop':
        a = simplify(p[1])
        return a if a == ('skip',) else ('loop', a)
    if k == 'try':
        _, body, hs, orelse, fin = p
        body, orelse, fin = simplify(body), simplify(orelse), simplify(fin)
        hs = tuple((cs, simplify(h)) for cs, h in hs)
        if body == ('skip',):
            # handlers can never run
            return simplify(('seq', orelse, fin))
        return ('try', body, hs, orelse, fin)
    return p


def build(repo):
    if repo not in sys.path:
        sys.path.insert(0, repo)
    tr = Translator(repo)
    entries = []
    for q, allowed in ENTRIES:
        if q not in tr.funcs:
            tr.notes.append('entry missing: ' + q)
            continue
        prog = simplify(tr.func(q, ()))
        allowed_ids = [tr.cls_id(c) for c in tr.named_classes(allowed)]
        entries.append((q, prog, allowed_ids))
    table = []
    for c in tr.class_list:
        table.append([tr.classes[b] for b in c.__mro__ if b is not object and b in tr.classes])
    return tr, entries, table


def check(ctx):
    """Regenerate the skeleton, evaluate the obligation in Python (to name the escaping class) and have
    Lean check it (`decide`) against the proved `entry_only_allowed`."""
    import compat  # noqa: F401
    tr, entries, table = build(ctx.repo)
    anc = {i: set(row) for i, row in enumerate(table)}

    def isa(e, c):
        return e == c or c in anc.get(e, ())
    lean_dir = os.path.join(ctx.verif, 'lean')
    lines = ['import Proofs.C09', 'open Wpull.Skeleton', 'set_option maxRecDepth 100000',
             'def tbl : List (List Nat) := [%s]' % ', '.join('[%s]' % ', '.join(map(str, r)) for r in table),
             'theorem tbl_trans : transOk tbl = true := by decide']
    summary = []
    for k, (q, prog, allowed) in enumerate(entries):
        esc = escapes(prog, [], isa)
        badpairs = sorted({(tr.class_list[r].__name__, o) for r, o in esc if not any(isa(r, a) for a in allowed)})
        bad = sorted({c for c, _ in badpairs})
        origins = {c: sorted({o for c2, o in badpairs if c2 == c})[:4] for c in bad}
        summary.append({'entry': q, 'nodes': size(prog), 'escapes': sorted({tr.class_list[r].__name__ for r, _ in esc}),
                        'not_allowed': bad, 'origins': origins})
        ctx.case(('static', q), tags=['static:' + ('clean' if not bad else 'escape')])
        lines.append('def entry%d : Prog := %s' % (k, to_lean(prog)))
        lines.append('theorem entry%d_ok : allAllowed (ofTable tbl) [%s] (escapes (ofTable tbl) entry%d []) = true := by decide'
                     % (k, ', '.join(map(str, allowed)), k))
        lines.append('theorem entry%d_sound (e : Nat) (hx : Exec (ofTable tbl) entry%d none (.exc e)) : '
                     '∃ a ∈ [%s], (ofTable tbl).isa e a = true := entry_only_allowed tbl _ entry%d tbl_trans entry%d_ok e hx'
                     % (k, k, ', '.join(map(str, allowed)), k, k))
        lines.append('#print axioms entry%d_sound' % k)
    ctx.note('static_skeleton', summary)
    ctx.note('static_notes', sorted(set(tr.notes))[:20])
    ctx.sample({'stream': 'static', 'entries': [s['entry'] for s in summary], 'classes': [c.__name__ for c in tr.class_list][:40]})
    with tempfile.TemporaryDirectory(prefix='wpull-verif-skel-') as d:
        path = os.path.join(d, 'SkeletonRun.lean')
        with open(path, 'w') as f:
            f.write('\n'.join(lines) + '\n')
        p = subprocess.run(['lake', 'env', 'lean', path], cwd=lean_dir, stdout=subprocess.PIPE, stderr=subprocess.STDOUT, text=True)
    import re as _re
    for k, (q, prog, allowed) in enumerate(entries):
        m = _re.search(r"'entry%d_sound' depends on axioms: \[([^\]]*)\]" % k, p.stdout)
        axs = [a.strip() for a in m.group(1).split(',')] if m else []
        good = bool(m) and all(a in ('propext', 'Classical.choice', 'Quot.sound') for a in axs)
        predicted_bad = bool(summary[k]['not_allowed'])
        # a failing generated obligation with a python-side witness is reported as that witness (ctx.fail above)
        why = ''
        if not good:
            why = 'Lean rejects the obligation generated from the current source'
            if predicted_bad:
                why += ': %s can leave %s, raised at %s' % (summary[k]['not_allowed'], q, summary[k]['origins'])
        ctx.dynamic_obligations.append({'theorem': 'generated entry%d_sound [%s]' % (k, q), 'ok': good,
                                        'axioms': axs, 'strength': 'partial',
                                        'says': 'skeleton of the current source: only allowed classes leave %s' % q,
                                        'why': why})
    ok = p.returncode == 0 and 'sorryAx' not in p.stdout
    ctx.note('static_lean', {'rc': p.returncode, 'tail': p.stdout[-600:]})
    if (not ok) != any(s['not_allowed'] for s in summary):
        ctx.disagree('static-skeleton', {'stream': 'static'}, 'Lean: rc=%s %s' % (p.returncode, p.stdout[-400:]),
                     'python mirror of escapes: %s' % [s['not_allowed'] for s in summary])
    return summary
