"""In-memory network: `asyncio.open_connection` is replaced by a function that
wires a real `asyncio.StreamReader` to an in-process scripted server.  Only the
stdlib entry point is replaced; wpull's own Connection / Stream / Session code
runs unmodified on top of it.  No sockets, no threads.
"""
import asyncio
import compat  # noqa: F401  (must precede wpull imports)


class FakeWriter:
    """What `asyncio.open_connection` hands to the client as `writer`."""

    def __init__(self, conn):
        self._conn = conn
        self.transport = self
        self.closed = False

    def write(self, data):
        if self.closed:
            return
        self._conn._client_wrote(bytes(data))

    def writelines(self, lines):
        for l in lines:
            self.write(l)

    async def drain(self):
        return None

    def close(self):
        if not self.closed:
            self.closed = True
            self._conn._client_closed()

    def is_closing(self):
        return self.closed

    async def wait_closed(self):
        return None

    def can_write_eof(self):
        return False

    def get_extra_info(self, name, default=None):
        if name == 'peername':
            return self._conn.address
        if name == 'sockname':
            return ('127.0.0.1', 40000)
        return default

    def abort(self):
        self.close()


class FakeConn:
    """One accepted connection.  `server.serve(conn)` may be a coroutine that
    awaits `conn.recv()` style helpers, or the script may be driven through
    `on_write` callbacks."""

    def __init__(self, net, address, handler):
        self.net = net
        self.address = address
        self.reader = asyncio.StreamReader(limit=2 ** 16)
        self.writer = FakeWriter(self)
        self.received = bytearray()      # everything the client wrote
        self.writes = []                 # one entry per writer.write call
        self.sent = bytearray()          # everything fed to the client
        self.client_closed = False
        self.server_closed = False
        self.handler = handler
        self._recv_waiter = None
        self.log = []                    # (event, data)

    # -- client side callbacks
    def _client_wrote(self, data):
        self.received += data
        self.writes.append(data)
        self.log.append(('c>', data))
        if self._recv_waiter and not self._recv_waiter.done():
            self._recv_waiter.set_result(None)
        cb = getattr(self.handler, 'on_write', None)
        if cb:
            cb(self, data)

    def _client_closed(self):
        self.client_closed = True
        self.log.append(('c-close', b''))
        # a real transport reports connection_lost to the protocol on the next loop
        # iteration, which ends a pending read with EOF
        try:
            asyncio.get_event_loop().call_soon(self._feed_eof_once)
        except RuntimeError:
            self._feed_eof_once()
        if self._recv_waiter and not self._recv_waiter.done():
            self._recv_waiter.set_result(None)
        cb = getattr(self.handler, 'on_close', None)
        if cb:
            cb(self)

    def _feed_eof_once(self):
        if not self.reader.at_eof() and not getattr(self.reader, '_eof', False):
            self.reader.feed_eof()

    # -- server side helpers
    def send(self, data):
        """Deliver one segment to the client."""
        if self.server_closed or not data:
            return
        if getattr(self.reader, '_eof', False):
            return
        self.sent += data
        self.log.append(('s>', bytes(data)))
        self.reader.feed_data(bytes(data))

    def close(self):
        if not self.server_closed:
            self.server_closed = True
            self.log.append(('s-close', b''))
            self._feed_eof_once()

    def reset(self):
        """The peer's RST: the pending / next read fails with ECONNRESET (no orderly close)."""
        if not self.server_closed:
            self.server_closed = True
            self.was_reset = True
            self.log.append(('s-reset', b''))
            self.reader.set_exception(ConnectionResetError(104, 'Connection reset by peer'))

    async def send_segments(self, segments, eof=False, yields=1):
        """Deliver segments one by one, letting the client run in between.  eof: True = close, 'reset' = RST."""
        for seg in segments:
            self.send(seg)
            for _ in range(yields):
                await asyncio.sleep(0)
        if eof == 'reset':
            self.reset()
        elif eof:
            self.close()

    async def wait_for_write(self):
        """Wait until the client writes something (or closes)."""
        n = len(self.writes)
        while len(self.writes) == n and not self.client_closed:
            self._recv_waiter = asyncio.get_event_loop().create_future()
            await self._recv_waiter
        return not self.client_closed


class FakeNet:
    """Registry address -> handler factory; patches asyncio.open_connection."""

    def __init__(self):
        self.handlers = {}
        self.conns = []
        self.default = None
        self._orig = None
        self.tasks = []
        self.refuse = set()

    def listen(self, host, port, handler_factory):
        self.handlers[(host, port)] = handler_factory

    async def open_connection(self, host=None, port=None, **kwargs):
        key = (host, port)
        if isinstance(port, int) and not 0 <= port <= 65535:
            # what the socket layer does for a port that is not one (a PASV reply may carry any six numbers)
            raise OverflowError('connect(): port must be 0-65535.')
        if key in self.refuse:
            raise ConnectionRefusedError(111, 'Connection refused')
        factory = self.handlers.get(key) or self.handlers.get((None, port)) or self.default
        if factory is None:
            raise ConnectionRefusedError(111, 'Connection refused')
        handler = factory()
        conn = FakeConn(self, key, handler)
        self.conns.append(conn)
        serve = getattr(handler, 'serve', None)
        if serve:
            t = asyncio.ensure_future(serve(conn))
            self.tasks.append(t)
        return conn.reader, conn.writer

    def install(self):
        self._orig = asyncio.open_connection
        asyncio.open_connection = self.open_connection
        import asyncio.streams as st
        self._orig_st = st.open_connection
        st.open_connection = self.open_connection
        return self

    def uninstall(self):
        asyncio.open_connection = self._orig
        import asyncio.streams as st
        st.open_connection = self._orig_st
        for t in self.tasks:
            if not t.done():
                t.cancel()

    def __enter__(self):
        return self.install()

    def __exit__(self, *a):
        self.uninstall()


def segment(data, cuts):
    """Split `data` at the sorted cut positions."""
    out = []
    prev = 0
    for c in sorted(set(c for c in cuts if 0 < c < len(data))):
        out.append(data[prev:c])
        prev = c
    out.append(data[prev:])
    return [s for s in out if s]


def random_cuts(rng, n, style=None):
    """A random segmentation of n bytes: list of cut positions."""
    if n <= 1:
        return []
    style = style or rng.choice(['none', 'one', 'few', 'many', 'bytes'])
    if style == 'none':
        return []
    if style == 'one':
        return [rng.randrange(1, n)]
    if style == 'few':
        return sorted(rng.sample(range(1, n), min(n - 1, rng.randint(2, 4))))
    if style == 'many':
        return sorted(rng.sample(range(1, n), min(n - 1, max(1, n // rng.randint(2, 6)))))
    return list(range(1, n))


class FakeResolver:
    """Stands in for wpull.network.dns.Resolver (no DNS in the sandbox)."""

    def __init__(self, table=None, default='10.0.0.1'):
        self.table = dict(table or {})
        self.default = default

    @asyncio.coroutine
    def resolve(self, host):
        import socket
        from wpull.network.dns import ResolveResult, AddressInfo
        ip = self.table.get(host)
        if ip is None:
            try:
                import ipaddress
                ipaddress.ip_address(host)
                ip = host
            except ValueError:
                ip = self.default
        fam = socket.AF_INET6 if ':' in ip else socket.AF_INET
        return ResolveResult([AddressInfo(ip, fam, None, None)])
        yield  # pragma: no cover


async def settle(task, feeders=(), extra=40, limit=100000):
    """Let the loop run until `task` is done or nothing more can happen:
    all feeders finished and `extra` further iterations passed."""
    n = 0
    idle = 0
    while not task.done() and n < limit:
        await asyncio.sleep(0)
        n += 1
        if all(f.done() for f in feeders):
            idle += 1
            if idle > extra:
                break
    return task.done()
