/-
Model of the append / rollback / journal logic of
`wpull/warc/recorder.py : WARCRecorder.write_record` (and of the start-up check
`_check_journals_and_maybe_raise`) as a program over a two-file file system.

The code (after the `fix:` commits a947289, 99b8c6f, edec9a6 of the wpull clone):

    before_offset = getsize(archive) if exists(archive) else 0
    try:
        with open(journal, 'w') as f: f.write('wpull-journal-version:1\n'); f.write('offset:N\n')
    except OSError:
        if exists(journal): remove(journal)
        raise
    try:
        with open_func(archive, 'ab') as out:           # open or gzip.GzipFile
            for data in record: out.write(data)
    except OSError as error:
        with open(archive, 'r+b') as out: out.truncate(before_offset)
        raise error
    finally:
        remove(journal)

Every raw primitive (system-call level: stat, open, write, ftruncate, close,
unlink) has an outcome of its own in the fault schedule `Sched`: it succeeds,
FAILS with OSError (a write: after a prefix of its data went out), or the process
DIES there (a write: after a prefix went out; any other primitive: before it takes
effect -- dying after primitive i is dying before primitive i+1).
The buffering / gzip layer between the Python statements and the raw writes is a
parameter: the list of raw writes it issues (including what it re-issues while
closing after a failure) is part of the schedule (`awrites`; for the journal text: `jwrite`, `jretry`).
Core Lean only.
-/
import Wpull.Py.Basic
namespace Wpull.WarcWrite
open Wpull

/-- outcome of one raw primitive -/
inductive Out
  | ok
  | fail (k : Nat)
  | die (k : Nat)
  deriving DecidableEq, Repr, Inhabited

/-- the two files; `none` = the file does not exist -/
structure FS where
  archive : Option Bytes
  journal : Option Bytes
  deriving DecidableEq, Repr

def FS.bytes (fs : FS) : Bytes := fs.archive.getD []

inductive Status
  | done      -- write_record returned
  | raised    -- OSError came out of write_record
  | died      -- the process was killed inside write_record
  deriving DecidableEq, Repr

/-- raw primitives in the order the code can issue them (for the trace) -/
inductive Prim
  | getsize
  | jopen | jwrite (d : Bytes) | jclose | junlink
  | aopen | awrite (d : Bytes) | aclose
  | ropen | rtrunc (n : Nat) | rclose
  | unlink
  | topen | tclose     -- `wpull.util.truncate_file`: `with open(path, 'wb'): pass`
  deriving DecidableEq, Repr

/-- how a logged primitive ended (`enoent`: the file was not there -- not a scheduled fault) -/
inductive Tag
  | ok | fail (k : Nat) | die (k : Nat) | enoent
  deriving DecidableEq, Repr

def Out.tag : Out → Tag
  | .ok => .ok | .fail k => .fail k | .die k => .die k

abbrev Trace := List (Prim × Tag)

/-- The fault schedule: one outcome per primitive the code can reach.  Outcomes
of primitives that are not reached are ignored. -/
structure Sched where
  getsize : Out := .ok
  jopen : Out := .ok
  /-- the raw write of the journal text (issued when the text file object is closed) -/
  jwrite : Out := .ok
  /-- CPython's `TextIOWrapper.close()` closes its buffer even when its own flush failed, and
  that close flushes once more: a failed `jwrite` is followed by one retry with the whole text -/
  jretry : Out := .ok
  jclose : Out := .ok
  /-- removal of the journal after its creation failed -/
  junlink : Out := .ok
  aopen : Out := .ok
  /-- raw writes to the archive opened for append, in order, with their outcomes -/
  awrites : List (Bytes × Out) := []
  /-- the record source (`for data in record`) raised OSError -/
  srcFail : Bool := false
  aclose : Out := .ok
  ropen : Out := .ok
  rtrunc : Out := .ok
  rclose : Out := .ok
  unlink : Out := .ok
  deriving Repr

/-! ### decimal numbers and the journal text -/

/-- little-endian decimal digits (fuel ≥ number of digits; `n + 1` always suffices) -/
def digitsLE : Nat → Nat → List Nat
  | 0, _ => []
  | fuel + 1, n => if n < 10 then [n] else (n % 10) :: digitsLE fuel (n / 10)

/-- `str(n).encode()` -/
def decimal (n : Nat) : Bytes := ((digitsLE (n + 1) n).map (· + 48)).reverse

/-- the text `write_record` puts into `<archive>-wpullinc` -/
def journalText (n : Nat) : Bytes :=
  lit "wpull-journal-version:1\noffset:" ++ decimal n ++ [10]

/-- value of big-endian decimal digit characters -/
def parseDecimal (s : Bytes) : Nat := s.foldl (fun acc c => acc * 10 + (c - 48)) 0

/-- What a recovery tool reads from a journal: the number after `offset:` on the second line. -/
def journalOffset? (j : Bytes) : Option Nat :=
  let pre := lit "wpull-journal-version:1\noffset:"
  if startsWith j pre then
    let rest := j.drop pre.length
    let ds := rest.takeWhile isAsciiDigit
    if ds ≠ [] ∧ rest.drop ds.length = [10] then some (parseDecimal ds) else none
  else none

/-! ### the phases -/

/-- Raw writes on a descriptor positioned at the end of `a`.
Returns (contents, some write failed, process died). -/
def writes (a : Bytes) : List (Bytes × Out) → Bytes × Bool × Bool
  | [] => (a, false, false)
  | (d, .ok) :: r => writes (a ++ d) r
  | (d, .fail k) :: r => let x := writes (a ++ d.take k) r; (x.1, true, x.2.2)
  | (d, .die k) :: _ => (a ++ d.take k, false, true)

def writesTrace (mk : Bytes → Prim) : List (Bytes × Out) → Trace
  | [] => []
  | (d, .die k) :: _ => [(mk d, .die k)]
  | (d, o) :: r => (mk d, o.tag) :: writesTrace mk r

/-- result of a phase: file system, trace, and how it ended
(`none` = fell through normally) -/
structure Ph where
  fs : FS
  tr : Trace
  st : Option Status

/-- close of a file object after its writes: `bad` = an earlier primitive of this
`with` block failed.  A failing close still releases the descriptor. -/
def closeStep (fs : FS) (tr : Trace) (p : Prim) (o : Out) (bad : Bool) : Ph :=
  match o with
  | .ok => ⟨fs, tr ++ [(p, .ok)], if bad then some .raised else none⟩
  | .fail k => ⟨fs, tr ++ [(p, .fail k)], some .raised⟩
  | .die k => ⟨fs, tr ++ [(p, .die k)], some .died⟩

/-- `with open(journal, 'w') as f: f.write(..); f.write(..)` -- the text reaches the
raw file when the file object is closed -/
def journalCreate (fs : FS) (n : Nat) (s : Sched) : Ph :=
  match s.jopen with
  | .fail k => ⟨fs, [(.jopen, .fail k)], some .raised⟩
  | .die k => ⟨fs, [(.jopen, .die k)], some .died⟩
  | .ok =>
    let t := journalText n
    match s.jwrite with
    | .ok => closeStep { fs with journal := some t } [(.jopen, .ok), (.jwrite t, .ok)] .jclose s.jclose false
    | .die k => ⟨{ fs with journal := some (t.take k) }, [(.jopen, .ok), (.jwrite t, .die k)], some .died⟩
    | .fail k =>
      match s.jretry with
      | .ok => closeStep { fs with journal := some (t.take k ++ t) }
                 [(.jopen, .ok), (.jwrite t, .fail k), (.jwrite t, .ok)] .jclose s.jclose true
      | .fail k2 => closeStep { fs with journal := some (t.take k ++ t.take k2) }
                 [(.jopen, .ok), (.jwrite t, .fail k), (.jwrite t, .fail k2)] .jclose s.jclose true
      | .die k2 => ⟨{ fs with journal := some (t.take k ++ t.take k2) },
                 [(.jopen, .ok), (.jwrite t, .fail k), (.jwrite t, .die k2)], some .died⟩

/-- the `except OSError:` around the journal creation: `if exists(journal): remove(journal); raise` -/
def journalPhase (fs : FS) (n : Nat) (s : Sched) : Ph :=
  let p := journalCreate fs n s
  match p.st with
  | some .raised =>
    match p.fs.journal with
    | none => p
    | some _ =>
      match s.junlink with
      | .ok => ⟨{ p.fs with journal := none }, p.tr ++ [(.junlink, .ok)], some .raised⟩
      | .fail k => ⟨p.fs, p.tr ++ [(.junlink, .fail k)], some .raised⟩
      | .die k => ⟨p.fs, p.tr ++ [(.junlink, .die k)], some .died⟩
  | _ => p

/-- `with open_func(archive, 'ab') as out: for data in record: out.write(data)` -/
def appendPhase (fs : FS) (s : Sched) : Ph :=
  match s.aopen with
  | .fail k => ⟨fs, [(.aopen, .fail k)], some .raised⟩
  | .die k => ⟨fs, [(.aopen, .die k)], some .died⟩
  | .ok =>
    let w := writes fs.bytes s.awrites
    let fs1 : FS := { fs with archive := some w.1 }
    let tr := (Prim.aopen, Tag.ok) :: writesTrace .awrite s.awrites
    if w.2.2 then ⟨fs1, tr, some .died⟩
    else closeStep fs1 tr .aclose s.aclose (w.2.1 || s.srcFail)

/-- `f.truncate(n)` on the raw file: cut, or zero-extend -/
def truncateTo (a : Bytes) (n : Nat) : Bytes := a.take n ++ List.replicate (n - a.length) 0

/-- `with open(archive, 'r+b') as out: out.truncate(before_offset)` -/
def rollbackPhase (fs : FS) (n : Nat) (s : Sched) : Ph :=
  match s.ropen with
  | .fail k => ⟨fs, [(.ropen, .fail k)], some .raised⟩
  | .die k => ⟨fs, [(.ropen, .die k)], some .died⟩
  | .ok =>
    match fs.archive with
    | none => ⟨fs, [(.ropen, .enoent)], some .raised⟩     -- FileNotFoundError (the open for append failed before creating it)
    | some a =>
      match s.rtrunc with
      | .die k => ⟨fs, [(.ropen, .ok), (.rtrunc n, .die k)], some .died⟩
      | .fail k => closeStep fs [(.ropen, .ok), (.rtrunc n, .fail k)] .rclose s.rclose true
      | .ok => closeStep { fs with archive := some (truncateTo a n) }
                 [(.ropen, .ok), (.rtrunc n, .ok)] .rclose s.rclose false

/-- `finally: os.remove(journal)`; `st` = how write_record ends if the removal works -/
def unlinkStep (fs : FS) (tr : Trace) (s : Sched) (st : Status) : Ph :=
  match fs.journal with
  | none => ⟨fs, tr ++ [(.unlink, .enoent)], some .raised⟩
  | some _ =>
    match s.unlink with
    | .ok => ⟨{ fs with journal := none }, tr ++ [(.unlink, .ok)], some st⟩
    | .fail k => ⟨fs, tr ++ [(.unlink, .fail k)], some .raised⟩
    | .die k => ⟨fs, tr ++ [(.unlink, .die k)], some .died⟩

/-- after the journal exists: append, roll back on error, remove the journal -/
def appendAndFinish (fs : FS) (n : Nat) (s : Sched) : Ph :=
  let a := appendPhase fs s
  match a.st with
  | some .died => a
  | some .raised =>
    let r := rollbackPhase a.fs n s
    match r.st with
    | some .died => ⟨r.fs, a.tr ++ r.tr, some .died⟩
    | _ => unlinkStep r.fs (a.tr ++ r.tr) s .raised
  | _ => unlinkStep a.fs a.tr s .done

/-- `WARCRecorder.write_record` from `before_offset = …` to the removal of the journal -/
def writeRecord (fs : FS) (s : Sched) : Ph :=
  let n := fs.bytes.length
  let pre : Ph :=
    match fs.archive with
    | none => ⟨fs, [], none⟩
    | some _ =>
      match s.getsize with
      | .ok => ⟨fs, [(.getsize, .ok)], none⟩
      | .fail k => ⟨fs, [(.getsize, .fail k)], some .raised⟩
      | .die k => ⟨fs, [(.getsize, .die k)], some .died⟩
  match pre.st with
  | some st => ⟨fs, pre.tr, some st⟩
  | none =>
    let j := journalPhase fs n s
    match j.st with
    | some st => ⟨j.fs, pre.tr ++ j.tr, some st⟩
    | none =>
      let f := appendAndFinish j.fs n s
      ⟨f.fs, pre.tr ++ j.tr ++ f.tr, f.st⟩

/-! ### the class of the I/O error

`except (OSError, IOError) as error:` -- the handler's condition is "ANY OSError": ENOSPC, EIO, but just
as well PermissionError (EACCES / EPERM), FileNotFoundError (ENOENT), InterruptedError, BlockingIOError,
TimeoutError and the `IOError` alias; each of them can come from the open, from any write, from the
flush inside close or from close itself after part of the record is on disk. -/

inductive IOErr
  | enospc | eio | eacces | eperm | enoent | eintr | eagain | etimedout | ioerror
  | enametoolong | enotdir | erofs | eloop
  -- exceptions that are NOT I/O errors but can surface at the same places: a second Ctrl+C under Python's
  -- default SIGINT handler, task cancellation, `sys.exit` in a callback, out of memory, a bug in the record source
  | keyboardInterrupt | cancelled | systemExit | memoryError | exception
  deriving DecidableEq, Repr

/-- `isinstance(e, OSError)` -/
def IOErr.isOSError : IOErr → Bool
  | .keyboardInterrupt | .cancelled | .systemExit | .memoryError | .exception => false
  | _ => true

/-- does the roll-back handler around the append catch this class?  `except BaseException` (since fix
838c311; before it was `except (OSError, IOError)` = `IOErr.isOSError`): everything. -/
def handlerCatches : IOErr → Bool := fun _ => true

/-- the journal creation is guarded by `except (OSError, IOError)` only: an I/O error removes the
(possibly partial) journal again; any other exception leaves it (the archive has not been touched). -/
def journalPhaseE (e : IOErr) (fs : FS) (n : Nat) (s : Sched) : Ph :=
  if e.isOSError then journalPhase fs n s else journalCreate fs n s

/-- `appendAndFinish` with the class `e` of the error that comes out of the `with` block spelled out:
the roll-back runs iff the handler catches that class; otherwise only `finally` runs. -/
def appendAndFinishE (e : IOErr) (fs : FS) (n : Nat) (s : Sched) : Ph :=
  let a := appendPhase fs s
  match a.st with
  | some .died => a
  | some .raised =>
    if handlerCatches e then
      let r := rollbackPhase a.fs n s
      match r.st with
      | some .died => ⟨r.fs, a.tr ++ r.tr, some .died⟩
      | _ => unlinkStep r.fs (a.tr ++ r.tr) s .raised
    else unlinkStep a.fs a.tr s .raised
  | _ => unlinkStep a.fs a.tr s .done

/-- `write_record` when the I/O errors of the schedule are of class `e` -/
def writeRecordE (e : IOErr) (fs : FS) (s : Sched) : Ph :=
  let n := fs.bytes.length
  let pre : Ph :=
    match fs.archive with
    | none => ⟨fs, [], none⟩
    | some _ =>
      match s.getsize with
      | .ok => ⟨fs, [(.getsize, .ok)], none⟩
      | .fail k => ⟨fs, [(.getsize, .fail k)], some .raised⟩
      | .die k => ⟨fs, [(.getsize, .die k)], some .died⟩
  match pre.st with
  | some st => ⟨fs, pre.tr, some st⟩
  | none =>
    let j := journalPhaseE e fs n s
    match j.st with
    | some st => ⟨j.fs, pre.tr ++ j.tr, some st⟩
    | none =>
      let f := appendAndFinishE e j.fs n s
      ⟨f.fs, pre.tr ++ j.tr ++ f.tr, f.st⟩

/-- final status (every path of `writeRecord` ends with one) -/
def Ph.status (p : Ph) : Status := p.st.getD .done

/-! ### start-up check -/

def endsWith (s suf : List Nat) : Bool := startsWith s.reverse suf.reverse

def journalSuffix : Str := lit "-wpullinc"

/-- `name.startswith(name_prefix) and name.endswith('-wpullinc')` -/
def isJournalName (namePrefix name : Str) : Bool :=
  startsWith name namePrefix && endsWith name journalSuffix

/-- `_check_journals_and_maybe_raise` over the listing of the prefix's directory:
`true` = OSError is raised (the run refuses to start) -/
def startupRefuses (namePrefix : Str) (listing : List Str) : Bool :=
  listing.any (isJournalName namePrefix)

/-- `_generate_warc_filename` (base name): prefix ++ sequence part ++ extension -/
def warcName (namePrefix seq : Str) (compress : Bool) : Str :=
  namePrefix ++ seq ++ (if compress then lit ".warc.gz" else lit ".warc")

def journalName (namePrefix seq : Str) (compress : Bool) : Str :=
  warcName namePrefix seq compress ++ journalSuffix

/-! ### a whole recorder life over a directory

`WARCRecorder.__init__`, `flush_session` (roll-over at `max_size`) and `close()` (the
`-meta` archive with the log record) call `_start_new_warc_file` and `write_record`
on several archives of one prefix.  The directory is a map file name ↦ contents; each
append works on the archive it is aimed at and on the journal NEXT TO IT. -/

/-- directory: file name ↦ contents (`none` = no such file) -/
abbrev Dir := Str → Option Bytes

def Dir.set (m : Dir) (k : Str) (v : Option Bytes) : Dir := fun x => if x = k then v else m x

/-- the journal guarding archive `a`: `self._warc_filename + '-wpullinc'` -/
def journalOf (a : Str) : Str := a ++ journalSuffix

/-- which file a primitive of an append to archive `a` acts on -/
def fileOf (a : Str) : Prim → Str
  | .jopen | .jwrite _ | .jclose | .junlink | .unlink => journalOf a
  | _ => a

abbrev NTrace := List (Str × Prim × Tag)

structure StepRes where
  dir : Dir
  st : Status
  tr : NTrace

/-- `write_record` aimed at archive `a` inside the directory -/
def appendTo (m : Dir) (a : Str) (s : Sched) (e : IOErr := .eio) : StepRes :=
  let r := writeRecordE e ⟨m a, m (journalOf a)⟩ s
  ⟨(m.set a r.fs.archive).set (journalOf a) r.fs.journal, r.status,
   r.tr.map (fun e => (fileOf a e.1, e.1, e.2))⟩

/-- `wpull.util.truncate_file(a)`: open for writing (creates / empties), close -/
def truncateFile (m : Dir) (a : Str) (o1 o2 : Out) : StepRes :=
  match o1 with
  | .fail k => ⟨m, .raised, [(a, .topen, .fail k)]⟩
  | .die k => ⟨m, .died, [(a, .topen, .die k)]⟩
  | .ok =>
    match o2 with
    | .ok => ⟨m.set a (some []), .done, [(a, .topen, .ok), (a, .tclose, .ok)]⟩
    | .fail k => ⟨m.set a (some []), .raised, [(a, .topen, .ok), (a, .tclose, .fail k)]⟩
    | .die k => ⟨m.set a (some []), .died, [(a, .topen, .ok), (a, .tclose, .die k)]⟩

inductive StepKind
  | startTrunc   -- `_start_new_warc_file` of a NON-appending run: truncate, then the warcinfo record
  | startKeep    -- `_start_new_warc_file` with `appending`: the warcinfo record goes behind what is there
  | append       -- any later `write_record`
  deriving DecidableEq, Repr

structure Step where
  kind : StepKind
  target : Str
  topen : Out := .ok
  tclose : Out := .ok
  sched : Sched := {}
  /-- class of the exceptions of this step's schedule -/
  err : IOErr := .eio

def runStep (m : Dir) (st : Step) : StepRes :=
  match st.kind with
  | .startTrunc =>
    let t := truncateFile m st.target st.topen st.tclose
    match t.st with
    | .done => let r := appendTo t.dir st.target st.sched st.err; ⟨r.dir, r.st, t.tr ++ r.tr⟩
    | _ => t
  | _ => appendTo m st.target st.sched st.err

/-- the steps of a life in order; an OSError or a kill ends it -/
def runLife (m : Dir) : List Step → StepRes
  | [] => ⟨m, .done, []⟩
  | st :: rest =>
    let r := runStep m st
    match r.st with
    | .done => let q := runLife r.dir rest; ⟨q.dir, q.st, r.tr ++ q.tr⟩
    | _ => r

/-- A recorder life: `__init__` first runs `_check_journals_and_maybe_raise` over the names present in
the directory; a left-over journal of ANY archive of the prefix ends the life before anything is touched. -/
def startLife (namePrefix : Str) (names : List Str) (m : Dir) (steps : List Step) : StepRes :=
  if startupRefuses namePrefix (names.filter fun n => (m n).isSome) then ⟨m, .raised, []⟩
  else runLife m steps

/-- `Dir` from a listing (first entry wins) -/
def Dir.ofList : List (Str × Option Bytes) → Dir
  | [] => fun _ => none
  | (k, v) :: r => fun x => if x = k then v else Dir.ofList r x

end Wpull.WarcWrite
