/-
Raise/handle skeletons (property C09, handler layer).

`harness/skeleton.py` translates, on every run, the receive-path functions of the
CURRENT wpull source into a `Prog`: what can raise what, and which `try` catches
what.  Exception classes are numbered by the translator; the subclass relation
is the real one (`cls.__mro__` of the running interpreter), shipped as a table.

`escapes` is the syntactic over-approximation of the classes that can leave a
program; `Proofs/C09.lean` proves it sound against the big-step semantics
`Exec` (theorem `escape_sound`), so "every class in `escapes entry` is a
subclass of a per-URL error kind" is a decidable, kernel-checked obligation about
the code as it is now.
-/
import Wpull.Py.Basic
namespace Wpull.Skeleton

/-- subclass table: `anc c` = all ancestors of class `c`, itself included -/
structure Lattice where
  anc : Nat → List Nat

def Lattice.isa (L : Lattice) (e c : Nat) : Bool := e == c || (L.anc e).contains c

mutual
  inductive Prog
    | skip
    /-- `raise E(...)`: an instance of exactly class `e` -/
    | raise (e : Nat)
    /-- something outside the skeleton (stdlib, third party, an unresolved call):
    may raise an instance of any subclass of any listed class, or return -/
    | prim (rs : List Nat)
    | seq (a b : Prog)
    /-- `if`/`else`, also "the callee is one of these" -/
    | choice (a b : Prog)
    /-- `for` / `while`: the body runs any number of times -/
    | loop (body : Prog)
    /-- bare `raise` inside a handler -/
    | reraise
    /-- `try: body  except …  else: orelse  finally: fin` -/
    | tryH (body : Prog) (hs : Handlers) (orelse : Prog) (fin : Prog)
  inductive Handlers
    | nil
    /-- `except (c₁, c₂, …): h`, then the later clauses -/
    | cons (cs : List Nat) (h : Prog) (rest : Handlers)
end

inductive Outcome
  | ok
  | exc (e : Nat)
  deriving DecidableEq, Repr

/-- does the clause list catch class `r` completely (every instance of `r`)? -/
def Handlers.catchesAll (L : Lattice) : Handlers → Nat → Bool
  | .nil, _ => false
  | .cons cs _ rest, r => cs.any (L.isa r ·) || rest.catchesAll L r

/-- upper bounds for what a clause `cs` may have caught, given bounds `eb` of what the body raises -/
def caughtBounds (L : Lattice) (eb cs : List Nat) : List Nat :=
  eb.flatMap (fun r => cs.filterMap (fun c => if L.isa r c then some r else if L.isa c r then some c else none))
    ++ cs.filter (fun c => eb.any (fun r => !L.isa r c && !L.isa c r))

mutual
  /-- classes (as upper bounds) that may leave `p`; `ctx` = bounds of the exception being handled -/
  def escapes (L : Lattice) : Prog → List Nat → List Nat
    | .skip, _ => []
    | .raise e, _ => [e]
    | .prim rs, _ => rs
    | .seq a b, ctx => escapes L a ctx ++ escapes L b ctx
    | .choice a b, ctx => escapes L a ctx ++ escapes L b ctx
    | .loop b, ctx => escapes L b ctx
    | .reraise, ctx => ctx
    | .tryH body hs orelse fin, ctx =>
      let eb := escapes L body ctx
      eb.filter (fun r => !hs.catchesAll L r) ++ escapesH L hs eb ++ escapes L orelse ctx ++ escapes L fin ctx
  def escapesH (L : Lattice) : Handlers → List Nat → List Nat
    | .nil, _ => []
    | .cons cs h rest, eb =>
      -- later clauses only see what this clause does not catch completely
      escapes L h (caughtBounds L eb cs) ++ escapesH L rest (eb.filter fun r => !cs.any (L.isa r ·))
end

/-- first clause that catches an instance of class `e` -/
def Handlers.find (L : Lattice) : Handlers → Nat → Option (List Nat × Prog)
  | .nil, _ => none
  | .cons cs h rest, e => if cs.any (L.isa e ·) then some (cs, h) else rest.find L e

/-- Big-step semantics.  `cur` = the exception being handled (for bare `raise`).
Deliberately permissive about control flow (`return`/`break` are not modelled:
a sequence may stop early), which only adds behaviours. -/
inductive Exec (L : Lattice) : Prog → Option Nat → Outcome → Prop
  | skip {cur} : Exec L .skip cur .ok
  | raise {cur e} : Exec L (.raise e) cur (.exc e)
  | primOk {cur rs} : Exec L (.prim rs) cur .ok
  | primExc {cur rs e r} : r ∈ rs → L.isa e r = true → Exec L (.prim rs) cur (.exc e)
  | seqExc {cur a b e} : Exec L a cur (.exc e) → Exec L (.seq a b) cur (.exc e)
  | seqNext {cur a b o} : Exec L a cur .ok → Exec L b cur o → Exec L (.seq a b) cur o
  | seqEarly {cur a b} : Exec L a cur .ok → Exec L (.seq a b) cur .ok
  | choiceL {cur a b o} : Exec L a cur o → Exec L (.choice a b) cur o
  | choiceR {cur a b o} : Exec L b cur o → Exec L (.choice a b) cur o
  | loopDone {cur b} : Exec L (.loop b) cur .ok
  | loopExc {cur b e} : Exec L b cur (.exc e) → Exec L (.loop b) cur (.exc e)
  | loopStep {cur b o} : Exec L b cur .ok → Exec L (.loop b) cur o → Exec L (.loop b) cur o
  | reraise {e} : Exec L .reraise (some e) (.exc e)
  /-- body fine, `else` clause, `finally` fine -/
  | tryOk {cur body hs orelse fin o} : Exec L body cur .ok → Exec L orelse cur o → Exec L fin cur .ok →
      Exec L (.tryH body hs orelse fin) cur o
  /-- body raises, no clause matches, `finally` fine: propagates -/
  | tryMiss {cur body hs orelse fin e} : Exec L body cur (.exc e) → hs.find L e = none → Exec L fin cur .ok →
      Exec L (.tryH body hs orelse fin) cur (.exc e)
  /-- body raises, a clause matches, its handler runs with `e` as the current exception -/
  | tryHit {cur body hs orelse fin e cs h o} : Exec L body cur (.exc e) → hs.find L e = some (cs, h) →
      Exec L h (some e) o → Exec L fin cur .ok → Exec L (.tryH body hs orelse fin) cur o
  /-- whatever happened before, a raising `finally` wins -/
  | tryFin {cur body hs orelse fin e} : Exec L fin cur (.exc e) → Exec L (.tryH body hs orelse fin) cur (.exc e)

/-- transitivity of the shipped subclass table (checked by `decide` on the concrete table) -/
def Lattice.Trans (L : Lattice) (n : Nat) : Prop :=
  ∀ e, e < n → ∀ r ∈ L.anc e, ∀ c ∈ L.anc r, c ∈ L.anc e

/-- the run-time check: every escaping bound is a subclass of an allowed class -/
def allAllowed (L : Lattice) (allowed : List Nat) (es : List Nat) : Bool :=
  es.all fun r => allowed.any (L.isa r ·)

end Wpull.Skeleton
