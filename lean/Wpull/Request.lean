/-
Model of the code that properties C16 and C18 are anchored in:

* `wpull/namevalue.py`               `NameValueRecord` (`__getitem__/__setitem__/add/pop/get_list/get_all/to_str/to_bytes`), `normalize_name`
* `wpull/protocol/http/request.py`   `Request.prepare_for_send`, `RawRequest.to_bytes`
* `wpull/url.py`                     `URLInfo.hostname_with_port`, `URLInfo.url` (over the *parsed components*, which are inputs)
* `wpull/protocol/http/redirect.py`  `RedirectTracker`
* `wpull/protocol/http/web.py`       `WebSession.__init__/start/_process_response/_process_redirect/
                                      _reset_url_bound_fields/_process_authentication/_add_basic_auth_header/_add_cookies`
* `wpull/cookiewrapper.py`           `convert_http_request`, `CookieJarWrapper.add_cookie_header`
                                      (+ the `has_header("Cookie")` test of `http.cookiejar.CookieJar.add_cookie_header`)
* `wpull/processor/web.py`, `wpull/processor/rule.py`, `wpull/urlfilter.py`, `wpull/pipeline/session.py`
                                      one visit of a URL: `TriesFilter`, the fetch loop, the `ResultRule` handler
                                      that is chosen, the single `check_in` with its try-count increment

Parameters (not modelled, results passed in): URL parsing and joining (`URLInfo.parse`, `urljoin`: the
components of every hop URL are inputs), the cookie jar's answer for a request, the base64 text of the
basic-authentication field (a concrete `basicAuth` is provided for the driver).
-/
import Wpull.Py.Basic
namespace Wpull.Request
open Wpull

/-! ### `str.title()` / `str.capitalize()` on ASCII names -/

def isAsciiAlpha (c : Nat) : Bool := isAsciiUpper c || isAsciiLower c

def titleGo : Bool → Str → Str
  | _, [] => []
  | prev, c :: t =>
    if isAsciiAlpha c then (if prev then asciiLower c else asciiUpper c) :: titleGo true t
    else c :: titleGo false t

/-- `name.title()` (`normalize_name` without overrides) -/
def title (s : Str) : Str := titleGo false s

/-- `key.capitalize()` (urllib.request.Request.add_header) -/
def capitalize : Str → Str
  | [] => []
  | c :: t => asciiUpper c :: t.map asciiLower

/-! ### NameValueRecord -/

/-- `_map`: normalised name ↦ list of values, in order of first insertion -/
abbrev Fields := List (Str × List Str)

def lookup (f : Fields) (n : Str) : Option (List Str) :=
  match f with
  | [] => none
  | e :: t => if e.1 = n then some e.2 else lookup t n

/-- `fields[name]` / `fields.get(name)`: first value, `none` = KeyError -/
def getField (f : Fields) (name : Str) : Option Str :=
  match lookup f (title name) with
  | some (v :: _) => some v
  | _ => none

/-- `name in fields` -/
def hasField (f : Fields) (name : Str) : Bool := (getField f name).isSome

def setRaw (f : Fields) (n : Str) (v : Str) : Fields :=
  match f with
  | [] => [(n, [v])]
  | e :: t => if e.1 = n then (n, [v]) :: t else e :: setRaw t n v

/-- `fields[name] = value` -/
def setField (f : Fields) (name v : Str) : Fields := setRaw f (title name) v

def addRaw (f : Fields) (n : Str) (v : Str) : Fields :=
  match f with
  | [] => [(n, [v])]
  | e :: t => if e.1 = n then (n, e.2 ++ [v]) :: t else e :: addRaw t n v

/-- `fields.add(name, value)` -/
def addField (f : Fields) (name v : Str) : Fields := addRaw f (title name) v

/-- `fields.pop(name, None)` (`MutableMapping.pop`: `self[name]` must succeed before `del`) -/
def popField (f : Fields) (name : Str) : Fields :=
  if hasField f name then f.filter (fun e => e.1 ≠ title name) else f

/-- `fields.get_list(name)` -/
def getList (f : Fields) (name : Str) : List Str := (lookup f (title name)).getD []

/-- `fields.get_all()` -/
def getAll (f : Fields) : List (Str × Str) :=
  f.flatMap (fun e => e.2.map (fun v => (e.1, v)))

/-- one element of `pairs` in `to_str` (no wrap width) -/
def pairStr (n v : Str) : Str := if v = [] then n ++ [58] else n ++ [58, 32] ++ v

/-- `fields.to_str()`: `'\r\n'.join(pairs + [''])` -/
def fieldsToStr (f : Fields) : Str :=
  (getAll f).flatMap (fun p => pairStr p.1 p.2 ++ [13, 10])

/-- `s.encode('latin-1', errors='replace')` -/
def latin1Replace (s : Str) : Bytes := s.map (fun c => if c < 256 then c else 63)

/-- `s.encode('latin-1')` -/
def latin1Strict (s : Str) : Except PyExc Bytes :=
  if s.all (· < 256) then .ok s else .error .UnicodeEncodeError

/-! ### URL components (the output of `URLInfo.parse`; inputs of this model) -/

structure UrlC where
  scheme : Str
  hostname : Str
  port : Nat
  ipv6 : Bool
  path : Str
  query : Str
  /-- percent-decoded user name / password (`''` when absent) -/
  username : Str
  password : Str
  /-- `normalize_username(username)`, `normalize_password(password)` -/
  normUser : Str
  normPass : Str
  deriving DecidableEq, Repr, Inhabited

def decGo : Nat → Nat → Str → Str
  | 0, _, acc => acc
  | f + 1, n, acc =>
    let acc' := (48 + n % 10) :: acc
    if n < 10 then acc' else decGo f (n / 10) acc'

/-- `str(n)` -/
def natToDec (n : Nat) : Str := decGo (n + 1) n []

/-- `RELATIVE_SCHEME_DEFAULT_PORTS.get(scheme)` -/
def defaultPort (scheme : Str) : Option Nat :=
  if scheme = lit "http" then some 80
  else if scheme = lit "https" then some 443
  else if scheme = lit "ftp" then some 21
  else if scheme = lit "gopher" then some 70
  else if scheme = lit "ws" then some 80
  else if scheme = lit "wss" then some 443
  else none

def hostBracket (u : UrlC) : Str := if u.ipv6 then [91] ++ u.hostname ++ [93] else u.hostname

/-- `URLInfo.hostname_with_port` -/
def hostnameWithPort (u : UrlC) : Str :=
  match defaultPort u.scheme with
  | none => []
  | some d => if d ≠ u.port then hostBracket u ++ [58] ++ natToDec u.port else hostBracket u

/-- `URLInfo.url` for a network scheme -/
def urlStr (u : UrlC) : Str :=
  u.scheme ++ lit "://"
    ++ (if u.username ≠ [] then u.normUser else [])
    ++ (if u.password ≠ [] then [58] ++ u.normPass else [])
    ++ (if u.username ≠ [] ∨ u.password ≠ [] then [64] else [])
    ++ hostBracket u
    ++ (if defaultPort u.scheme ≠ some u.port then [58] ++ natToDec u.port else [])
    ++ u.path
    ++ (if u.query ≠ [] then [63] ++ u.query else [])

/-! ### Request -/

structure Req where
  method : Str
  resourcePath : Str
  version : Str
  fields : Fields
  url : UrlC
  /-- `request.username`, `request.password` (`''` = None) -/
  username : Str
  password : Str
  deriving DecidableEq, Repr, Inhabited

/-- the request target: origin form, or absolute form for a proxy -/
def target (u : UrlC) (fullUrl : Bool) : Str :=
  if fullUrl then urlStr u
  else if u.query ≠ [] then u.path ++ [63] ++ u.query else u.path

/-- `Request.prepare_for_send(full_url)` -/
def prepareForSend (r : Req) (fullUrl : Bool) : Req :=
  let fields := if hasField r.fields (lit "Host") then r.fields
                else setField r.fields (lit "Host") (hostnameWithPort r.url)
  { r with fields := fields, resourcePath := target r.url fullUrl }

def requestLine (r : Req) : Str := r.method ++ [32] ++ r.resourcePath ++ [32] ++ r.version

/-- `RawRequest.to_bytes()` -/
def toBytes (r : Req) : Except PyExc Bytes :=
  if r.method = [] ∨ r.resourcePath = [] ∨ r.version = [] then .error .AssertionError
  else
    match latin1Strict (requestLine r) with
    | .error e => .error e
    | .ok status => .ok (status ++ [13, 10] ++ latin1Replace (fieldsToStr r.fields) ++ [13, 10])

/-- text after the last `@` (the whole text when there is none): `authority.rpartition('@')[2]` -/
def afterLastAt (s : Str) : Str :=
  go s s
where
  go : Str → Str → Str
    | [], best => best
    | c :: t, best => if c = 64 then go t t else go t best

/-- `WebProcessorSession._strip_userinfo` (the repaired code; KNOWN_FINDINGS.txt `fixed:` C16):
the URL without `user:password@` -/
def stripUserinfo (url : Str) : Str :=
  match findSub url (lit "://") with
  | none => url
  | some i =>
    let rest := url.drop (i + 3)
    let authority := rest.takeWhile (fun c => c != 47 && c != 63 && c != 35)
    if authority.contains 64 then url.take (i + 3) ++ afterLastAt authority ++ rest.drop authority.length
    else url

/-- `WebProcessorSession._add_referrer` inside `_populate_common_request`:
no referrer from an https page to an http URL, none over one that is already set, and never the
user-info of the referring page -/
def populateReferrer (f : Fields) (parentUrl : Str) (scheme : Str) : Fields :=
  if parentUrl ≠ [] ∧ (getField f (lit "Referer")).getD [] = [] then
    if startsWith parentUrl (lit "https://") && scheme = lit "http" then f
    else setField f (lit "Referer") (stripUserinfo parentUrl)
  else f

/-- the login part of `_populate_common_request`: `request.username, request.password = http_login` when a
login is configured (`--http-user and --http-password`).  The URL's own user-info is NOT copied into these
attributes: it stays in the URL, which is what binds it to its host across `Request.copy()`. -/
def populateLogin (r : Req) (httpLogin : Option (Str × Str)) : Req :=
  match httpLogin with
  | some (u, p) => { r with username := u, password := p }
  | none => r

/-! ### basic authentication text (concrete instance of the `auth` parameter) -/

/-- `s.encode('utf-8', 'replace')`: lone surrogates become `?` -/
def utf8Replace : Str → Bytes
  | [] => []
  | c :: t =>
    (if c < 0x80 then [c]
     else if c < 0x800 then [0xC0 + c / 64, 0x80 + c % 64]
     else if 0xD800 ≤ c ∧ c ≤ 0xDFFF then [63]
     else if c < 0x10000 then [0xE0 + c / 4096, 0x80 + c / 64 % 64, 0x80 + c % 64]
     else [0xF0 + c / 262144 % 8, 0x80 + c / 4096 % 64, 0x80 + c / 64 % 64, 0x80 + c % 64])
    ++ utf8Replace t

def b64Char (n : Nat) : Nat :=
  let n := n % 64
  if n < 26 then 65 + n else if n < 52 then 97 + (n - 26) else if n < 62 then 48 + (n - 52)
  else if n = 62 then 43 else 47

/-- `base64.b64encode` -/
def b64 : Bytes → Str
  | [] => []
  | [a] => [b64Char (a / 4), b64Char (a % 4 * 16), 61, 61]
  | [a, b] => [b64Char (a / 4), b64Char (a % 4 * 16 + b / 16), b64Char (b % 16 * 4), 61]
  | a :: b :: c :: t =>
    [b64Char (a / 4), b64Char (a % 4 * 16 + b / 16), b64Char (b % 16 * 4 + c / 64), b64Char (c % 64)] ++ b64 t

/-- `'Basic ' + b64encode('{}:{}'.format(username, password).encode('utf-8', 'replace'))` -/
def basicAuth (user pass : Str) : Str := lit "Basic " ++ b64 (utf8Replace (user ++ [58] ++ pass))

/-! ### WebSession -/

inductive LoopType | normal | redirect | authentication
  deriving DecidableEq, Repr, Inhabited

/-- what `urljoin` + `URLInfo.parse` made of a `Location` value (parameter) -/
inductive Target
  | invalid                 -- ValueError
  | other                   -- parses, but not an http/https URL: `ProtocolError('Redirect to an unsupported URL scheme.')`
  | url (u : UrlC)
  deriving DecidableEq, Repr, Inhabited

/-- one move of the server (the adversary) -/
inductive Reply
  /-- a response: status code, whether a non-empty `Location` field is present, and its target -/
  | resp (status : Nat) (hasLoc : Bool) (tgt : Target)
  /-- no usable response: connection failure, garbage, timeout (some `REMOTE_ERRORS` exception) -/
  | fail (e : PyExc)
  /-- no connection at all (refused, DNS failure): the request is never written -/
  | noConnect (e : PyExc)
  deriving DecidableEq, Repr, Inhabited

/-- verdict of the processor loop for the next request of a running visit -/
inductive Gate
  | pass
  /-- a URL filter or robots.txt refuses: `item_session.skip(); break` -/
  | refuse
  /-- consulting robots.txt for the redirect target raised a `REMOTE_ERRORS` exception:
  `handle_error(...); break` -/
  | fail (e : PyExc)
  deriving DecidableEq, Repr, Inhabited

structure Cfg where
  maxRedirects : Nat
  /-- talking to a proxy without tunnel (`connection.proxied and not connection.tunneled`) for http URLs -/
  proxy : Bool
  /-- fields of `request_factory(url)` (User-Agent, configured headers, …) -/
  factoryFields : Fields
  useJar : Bool
  /-- text of the Authorization field for a user name and password -/
  auth : Str → Str → Str
  /-- the cookie jar's `Cookie` text for the i-th `add_cookie_header` call, made for that URL -/
  jar : Nat → UrlC → Option Str
  /-- what the caller (`_process_loop`) decides about the next request, given how many requests the
  visit has sent: URL filters (`_should_fetch_reason`) and, for a redirect hop, the robots.txt
  consult; `fun _ => .pass` for a bare WebSession -/
  gate : Nat → Gate := fun _ => .pass
  /-- `--retry-connrefused`, `--retry-dns-error` (`ResultRule.retry_connrefused / retry_dns_error`) -/
  retryConnRefused : Bool := false
  retryDnsError : Bool := false

structure Sess where
  /-- `_original_request` -/
  orig : Req
  /-- `_next_request` -/
  cur : Option Req
  /-- `_next_request is _original_request` (mutations of one are mutations of the other) -/
  aliased : Bool
  loopType : LoopType
  hostsWithAuth : List Str
  numRedirects : Nat
  jarCalls : Nat
  deriving Repr, Inhabited

def isRedirectCode (st : Nat) : Bool := st = 301 || st = 302 || st = 303 || st = 307 || st = 308
def isRepeatCode (st : Nat) : Bool := st = 307 || st = 308

/-- replace `_next_request` (a mutation of the object: visible through the alias) -/
def Sess.setCur (s : Sess) (r : Req) : Sess :=
  { s with cur := some r, orig := if s.aliased then r else s.orig }

/-- `_add_basic_auth_header(request)` -/
def addBasicAuth (cfg : Cfg) (r : Req) : Req :=
  let user := if r.url.username ≠ [] then r.url.username else r.username
  let pass := if r.url.password ≠ [] then r.url.password else r.password
  if user ≠ [] ∧ pass ≠ [] then { r with fields := setField r.fields (lit "Authorization") (cfg.auth user pass) }
  else r

/-- ordered `dict` update `d[k] = v` -/
def dictSet (d : List (Str × Str)) (k v : Str) : List (Str × Str) :=
  match d with
  | [] => [(k, v)]
  | e :: t => if e.1 = k then (k, v) :: t else e :: dictSet t k v

/-- `CookieJarWrapper.add_cookie_header(request)`: the fields go through a
`urllib.request.Request` (`headers[key.capitalize()] = value`), the jar adds its
`Cookie` only when none is there, then `fields.clear()` and every header item is added back. -/
def addCookies (cfg : Cfg) (i : Nat) (r : Req) : Req :=
  let hdrs := (getAll r.fields).foldl (fun d p => dictSet d (capitalize p.1) p.2) []
  let jarAdd : List (Str × Str) :=
    if hdrs.any (fun e => e.1 = lit "Cookie") then []
    else match cfg.jar i r.url with
      | some v => [(lit "Cookie", v)]
      | none => []
  { r with fields := (jarAdd ++ hdrs).foldl (fun f p => addField f p.1 p.2) [] }

/-- `request_factory(url)` -/
def freshReq (cfg : Cfg) (u : UrlC) : Req :=
  { method := lit "GET", resourcePath := urlStr u, version := lit "HTTP/1.1",
    fields := cfg.factoryFields, url := u, username := [], password := [] }

def urlBoundFields : List Str := [lit "Host", lit "Authorization", lit "Cookie", lit "Cookie2"]

/-- `_reset_url_bound_fields` (the repaired code; KNOWN_FINDINGS.txt `fixed:` C16) -/
def resetUrlBound (cfg : Cfg) (r : Req) : Req :=
  { r with fields := urlBoundFields.foldl (fun f name =>
      (getList cfg.factoryFields name).foldl (fun g v => addField g name v) (popField f name)) r.fields }

/-- `WebSession.__init__` -/
def initSess (cfg : Cfg) (r : Req) : Sess :=
  let r' := if cfg.useJar then addCookies cfg 0 r else r
  { orig := r', cur := some r', aliased := true, loopType := .normal, hostsWithAuth := [],
    numRedirects := 0, jarCalls := if cfg.useJar then 1 else 0 }

/-- what `start()` does to the request before the bytes are written
(`_add_basic_auth_header` when due, then `prepare_for_send` inside `Stream.write_request`) -/
def sendPrep (cfg : Cfg) (s : Sess) (r : Req) : Req :=
  let r1 := if r.url.password ≠ [] ∨ (hostnameWithPort r.url) ∈ s.hostsWithAuth then addBasicAuth cfg r else r
  prepareForSend r1 (cfg.proxy && r.url.scheme = lit "http")

/-- `_process_redirect` -/
def processRedirect (cfg : Cfg) (s : Sess) (st : Nat) (hasLoc : Bool) (tgt : Target) : Except PyExc Sess :=
  if s.numRedirects > cfg.maxRedirects then .error .ProtocolError      -- Too many redirects
  else if !hasLoc then .error .ProtocolError                            -- Redirect location missing
  else
    match tgt with
    | .invalid => .error .ProtocolError                                 -- Invalid redirect location
    | .other => .error .ProtocolError                                   -- Redirect to an unsupported URL scheme
    | .url u =>
      let req := if isRepeatCode st then resetUrlBound cfg { s.orig with url := u } else freshReq cfg u
      .ok { s with cur := some (prepareForSend req false), aliased := false, loopType := .redirect }

/-- `_process_response` for the response to request `r` (= `_next_request`) -/
def processResponse (cfg : Cfg) (s : Sess) (r : Req) (st : Nat) (hasLoc : Bool) (tgt : Target) : Except PyExc Sess :=
  -- RedirectTracker.load: any response with a non-empty Location counts
  let s := { s with numRedirects := if hasLoc then s.numRedirects + 1 else s.numRedirects }
  let main : Except PyExc Sess :=
    if isRedirectCode st then processRedirect cfg s st hasLoc tgt
    else if st = 401 ∧ r.password ≠ [] then
      if s.loopType = .authentication then .ok { s with cur := none, loopType := .normal }
      else
        .ok ({ s with loopType := .authentication,
                      hostsWithAuth := hostnameWithPort r.url :: s.hostsWithAuth }.setCur (addBasicAuth cfg r))
    else .ok { s with cur := none, loopType := .normal }
  match main with
  | .error e => .error e
  | .ok s' =>
    if cfg.useJar then
      match s'.cur with
      | some nr => .ok ({ s' with jarCalls := s'.jarCalls + 1 }.setCur (addCookies cfg s'.jarCalls nr))
      | none => .ok s'
    else .ok s'

inductive Outcome
  | done            -- the session is done (`next_request() is None`)
  | skipped         -- the caller's URL filters refuse the next request (`item_session.skip(); break`)
  | error (e : PyExc)
  | fuel
  deriving DecidableEq, Repr, Inhabited

/-- what one run of the loop did -/
structure Trace where
  /-- the requests as sent -/
  sent : List Req
  /-- status of the last response -/
  last : Nat
  /-- redirect follow-ups: the loop went on after a redirect response -/
  followUps : Nat
  /-- authentication retries: the loop went on after a 401 -/
  authRetries : Nat
  out : Outcome
  deriving Repr, Inhabited

/-- The loop `while not session.done(): session.start(); session.download()` against an
adversary that sees every request sent so far. -/
def run (cfg : Cfg) (adv : List Req → Reply) : Nat → Sess → List Req → Nat → Nat → Nat → Trace
  | 0, _, sent, last, fu, ar => ⟨sent, last, fu, ar, .fuel⟩
  | n + 1, s, sent, last, fu, ar =>
    match s.cur with
    | none => ⟨sent, last, fu, ar, .done⟩
    | some r =>
      match cfg.gate sent.length with
      | .refuse => ⟨sent, last, fu, ar, .skipped⟩      -- `item_session.skip(); break`
      | .fail e => ⟨sent, last, fu, ar, .error e⟩      -- robots.txt of the redirect target: `handle_error; break`
      | .pass =>
      let r2 := sendPrep cfg s r
      match toBytes r2 with
      | .error e => ⟨sent, last, fu, ar, .error e⟩
      | .ok _ =>
        let sent' := sent ++ [r2]
        let s1 := s.setCur r2
        match adv sent' with
        | .fail e => ⟨sent', last, fu, ar, .error e⟩
        | .noConnect e => ⟨sent, last, fu, ar, .error e⟩
        | .resp st hasLoc tgt =>
          match processResponse cfg s1 r2 st hasLoc tgt with
          | .error e => ⟨sent', st, fu, ar, .error e⟩
          | .ok s2 =>
            if s2.cur.isSome then
              if isRedirectCode st then run cfg adv n s2 sent' st (fu + 1) ar
              else run cfg adv n s2 sent' st fu (ar + 1)
            else run cfg adv n s2 sent' st fu ar

/-- fuel that always suffices (`Proofs/C18.lean`, `session_never_out_of_fuel`) -/
def enoughFuel (cfg : Cfg) : Nat := 2 * (cfg.maxRedirects + 1) + 2

def session (cfg : Cfg) (adv : List Req → Reply) (r : Req) : Trace :=
  run cfg adv (enoughFuel cfg) (initSess cfg r) [] 0 0 0

/-- scripted adversary: the k-th request gets the k-th reply, then `200` for ever -/
def scriptAdv (script : List Reply) (sent : List Req) : Reply :=
  (script[sent.length - 1]?).getD (.resp 200 false .invalid)

/-! ### One visit of a URL by the web processor; the crawl of a finite URL set -/

inductive Status | todo | inProgress | done | error | skipped
  deriving DecidableEq, Repr, Inhabited

structure Rec where
  status : Status
  tryCount : Nat
  deriving DecidableEq, Repr, Inhabited

/-- `TriesFilter.test` -/
def triesFilter (tries : Nat) (rec : Rec) : Bool := tries = 0 || rec.tryCount < tries

def documentCodes : List Nat := [200, 204, 206, 304]
def noDocumentCodes : List Nat := [401, 403, 404, 405, 410]

/-- a URL-table call made by the visit: `check_in(url, status, increment_try_count)` -/
structure CheckIn where
  status : Status
  increment : Bool
  deriving DecidableEq, Repr, Inhabited

/-- `ResultRule.handle_error` without hooks: the check-in for a `REMOTE_ERRORS` exception.  A refused
connection / failed DNS lookup is a permanent error (skipped) unless the retry option is set; every
branch goes through `set_status` with the default `increment_try_count=True`. -/
def handleError (cfg : Cfg) : PyExc → CheckIn
  | .ConnectionRefused => if cfg.retryConnRefused then ⟨.error, true⟩ else ⟨.skipped, true⟩
  | .DNSNotFound => if cfg.retryDnsError then ⟨.error, true⟩ else ⟨.skipped, true⟩
  | _ => ⟨.error, true⟩

/-- The status the visit checks in, from how the fetch loop ended
(`_handle_response` → `ResultRule.handle_document / handle_no_document / handle_document_error`,
`handle_error` for `REMOTE_ERRORS`, `ItemSession.skip` when a filter ends the loop). -/
def endOfVisit (cfg : Cfg) (last : Nat) : Outcome → CheckIn
  | .done =>
    if last ∈ documentCodes then ⟨.done, true⟩
    else if last ∈ noDocumentCodes then ⟨.skipped, true⟩
    else ⟨.error, true⟩
  | .skipped => ⟨.skipped, true⟩      -- `ItemSession.skip()`: `check_in(url, skipped)` with the default increment
  | .error e => handleError cfg e
  | .fuel => ⟨.error, true⟩

/-- `WebProcessorSession.process()` for one checked-out record: the list of requests sent and
the table calls made.  `accept` = verdict of all the other URL filters for the first request.
(robots.txt not consulted: no checker, or the answer is in the pool and allows.) -/
def visit (tries : Nat) (accept : Bool) (cfg : Cfg) (adv : List Req → Reply) (r : Req) (rec : Rec) :
    List Req × List CheckIn :=
  if !(triesFilter tries rec && accept) then ([], [⟨.skipped, true⟩])
  else
    let t := session cfg adv r
    (t.sent, [endOfVisit cfg t.last t.out])

/-! ### robots.txt in front of the visit (`FetchRule.check_initial_web_request`, `RobotsTxtChecker`) -/

/-- how `RobotsTxtChecker.fetch_robots_txt` ends -/
inductive RobotsEnd
  | allow        -- parsed and allows, or accepted as blank (ProtocolError, non-200 non-5xx status)
  | disallow
  | fail (e : PyExc)   -- 5xx (`ServerError`) or a network error: propagates, nothing is put in the pool
  deriving DecidableEq, Repr, Inhabited

/-- classification of the robots.txt fetch from its WebSession run; `bodyDisallows` = what the
robots parser says about the URL for a 200 body (parameter) -/
def robotsEnd (t : Trace) (bodyDisallows : Bool) : RobotsEnd :=
  match t.out with
  | .error .ProtocolError => .allow
  | .error e => .fail e
  | .fuel => .fail .RecursionError
  | .skipped => .fail .RecursionError
  | .done =>
    if 500 ≤ t.last ∧ t.last ≤ 599 then .fail .ServerError
    else if t.last = 200 then (if bodyDisallows then .disallow else .allow)
    else .allow

/-- `Request('{scheme}://{hostname_with_port}/robots.txt')` -/
def robotsReq (u : UrlC) : Req :=
  { method := lit "GET", resourcePath := lit "/robots.txt", version := lit "HTTP/1.1", fields := [],
    url := { u with path := lit "/robots.txt", query := [], username := [], password := [], normUser := [], normPass := [] },
    username := [], password := [] }

/-- result of one visit with a robots.txt checker -/
structure VisitR where
  /-- requests for the URL (and its redirect targets) -/
  sent : List Req
  /-- requests of the robots.txt fetch -/
  robotsSent : List Req
  checkIns : List CheckIn
  /-- the pool afterwards: `some allowed` once an answer is cached -/
  pool : Option Bool
  deriving Repr, Inhabited

/-- One visit with robots.txt handling.  `pool` = cached answer for the URL's host (`none` = not in
the pool).  The consult sits BEHIND the filter verdict: a URL that the filters (TriesFilter
included) refuse causes no robots.txt fetch and is checked in as skipped. -/
def visitR (tries : Nat) (accept : Bool) (cfg : Cfg) (adv advRobots : List Req → Reply) (bodyDisallows : Bool)
    (r : Req) (rec : Rec) (pool : Option Bool) : VisitR :=
  if !(triesFilter tries rec && accept) then ⟨[], [], [⟨.skipped, true⟩], pool⟩
  else
    match pool with
    | some false => ⟨[], [], [⟨.skipped, true⟩], pool⟩
    | some true =>
      let t := session cfg adv r
      ⟨t.sent, [], [endOfVisit cfg t.last t.out], pool⟩
    | none =>
      let rt := session { cfg with gate := fun _ => .pass } advRobots (robotsReq r.url)
      match robotsEnd rt bodyDisallows with
      | .fail e => ⟨[], rt.sent, [handleError cfg e], none⟩       -- `_process_robots`: `handle_error`
      | .disallow => ⟨[], rt.sent, [⟨.skipped, true⟩], some false⟩
      | .allow =>
        let t := session cfg adv r
        ⟨t.sent, rt.sent, [endOfVisit cfg t.last t.out], some true⟩

/-- `URLTable.check_in` -/
def applyCheckIn (rec : Rec) (c : CheckIn) : Rec :=
  { status := c.status, tryCount := if c.increment then rec.tryCount + 1 else rec.tryCount }

/-- is the record offered again by `URLItemSource.get_item` (`check_out(todo)` / `check_out(error)`)? -/
def offered (rec : Rec) : Bool := rec.status = .todo || rec.status = .error

/-- `BaseSQLURLTable.release()` at start-up: an item left `in_progress` by a process that died goes back
to `todo`; its try count is NOT touched (the completed failed attempts stay counted) -/
def release (rec : Rec) : Rec :=
  if rec.status = .inProgress then { rec with status := .todo } else rec

/-- one visit as the end-to-end trace shows it -/
structure VisitRow where
  requests : Nat
  robotsRequests : Nat
  record : Rec
  deriving Repr, Inhabited

/-- All visits of ONE url against scripted servers whose scripts (one for the pages, one for
`/robots.txt`) are consumed across the visits (used by the end-to-end correspondence).
`rej` lists the global page-request counts at which the URL filters refused the next request of a
running visit (logged from the real run); `base` = page requests sent by earlier visits;
`pool` = `some true` when no robots.txt checker is configured. -/
def crawlOne (tries : Nat) (cfg : Cfg) (r : Req) (bodyDisallows : Bool) :
    Nat → List Reply → List Reply → Rec → Option Bool → List Nat → Nat → List VisitRow
  | 0, _, _, _, _, _, _ => []
  | f + 1, script, rscript, rec, pool, rej, base =>
    if !offered rec then []
    else
      let cfg' := { cfg with gate := fun k => if rej.contains (base + k) && k != 0 then .refuse else .pass }
      let v := visitR tries true cfg' (scriptAdv script) (scriptAdv rscript) bodyDisallows r rec pool
      let rec' := v.checkIns.foldl applyCheckIn rec
      ⟨v.sent.length, v.robotsSent.length, rec'⟩ ::
        crawlOne tries cfg r bodyDisallows f (script.drop v.sent.length) (rscript.drop v.robotsSent.length) rec' v.pool rej
          (base + v.sent.length)

end Wpull.Request
