import Wpull.HttpWire
import Wpull.Proto
namespace Wpull.HttpWire
open Wpull Wpull.Proto

def excOfName (n : String) : PyExc :=
  match n with
  | "ProtocolError" => .ProtocolError
  | "NetworkError" => .NetworkError
  | "ValueError" => .ValueError
  | "TypeError" => .TypeError
  | "OverflowError" => .OverflowError
  | _ => .ZlibError

/-- the logged results of the real decoder calls, replayed in order -/
abbrev DecLog := List (Except PyExc Bytes)

def replayDecoder (log : DecLog) : Decoder DecLog :=
  { init := fun _ => log
    feed := fun st _ => match st with
      | [] => .error .KeyError
      | .ok out :: t => .ok (t, out)
      | .error e :: _ => .error e
    flush := fun st => match st with
      | [] => .error .KeyError
      | .ok out :: _ => .ok out
      | .error e :: _ => .error e }

def decLog? (s : String) : Option DecLog :=
  if s == "~" then some []
  else (s.splitOn ",").mapM (fun t =>
    if t.startsWith "o" then (decList? (t.drop 1).toString).map Except.ok
    else if t.startsWith "e" then some (.error (excOfName (t.drop 1).toString))
    else none)

def encCall : Call → String
  | .read n d => "r" ++ toString n ++ ":" ++ encList d
  | .readline d => "l:" ++ encList d

def encFields (f : Fields) : String :=
  encLists (f.all.flatMap (fun (n, v) => [n, v]))

def encOutcome : Outcome → String
  | .ok st f body => "ok " ++ encList st.version ++ " " ++ toString st.code ++ " " ++ encList st.reason
      ++ " " ++ encFields f ++ " " ++ encList body
  | .exc e => "exc " ++ e.name
  | .stalled => "stalled"

def encResult (r : Result) : String :=
  -- after an error the stream is closed; how much of the buffer asyncio dropped with an
  -- over-long line depends on timing and is not part of any observation
  encOutcome r.outcome ++ " | " ++ (match r.outcome with | .exc _ => "-" | _ => toString r.consumed) ++ " " ++ encBool r.closed ++ " | "
    ++ encList r.notified ++ " | " ++ (if r.calls.isEmpty then "~" else ",".intercalate (r.calls.map encCall))

def decExchange? : List String → Option (ReqInfo × List Nat × Wire × DecLog)
  | [m, v, eof, b, σ, dl] => do
    let m ← decList? m
    let v ← decList? v
    let b ← decList? b
    let σ ← decList? σ
    let dl ← decLog? dl
    pure ({ method := m, version := v }, σ, { bytes := b, eof := eof == "T" }, dl)
  | _ => none

/-- sequence of exchanges; every exchange has its own decoder log -/
def sessionLog (cfg : StreamCfg) : Link → List (ReqInfo × List Nat × Wire × DecLog) → List (Nat × Result)
  | _, [] => []
  | l, (req, σ, w, dl) :: rest =>
    match session (replayDecoder dl) cfg l [(req, σ, w)] with
    | [(idx, r)] =>
      let l' : Link := { index := idx, alive := !r.closed && r.outcome != .stalled,
                         leftover := r.rest, peerEof := w.eof }
      (idx, r) :: sessionLog cfg l' rest
    | _ => []

def sessionLogL (cfg : StreamCfg) : Link → List ((ReqInfo × List Nat × Wire × DecLog) × Leave) → List (Nat × Result)
  | _, [] => []
  | l, ((req, σ, w, dl), lv) :: rest =>
    match sessionL (replayDecoder dl) cfg l [(req, σ, w, lv)] with
    | [(idx, r)] => (idx, r) :: sessionLogL cfg (linkAfter idx lv r w) rest
    | _ => []

def leave? : String → Option Leave
  | "D" => some .downloaded | "H" => some .headerOnly | "R" => some .raised | "A" => some .aborted
  | _ => none

def chunk7 : List String → List (List String)
  | a :: b :: c :: d :: e :: f :: g :: t => [a, b, c, d, e, f, g] :: chunk7 t
  | _ => []

def chunk6 : List String → List (List String)
  | a :: b :: c :: d :: e :: f :: t => [a, b, c, d, e, f] :: chunk6 t
  | _ => []

def encOptPair (o : Option (Bool × Nat)) : String :=
  match o with
  | none => "VE"
  | some (neg, n) => (if neg && n > 0 then "-" else "") ++ toString n

def decOps? (s : String) : Option (List SROp) :=
  if s == "~" then some [] else
  (s.splitOn ",").mapM (fun t =>
    if t == "E" then some .feedEof
    else if t == "L" then some .readline
    else if t.startsWith "R" then (t.drop 1).toString.toNat?.map .read
    else if t.startsWith "F" then (decList? (t.drop 1).toString).map .feed
    else none)

def encSROut : SROut → String
  | .none => "."
  | .data d => "d" ++ encList d
  | .block => "B"
  | .valueError => "V"

def runSR (ops : List SROp) : String :=
  let (_, outs) := ops.foldl (fun (s, acc) op => let (s', o) := s.step op; (s', acc ++ [encSROut o])) (({} : SR), [])
  ",".intercalate outs

def handle : List String → String
  | "decode" :: m :: v :: ka :: il :: rest =>
    match decExchange? (m :: v :: rest) with
    | some (req, σ, w, dl) =>
      let e : Ending := if rest.head? == some "R" then .reset else if w.eof then .closed else .stillOpen
      encResult (decodeE (replayDecoder dl) { keepAlive := ka == "T", ignoreLength := il == "T" } req σ w.bytes e)
    | none => "bad-arg"
  | "session" :: ka :: il :: rest =>
    match (chunk6 rest).mapM decExchange? with
    | some xs =>
      let out := sessionLog { keepAlive := ka == "T", ignoreLength := il == "T" }
        { index := 0, alive := false, leftover := [], peerEof := false } xs
      if out.isEmpty then "~" else " || ".intercalate (out.map (fun (i, r) => toString i ++ ":" ++ encResult r))
    | none => "bad-arg"
  | "sessionl" :: ka :: il :: rest =>
    match (chunk7 rest).mapM (fun t => do
        let x ← decExchange? (t.take 6)
        let lv ← leave? (t.getD 6 "")
        pure (x, lv)) with
    | some xs =>
      let out := sessionLogL { keepAlive := ka == "T", ignoreLength := il == "T" }
        { index := 0, alive := false, leftover := [], peerEof := false } xs
      if out.isEmpty then "~" else " || ".intercalate (out.map (fun (i, r) => toString i ++ ":" ++ encResult r))
    | none => "bad-arg"
  | ["py", "title", s] => match decList? s with | some s => encList (pyTitle s) | none => "bad-arg"
  | ["py", "lower", s] => match decList? s with | some s => encList (pyLower s) | none => "bad-arg"
  | ["py", "strip", s] => match decList? s with | some s => encList (strStrip s) | none => "bad-arg"
  | ["py", "bstrip", s] => match decList? s with | some s => encList (bytesStrip s) | none => "bad-arg"
  | ["py", "splitlines", s] => match decList? s with | some s => encLists (strSplitlines s) | none => "bad-arg"
  | ["py", "intdec", s] => match decList? s with | some s => encOptPair (pyIntDec s) | none => "bad-arg"
  | ["py", "inthex", s] => match decList? s with | some s => encOptPair (pyIntHex s) | none => "bad-arg"
  | ["py", "nobody", m, code] =>
    match decList? m, code.toNat? with
    | some m, some c => encBool (isNoBody { method := m } { version := [], code := c, reason := [] })
    | _, _ => "bad-arg"
  | ["file", d, pos, body] =>
    match decList? d, pos.toNat?, decList? body with
    | some d, some pos, some body =>
      let f := downloadInto { data := d, pos := pos } body
      encList f.data ++ " " ++ toString f.pos ++ " " ++ encList f.content
    | _, _, _ => "bad-arg"
  | ["dedup", o, n] =>
    let d (t : String) : Option (Option Str) := if t == "N" then some none else (decList? t).map some
    match d o, d n with
    | some o, some n => encBool (revisitHit o n)
    | _, _ => "bad-arg"
  | ["revisit", b] => match decList? b with | some b => encList (revisitBlock b) | none => "bad-arg"
  | ["py", "status", s] =>
    match decList? s with
    | some s => match parseStatusLine s with
      | some st => encList st.version ++ " " ++ toString st.code ++ " " ++ encList st.reason
      | none => "none"
    | none => "bad-arg"
  | ["py", "fields", strict, s] =>
    match decList? s with
    | some s => match parseFields (strict == "T") [] s with
      | some f => encFields f
      | none => "VE"
    | none => "bad-arg"
  | ["py", "strategy", s] =>
    match decList? s with
    | some s => match parseFields false [] s with
      | some f => (match readStrategy f with | .chunked => "chunked" | .length => "length" | .close => "close")
      | none => "VE"
    | none => "bad-arg"
  | ["request", m, pth, v, fl] =>
    match decList? m, decList? pth, decList? v, decLists? fl with
    | some m, some pth, some v, some fl =>
      let rec pairs : List (List Nat) → List (Str × Str)
        | a :: b :: t => (a, b) :: pairs t
        | _ => []
      encList (requestBytes m pth v (pairs fl))
    | _, _, _, _ => "bad-arg"
  | ["sr", ops] => match decOps? ops with | some ops => runSR ops | none => "bad-arg"
  | _ => "bad-op"

end Wpull.HttpWire
