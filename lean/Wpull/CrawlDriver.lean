import Wpull.Crawl
import Wpull.Proto
/-!
Driver of the crawl model: trace acceptance.

  crawl accept <conc> <starts> <visits> <events>

* starts : dot-hex list of URL ids
* visits : `~` or `;`-separated `url,level,inline,tries:req.req:status:child.child`
           (`inline` = `n` or a number; `req`/`child` lists `-` when empty; a child id is
           `2*id + (1 if inline else 0)`; status = d | s | e)
* events : `;`-separated
           `o=<id>` check_out handed out URL id      `n`  check_out found nothing (todo and error)
           `r<item>,<url>` item sends a request       `f<item>=<inserted ids>` children batch inserted
           `i<item>,<status>` check_in                `c` crash   `s=<inserted ids>` restart

Reply: `ok <table>` with table rows `url,status,level,inline,tries` joined by `;`,
or `reject <event index> <reason>`.
-/
namespace Wpull.Crawl
open Wpull Wpull.Proto

def Status.code : Status → String
  | .todo => "t" | .inProgress => "p" | .done => "d" | .error => "e" | .skipped => "s"

def Status.ofCode? : String → Option Status
  | "t" => some .todo | "p" => some .inProgress | "d" => some .done | "e" => some .error | "s" => some .skipped
  | _ => none

def encInline : Option Nat → String
  | none => "n"
  | some k => toString k

def decInline? (s : String) : Option (Option Nat) :=
  if s == "n" then some none else s.toNat?.map some

def encRow (r : Row) : String :=
  s!"{r.url},{r.status.code},{r.level},{encInline r.inline},{r.tries}"

def encTable (t : List Row) : String :=
  if t.isEmpty then "~" else ";".intercalate (t.map encRow)

structure VisitKey where
  url : Url
  level : Nat
  inline : Option Nat
  tries : Nat
  deriving DecidableEq

def decVisit? (s : String) : Option (VisitKey × Visit) :=
  match s.splitOn ":" with
  | [k, reqs, st, kids] =>
    match k.splitOn ",", decList? reqs, Status.ofCode? st, decList? kids with
    | [u, l, i, t], some reqs, some st, some kids =>
      match u.toNat?, l.toNat?, decInline? i, t.toNat? with
      | some u, some l, some i, some t =>
        some (⟨u, l, i, t⟩, ⟨reqs, st, kids.map fun c => ⟨c / 2, c % 2 == 1⟩⟩)
      | _, _, _, _ => none
    | _, _, _, _ => none
  | _ => none

def decVisits? (s : String) : Option (List (VisitKey × Visit)) :=
  if s == "~" then some [] else (s.splitOn ";").mapM decVisit?

/-- marker status for "the harness did not supply a visit for this row" -/
def missingVisit : Visit := ⟨[], .todo, []⟩

def cfgOf (vs : List (VisitKey × Visit)) : Cfg :=
  { visit := fun r => ((vs.find? fun kv => kv.1 == ⟨r.url, r.level, r.inline, r.tries⟩).map (·.2)).getD missingVisit }

def urlsOfIds (t : List Row) : List Url := t.map (·.url)

/-- apply one observed event; `Except` carries the reason of a rejection -/
def applyEv (c : Cfg) (conc : Nat) (starts : List Url) (s : St) (e : String) : Except String St :=
  if e == "n" then
    if (nextRow s.table).isNone then .ok s else .error "check_out found nothing but the model has a row to hand out"
  else if e == "c" then
    if s.down then .ok s   -- died during start-up: nothing volatile to lose
    else match step c conc starts s .crash with
    | some s' => .ok s' | none => .error "crash not enabled"
  else if e.startsWith "s=" then
    match decList? (e.drop 2).toString with
    | none => .error "bad-arg"
    | some ins =>
      let expected := (addMany (release s.table) (starts.map startRow)).2
      match step c conc starts s .restart with
      | none => .error "restart not enabled"
      | some s' => if expected == ins then .ok s' else .error s!"restart inserted {encList expected} in the model, {encList ins} in the code"
  else if e.startsWith "o=" then
    match (e.drop 2).toString.toNat? with
    | none => .error "bad-arg"
    | some u =>
      match nextRow s.table with
      | none => .error "check_out handed out a row but the model has none"
      | some r =>
        if r.url != u then .error s!"check_out handed out {u}, model hands out {r.url}"
        else if (c.visit { r with status := .inProgress }).status == .todo then
          .error s!"no visit supplied for row {encRow r}"
        else
          match step c conc starts s .checkOut with
          | some s' => .ok s'
          | none => .error "check_out not enabled (too many items in flight)"
  else if e.startsWith "r" then
    match (e.drop 1).toString.splitOn "," with
    | [a, b] =>
      match a.toNat?, b.toNat? with
      | some u, some v =>
        match findItem s.inflight u with
        | some ⟨_, .running (v' :: _)⟩ =>
          if v' != v then .error s!"item {u} requested {v}, model expects {v'}"
          else match step c conc starts s (.request u) with
            | some s' => .ok s' | none => .error "request not enabled"
        | _ => .error s!"item {u} requested {v}, model expects no (further) request"
      | _, _ => .error "bad-arg"
    | _ => .error "bad-arg"
  else if e.startsWith "f" then
    match (e.drop 1).toString.splitOn "=" with
    | [a, b] =>
      match a.toNat?, decList? b with
      | some u, some ins =>
        match findItem s.inflight u with
        | some ⟨r, .running []⟩ =>
          let expected := (addMany s.table ((c.visit r).children.map (childRow r))).2
          if expected != ins then .error s!"item {u} inserted {encList ins}, model inserts {encList expected}"
          else match step c conc starts s (.flush u) with
            | some s' => .ok s' | none => .error "flush not enabled"
        | some ⟨_, .running _⟩ => .error s!"item {u} flushed children before issuing all its requests"
        | _ => .error s!"item {u} flushed children but is not running"
      | _, _ => .error "bad-arg"
    | _ => .error "bad-arg"
  else if e.startsWith "i" then
    match (e.drop 1).toString.splitOn "," with
    | [a, b] =>
      match a.toNat?, Status.ofCode? b with
      | some u, some st =>
        match findItem s.inflight u with
        | some ⟨r, .flushed⟩ =>
          if (c.visit r).status != st then .error s!"item {u} checked in {st.code}, model expects {(c.visit r).status.code}"
          else match step c conc starts s (.checkIn u) with
            | some s' => .ok s' | none => .error "check_in not enabled"
        | _ => .error s!"item {u} checked in before its children were inserted (or is not in flight)"
      | _, _ => .error "bad-arg"
    | _ => .error "bad-arg"
  else .error "bad-event"

/-- a process that has not started yet: empty database.  The first `s=` event is the start-up
(`release()` + insert of the start URLs), which yields `init starts`. -/
def boot : St := { table := [], inflight := [], log := [], outs := [], down := true }

def acceptLoop (c : Cfg) (conc : Nat) (starts : List Url) : St → Nat → List String → String
  | s, _, [] => "ok " ++ encTable s.table ++ " " ++ encList s.log ++ " " ++ encBool (quiescent s)
  | s, i, e :: es =>
    match applyEv c conc starts s e with
    | .ok s' => acceptLoop c conc starts s' (i + 1) es
    | .error why => s!"reject {i} {why.replace " " "_"}"

def handle : List String → String
  | ["accept", conc, starts, visits, events] =>
    match conc.toNat?, decList? starts, decVisits? visits with
    | some conc, some starts, some vs =>
      let evs := if events == "~" then [] else events.splitOn ";"
      acceptLoop (cfgOf vs) conc starts boot 0 evs
    | _, _, _ => "bad-arg"
  | _ => "bad-op"

end Wpull.Crawl
