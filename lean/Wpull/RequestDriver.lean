import Wpull.Request
import Wpull.Proto
namespace Wpull.Request
open Wpull Wpull.Proto

/-- fields token: `n1/v1/n2/v2/…` (pairs handed to `fields.add` in order) or `~` -/
def decFields? (tok : String) : Option Fields := do
  let l ← decLists? tok
  let rec go : List (List Nat) → Fields → Option Fields
    | [], acc => some acc
    | n :: v :: t, acc => go t (addField acc n v)
    | [_], _ => none
  go l []

/-- url token: `scheme/hostname/port/ipv6/path/query/username/password/normUser/normPass` -/
def decUrl? (tok : String) : Option UrlC := do
  let l ← decLists? tok
  match l with
  | [scheme, hostname, [port], [ipv6], path, query, username, password, normUser, normPass] =>
    some { scheme, hostname, port, ipv6 := ipv6 != 0, path, query, username, password, normUser, normPass }
  | _ => none

/-- reply: two tokens `status:hasLoc:kind` and a url token (`~` unless kind = 2).
kind 5/6 = no connection (refused / DNS failure); kind 0 = invalid target, 1 = other scheme, 2 = url, 3 = connection closed (NetworkError), 4 = garbage (ProtocolError) -/
def decReplies? : List String → Option (List Reply)
  | [] => some []
  | [_] => none
  | h :: u :: t => do
    let rest ← decReplies? t
    match h.splitOn ":" with
    | [st, hl, kind] =>
      let st ← st.toNat?
      let hasLoc := hl == "1"
      if kind == "5" then some (.noConnect .ConnectionRefused :: rest)
      else if kind == "6" then some (.noConnect .DNSNotFound :: rest)
      else if kind == "3" then some (.fail .NetworkError :: rest)
      else if kind == "4" then some (.fail .ProtocolError :: rest)
      else if kind == "2" then do
        let uc ← decUrl? u
        some (.resp st hasLoc (.url uc) :: rest)
      else if kind == "1" then some (.resp st hasLoc .other :: rest)
      else some (.resp st hasLoc .invalid :: rest)
    | _ => none

def outcomeStr : Outcome → String
  | .done => "done" | .skipped => "skipped" | .error e => "exc:" ++ e.name | .fuel => "fuel"

def statusStr : Status → String
  | .todo => "todo" | .inProgress => "in_progress" | .done => "done" | .error => "error" | .skipped => "skipped"

structure SessArgs where
  cfg : Cfg
  req : Req
  script : List Reply

def decSession? : List String → Option SessArgs
  | maxRed :: proxy :: useJar :: ff :: method :: initFields :: user :: pass :: url :: jarAns :: replies => do
    let maxRed ← maxRed.toNat?
    let ff ← decFields? ff
    let method ← decList? method
    let fields ← decFields? initFields
    let user ← decList? user
    let pass ← decList? pass
    let u ← decUrl? url
    let answers ← decLists? jarAns
    let script ← decReplies? replies
    let cfg : Cfg := {
      maxRedirects := maxRed, proxy := proxy.startsWith "T", factoryFields := ff, useJar := useJar == "T",
      retryConnRefused := proxy.contains 'c', retryDnsError := proxy.contains 'd',
      auth := basicAuth,
      jar := fun i _ => match answers[i]? with
        | some [] => none
        | some v => some v
        | none => none }
    let req : Req := { method, resourcePath := urlStr u, version := lit "HTTP/1.1", fields, url := u,
                       username := user, password := pass }
    some { cfg, req, script }
  | _ => none

def hopBytes (r : Req) : Bytes :=
  match toBytes r with
  | .ok b => b
  | .error _ => []

def handle : List String → String
  | ["prep", full, method, version, fields, url] =>
    match decList? method, decList? version, decFields? fields, decUrl? url with
    | some method, some version, some fields, some u =>
      let r : Req := { method, resourcePath := urlStr u, version, fields, url := u, username := [], password := [] }
      match toBytes (prepareForSend r (full == "T")) with
      | .ok b => "ok " ++ encList b
      | .error e => "exc " ++ e.name
    | _, _, _, _ => "bad-arg"
  | ["hostport", url] =>
    match decUrl? url with
    | some u => encList (hostnameWithPort u) ++ " " ++ encList (urlStr u)
    | none => "bad-arg"
  | ["title", s] =>
    match decList? s with
    | some s => encList (title s) ++ " " ++ encList (capitalize s)
    | none => "bad-arg"
  | ["referer", fields, parent, scheme] =>
    match decFields? fields, decList? parent, decList? scheme with
    | some f, some parent, some scheme =>
      let g := populateReferrer f parent scheme
      encLists ((getAll g).flatMap (fun p => [p.1, p.2]))
    | _, _, _ => "bad-arg"
  | ["auth", u, p] =>
    match decList? u, decList? p with
    | some u, some p => encList (basicAuth u p)
    | _, _ => "bad-arg"
  | "session" :: rest =>
    match decSession? rest with
    | some a =>
      let t := session a.cfg (scriptAdv a.script) a.req
      outcomeStr t.out ++ " " ++ toString t.last ++ " " ++ encLists (t.sent.map hopBytes)
        ++ " " ++ toString t.followUps ++ " " ++ toString t.authRetries
    | none => "bad-arg"
  | "crawl" :: tries :: rejectAt :: robots :: nrob :: rest =>
    -- rejectAt: global page-request counts at which the filters said no;
    -- robots: "off" | "allow" | "disallow" (what a 200 body says); then nrob robots.txt replies (2 tokens each)
    match tries.toNat?, decList? rejectAt, nrob.toNat? with
    | some tries, some rej, some nrob =>
      match decReplies? (rest.take (2 * nrob)), decSession? (rest.drop (2 * nrob)) with
      | some rscript, some a =>
        let pool : Option Bool := if robots == "off" then some true else none
        let visits := crawlOne tries a.cfg a.req (robots == "disallow") (a.script.length + rscript.length + 3)
          a.script rscript ⟨.todo, 0⟩ pool rej 0
        if visits.isEmpty then "-" else
        ",".intercalate (visits.map (fun v => toString v.requests ++ ":" ++ toString v.robotsRequests ++ ":"
          ++ statusStr v.record.status ++ ":" ++ toString v.record.tryCount))
      | _, _ => "bad-arg"
    | _, _, _ => "bad-arg"
  | ["prep2", full1, full2, method, version, fields, url] =>
    match decList? method, decList? version, decFields? fields, decUrl? url with
    | some method, some version, some fields, some u =>
      let r : Req := { method, resourcePath := urlStr u, version, fields, url := u, username := [], password := [] }
      match toBytes (prepareForSend (prepareForSend r (full1 == "T")) (full2 == "T")) with
      | .ok b => "ok " ++ encList b
      | .error e => "exc " ++ e.name
    | _, _, _, _ => "bad-arg"
  | _ => "bad-op"

end Wpull.Request
