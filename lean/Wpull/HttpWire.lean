/-
Model of the HTTP/1.1 response reader that properties C08 and C04 are anchored in
(the code as repaired by the `fix:` commits listed in KNOWN_FINDINGS.txt):

* `wpull/network/connection.py`     `Connection.read` / `readline` over `asyncio.StreamReader`
* `wpull/protocol/http/stream.py`   `Stream.read_response`, `read_body`, `_read_body_by_length`,
                                    `_read_body_by_chunk`, `_read_body_until_close`,
                                    `get_read_strategy`, `is_no_body`, `reconnect`
* `wpull/protocol/http/chunked.py`  `ChunkedTransferReader`
* `wpull/protocol/http/request.py`  `Response.parse`, `parse_status_line`
* `wpull/namevalue.py`              `NameValueRecord.parse`, `unfold_lines`, `normalize_name`
* `wpull/protocol/http/util.py`     `should_close`
* `wpull/protocol/http/client.py`   `Session.start` / `download` (one request, one response per exchange)

The peer's bytes for one exchange are a flat byte string (`Wire`); *how* they
arrive is an explicit schedule: the i-th non-empty `read(n)` returns
`1 + σᵢ mod min(n, available)` bytes, so every list `σ` is a legal segmentation
and every legal segmentation is some `σ`.  `readline` is the flat-stream
`readline` of `Wpull.Ftp` (`splitLF`; `Proofs.C17.readlineSegs_eq` shows it equals
`readline` over any segmentation).  The content decoder (gzip / deflate,
property C19) is a parameter.
-/
import Wpull.Py.Basic
import Wpull.Ftp
import Wpull.HttpWirePy
namespace Wpull.HttpWire
open Wpull Wpull.Ftp

/-! ## transport -/

inductive Call where
  | read (n : Nat) (data : Bytes)
  | readline (data : Bytes)
  deriving DecidableEq, Repr

/-- the client's view of the connection during one exchange -/
structure Conn where
  /-- bytes the peer sends for this exchange that were not consumed yet -/
  rest : Bytes
  /-- the peer closes after `rest` (otherwise it then waits for the next request) -/
  eof : Bool
  /-- schedule: sizes of the coming `read` results -/
  sched : List Nat
  /-- every `read`/`readline` call that returned, in order (co-simulation) -/
  log : List Call := []
  deriving DecidableEq, Repr

/-- result of `readline` on the flat stream: the line and what follows it -/
inductive LineR where
  | line (l rest : Bytes)
  | tooLong
  | stall
  deriving DecidableEq, Repr

/-- `StreamReader.readline()` on the concatenated stream: up to and including the first LF;
at EOF what is left; more than 64 KiB without LF is `ValueError`; otherwise it waits. -/
def readlineFlat (rest : Bytes) (eof : Bool) : LineR :=
  match findLF rest with
  | some i => if i > lineLimit then .tooLong else .line (rest.take (i + 1)) (rest.drop (i + 1))
  | none =>
    if rest.length > lineLimit then .tooLong
    else if eof then .line rest []
    else .stall

inductive RL where
  | line (l : Bytes) (c : Conn)
  | tooLong
  | stall
  deriving DecidableEq

/-- `Connection.readline()` -/
def Conn.readline (c : Conn) : RL :=
  match readlineFlat c.rest c.eof with
  | .line l r => .line l { c with rest := r, log := c.log ++ [.readline l] }
  | .tooLong => .tooLong
  | .stall => .stall

inductive RD where
  | data (d : Bytes) (c : Conn)
  | stall
  deriving DecidableEq

/-- number of bytes the next `read(n)` returns when `avail > 0` bytes are outstanding -/
def readSize (sched : List Nat) (n avail : Nat) : Nat :=
  match sched with
  | [] => min n avail
  | s :: _ => 1 + s % (min n avail)

/-- `Connection.read(n)`, `n > 0`: between 1 and `min n available` bytes (the schedule
decides), `b''` at EOF, blocks when nothing is outstanding and the peer keeps the
connection open. -/
def Conn.read (c : Conn) (n : Nat) : RD :=
  if c.rest.isEmpty then
    if c.eof then .data [] { c with log := c.log ++ [.read n []] } else .stall
  else
    let k := readSize c.sched n c.rest.length
    .data (c.rest.take k)
      { c with rest := c.rest.drop k, sched := c.sched.drop 1, log := c.log ++ [.read n (c.rest.take k)] }

/-! ## header block -/

abbrev Fields := List (Str × List Str)

/-- `NameValueRecord.add` (name already normalised) -/
def Fields.add : Fields → Str → Str → Fields
  | [], n, v => [(n, [v])]
  | (m, vs) :: t, n, v => if m == n then (m, vs ++ [v]) :: t else (m, vs) :: Fields.add t n v

/-- `fields.get(name)` : first value -/
def Fields.get? : Fields → Str → Option Str
  | [], _ => none
  | (m, vs) :: t, n => if m == n then vs.head? else Fields.get? t n

/-- `fields.get_list(name)` -/
def Fields.getList : Fields → Str → List Str
  | [], _ => []
  | (m, vs) :: t, n => if m == n then vs else Fields.getList t n

def Fields.has (f : Fields) (n : Str) : Bool := (f.get? n).isSome

/-- `get_all()` -/
def Fields.all (f : Fields) : List (Str × Str) := f.flatMap (fun (n, vs) => vs.map (fun v => (n, v)))

/-- `unfold_lines(string).splitlines()`: logical lines (continuation lines joined with one space) -/
def unfoldLines (s : Str) : List Str :=
  go true [] (strSplitlines s)
where
  go (first : Bool) (cur : Str) : List Str → List Str
    | [] => [cur]
    | l :: t =>
      if (l.head? == some 32 || l.head? == some 9) then go false (cur ++ [32] ++ strStrip l) t
      else if first then go false (cur ++ strStrip l) t
      else cur :: go false (strStrip l) t

/-- `line.split(':', 1)` when `':' in line` -/
def splitColon : Str → Option (Str × Str)
  | [] => none
  | c :: t => if c == 58 then some ([], t) else (splitColon t).map (fun (a, b) => (c :: a, b))

/-- `NameValueRecord.parse(string, strict)` on already decoded text: `none` = `ValueError('Field missing colon.')` -/
def parseFields (strict : Bool) (f : Fields) (s : Str) : Option Fields :=
  (unfoldLines s).foldlM (fun f line =>
    if line.isEmpty then some f
    else match splitColon line with
      | none => if strict then none else some f
      | some (n, v) => some (f.add (pyTitle (strStrip n)) (strStrip v))) f

/-- `data.split(b'\n', 1)` on a block that contains an LF -/
def splitFirstLine (b : Bytes) : Bytes × Bytes :=
  match findLF b with
  | some i => (b.take i, b.drop (i + 1))
  | none => (b, [])

/-- `Response.parse(header block)` -/
def parseResponse (block : Bytes) : Except PyExc (Status × Fields) :=
  let (line, rest) := splitFirstLine block
  match parseStatusLine line with
  | none => .error .ProtocolError
  | some st =>
    match parseFields false [] rest with
    | some f => .ok (st, f)
    | none => .error .ValueError

inductive Head where
  /-- header block (without the blank line), bytes notified, connection after -/
  | ok (block : Bytes) (notified : Bytes) (c : Conn)
  | exc (e : PyExc) (notified : Bytes) (c : Conn)
  | stall (notified : Bytes) (c : Conn)
  deriving DecidableEq

/-- the bytes of the lines read so far (`ls` is newest-first) -/
def flatRev (ls : List Bytes) : Bytes := ls.reverse.flatten

/-- `Stream.read_response`: the `while True` loop.  `ls` = header lines read so far, newest first. -/
def readHead : Nat → Conn → List Bytes → Nat → Head
  | 0, c, ls, _ => .exc .RecursionError (flatRev ls) c
  | fuel + 1, c, ls, nread =>
    match c.readline with
    | .tooLong => .exc .ProtocolError (flatRev ls) c
    | .stall => .stall (flatRev ls) c
    | .line l c' =>
      if l.getLast? != some 10 then .exc .NetworkError (flatRev (l :: ls)) c'
      else if l == [13, 10] || l == [10] then
        (if ls.isEmpty then .exc .ProtocolError (flatRev (l :: ls)) c'
         else .ok (flatRev ls) (flatRev (l :: ls)) c')
      else if nread + l.length > 32768 then .exc .ProtocolError (flatRev (l :: ls)) c'
      else readHead fuel c' (l :: ls) (nread + l.length)

/-! ## framing decisions -/

structure ReqInfo where
  method : Str := lit "GET"
  version : Str := lit "HTTP/1.1"
  deriving DecidableEq, Repr

structure StreamCfg where
  keepAlive : Bool := true
  ignoreLength : Bool := false
  deriving DecidableEq, Repr

def sContentLength := lit "Content-Length"
def sTransferEncoding := lit "Transfer-Encoding"
def sContentEncoding := lit "Content-Encoding"
def sConnection := lit "Connection"

/-- `DEFAULT_NO_CONTENT_CODES`: exactly 1xx, 204 and 304 — the status codes for which the
protocol forbids a body (RFC 7230 section 3.3.3 rule 1).  205 is *not* among them: it is
framed like any other response. -/
def noContentCode (code : Nat) : Bool := (100 ≤ code && code < 200) || code == 204 || code == 304

/-- `is_no_body(request, response)` (repaired: the fields are not consulted) -/
def isNoBody (req : ReqInfo) (st : Status) : Bool :=
  noContentCode st.code || req.method.map asciiUpper == lit "HEAD"

/-- `s.split(',')` -/
def splitComma (s : Str) : List Str := splitOn1 s 44

/-- `coding.split(';', 1)[0]` -/
def beforeSemiS : Str → Str
  | [] => []
  | c :: t => if c == 59 then [] else c :: beforeSemiS t

inductive Strategy | chunked | length | close
  deriving DecidableEq, Repr

/-- `Stream.get_read_strategy` (repaired: case-insensitive, final coding) -/
def readStrategy (f : Fields) : Strategy :=
  let values := if f.has sTransferEncoding then f.getList sTransferEncoding else []
  let codings := (splitComma (joinWith [44] values)).map (fun c => pyLower (strStrip (beforeSemiS c)))
  let codings := codings.filter (fun c => !c.isEmpty)
  if codings.getLast? == some (lit "chunked") then .chunked
  else if f.has sContentLength then .length
  else .close

/-- `should_close(request.version, response.fields.get('Connection'))` -/
def shouldClose (version : Str) (conn : Option Str) : Bool :=
  let v := pyLower (conn.getD [])
  if version == lit "HTTP/1.0" then v.filter (· != 45) != lit "keepalive"
  else v == lit "close"

inductive DecKind | gzip | deflate
  deriving DecidableEq, Repr

/-- `_setup_decompressor` -/
def decKind (f : Fields) : Option DecKind :=
  let e := pyLower ((f.get? sContentEncoding).getD [])
  if e == lit "gzip" then some .gzip else if e == lit "deflate" then some .deflate else none

/-! ## body -/

/-- the content decoder (C19) as a parameter -/
structure Decoder (D : Type) where
  init : DecKind → D
  feed : D → Bytes → Except PyExc (D × Bytes)
  flush : D → Except PyExc Bytes

/-- what the listeners and the caller have received so far -/
structure Acc (D : Type) where
  /-- concatenation of `notify_read` data = the WARC response block -/
  notified : Bytes
  /-- bytes written to the body file (content coding removed) -/
  body : Bytes
  /-- decoder state; `none`: no content coding -/
  dec : Option D

/-- `notify_read(data)` only -/
def Acc.note {D} (a : Acc D) (d : Bytes) : Acc D := { a with notified := a.notified ++ d }

/-- `notify_read(data); file.write(_decompress_data(data))` -/
def Acc.data {D} (dc : Decoder D) (a : Acc D) (d : Bytes) : Except PyExc (Acc D) :=
  match a.dec with
  | none => .ok { a with notified := a.notified ++ d, body := a.body ++ d }
  | some st =>
    match dc.feed st d with
    | .ok (st', out) => .ok { notified := a.notified ++ d, body := a.body ++ out, dec := some st' }
    | .error e => .error e

/-- `file.write(_flush_decompressor())` -/
def Acc.flush {D} (dc : Decoder D) (a : Acc D) : Except PyExc (Acc D) :=
  match a.dec with
  | none => .ok a
  | some st =>
    match dc.flush st with
    | .ok out => .ok { a with body := a.body ++ out }
    | .error e => .error e

inductive Res (D : Type) where
  /-- finished; `overrun`: more than Content-Length was read, the rest thrown away, connection closed -/
  | ok (a : Acc D) (c : Conn) (overrun : Bool)
  | exc (e : PyExc) (a : Acc D) (c : Conn)
  | stall (a : Acc D) (c : Conn)

/-- `_read_body_by_length`: the `while bytes_left > 0` loop -/
def lengthLoop {D} (dc : Decoder D) : Nat → Nat → Conn → Acc D → Res D
  | 0, _, c, a => .exc .RecursionError a c
  | fuel + 1, left, c, a =>
    if left = 0 then .ok a c false
    else match c.read 4096 with
      | .stall => .stall a c
      | .data d c' =>
        if d.isEmpty then .exc .NetworkError a c'
        else if d.length > left then
          match a.data dc (d.take left) with
          | .ok a' => .ok a' c' true
          | .error e => .exc e (a.note (d.take left)) c'
        else
          match a.data dc d with
          | .ok a' => lengthLoop dc fuel (left - d.length) c' a'
          | .error e => .exc e (a.note d) c'

/-- `_read_body_until_close`: the `while True` loop -/
def closeLoop {D} (dc : Decoder D) : Nat → Conn → Acc D → Res D
  | 0, c, a => .exc .RecursionError a c
  | fuel + 1, c, a =>
    match c.read 4096 with
    | .stall => .stall a c
    | .data d c' =>
      if d.isEmpty then .ok a c' false
      else match a.data dc d with
        | .ok a' => closeLoop dc fuel c' a'
        | .error e => .exc e (a.note d) c'

/-- `read_chunk_body` until the chunk data is exhausted (`bytes_left = 0`) or EOF.
`ok _ _ true` = the peer closed inside the chunk data (the code then falls into the
next `read_chunk_header`). -/
def chunkDataLoop {D} (dc : Decoder D) : Nat → Nat → Conn → Acc D → Res D
  | 0, _, c, a => .exc .RecursionError a c
  | fuel + 1, left, c, a =>
    if left = 0 then .ok a c false
    else match c.read (min left 4096) with
      | .stall => .stall a c
      | .data d c' =>
        if d.isEmpty then .ok a c' true
        else match a.data dc d with
          | .ok a' => chunkDataLoop dc fuel (left - d.length) c' a'
          | .error e => .exc e (a.note d) c'

inductive Trailer where
  | ok (data : Bytes) (c : Conn)
  | exc (e : PyExc) (c : Conn)
  | stall (c : Conn)

/-- `ChunkedTransferReader.read_trailer` (repaired: EOF inside the trailer is `NetworkError`) -/
def trailerLoop : Nat → Conn → Bytes → Trailer
  | 0, c, _ => .exc .RecursionError c
  | fuel + 1, c, acc =>
    match c.readline with
    | .tooLong => .exc .ProtocolError c
    | .stall => .stall c
    | .line l c' =>
      if l.getLast? != some 10 then .exc .NetworkError c'
      else if (bytesStrip l).isEmpty then .ok (acc ++ l) c'
      else trailerLoop fuel c' (acc ++ l)

/-- result of the chunk loop: the accumulated state and the raw trailer bytes -/
inductive Chunks (D : Type) where
  | ok (a : Acc D) (trailer : Bytes) (c : Conn)
  | exc (e : PyExc) (a : Acc D) (c : Conn)
  | stall (a : Acc D) (c : Conn)

/-- `_read_body_by_chunk` -/
def chunkedLoop {D} (dc : Decoder D) (fuel0 : Nat) : Nat → Conn → Acc D → Chunks D
  | 0, c, a => .exc .RecursionError a c
  | fuel + 1, c, a =>
    match c.readline with
    | .tooLong => .exc .ProtocolError a c
    | .stall => .stall a c
    | .line l c1 =>
      if l.getLast? != some 10 then .exc .NetworkError a c1
      else match chunkSize? l with
        | none => .exc .ProtocolError a c1
        | some size =>
          let a1 := a.note l
          if size = 0 then
            match a1.flush dc with
            | .error e => .exc e a1 c1
            | .ok a2 =>
              match trailerLoop fuel0 c1 [] with
              | .exc e c2 => .exc e a2 c2
              | .stall c2 => .stall a2 c2
              | .ok t c2 => .ok (a2.note t) t c2
          else
            match chunkDataLoop dc fuel0 size c1 a1 with
            | .exc e a2 c2 => .exc e a2 c2
            | .stall a2 c2 => .stall a2 c2
            | .ok a2 c2 true => chunkedLoop dc fuel0 fuel c2 a2
            | .ok a2 c2 false =>
              match c2.readline with
              | .tooLong => .exc .ProtocolError a2 c2
              | .stall => .stall a2 c2
              | .line nl c3 =>
                if nl.length > 2 then .exc .ProtocolError a2 c3
                else chunkedLoop dc fuel0 fuel c3 (a2.note nl)

/-! ## one exchange -/

inductive Outcome where
  | ok (st : Status) (fields : Fields) (body : Bytes)
  | exc (e : PyExc)
  | stalled
  deriving DecidableEq, Repr

structure Wire where
  bytes : Bytes
  eof : Bool
  deriving DecidableEq, Repr

structure Result where
  outcome : Outcome
  /-- bytes taken from the connection -/
  consumed : Nat
  /-- the client closed the connection -/
  closed : Bool
  /-- concatenation of all `notify_read` data -/
  notified : Bytes
  /-- unread bytes of this exchange's wire -/
  rest : Bytes
  calls : List Call
  deriving DecidableEq, Repr

def mkResult (w : Wire) (o : Outcome) (closed : Bool) (nt : Bytes) (c : Conn) : Result :=
  { outcome := o, consumed := w.bytes.length - c.rest.length, closed := closed, notified := nt,
    rest := c.rest, calls := c.log }

/-- end of `_read_body_by_length` / `_read_body_until_close` and of `read_body`: flush the
decoder, decide whether the connection is closed -/
def finishBody {D} (dc : Decoder D) (w : Wire) (st : Status) (f : Fields) (sc : Bool) (r : Res D) : Result :=
  match r with
  | .exc e a c' => mkResult w (.exc e) true a.notified c'
  | .stall a c' => mkResult w .stalled false a.notified c'
  | .ok a c' ovr =>
    match a.flush dc with
    | .error e => mkResult w (.exc e) true a.notified c'
    | .ok a' => mkResult w (.ok st f a'.body) (ovr || sc) a'.notified c'

/-- `_read_body_by_chunk` after the chunk loop: the trailer fields join the header fields -/
def finishChunked {D} (w : Wire) (st : Status) (f : Fields) (sc : Bool) (r : Chunks D) : Result :=
  match r with
  | .exc e a c' => mkResult w (.exc e) true a.notified c'
  | .stall a c' => mkResult w .stalled false a.notified c'
  | .ok a t c' =>
    match parseFields false f t with
    | none => mkResult w (.exc .ValueError) true a.notified c'
    | some f' => mkResult w (.ok st f' a.body) sc a.notified c'

/-- the framing strategy `read_body` uses -/
def bodyStrategy (cfg : StreamCfg) (f : Fields) : Strategy :=
  match readStrategy f with
  | .length => if cfg.ignoreLength then Strategy.close else .length
  | s => s

/-- `Stream.read_body` after the no-body test -/
def readBody {D} (dc : Decoder D) (cfg : StreamCfg) (req : ReqInfo) (fuel : Nat)
    (st : Status) (f : Fields) (c : Conn) (nt : Bytes) (w : Wire) : Result :=
  let a0 : Acc D := { notified := nt, body := [], dec := (decKind f).map dc.init }
  let sc := !cfg.keepAlive || shouldClose req.version (f.get? sConnection)
  match bodyStrategy cfg f with
  | .chunked => finishChunked w st f sc (chunkedLoop dc fuel fuel c a0)
  | .length =>
    match contentLength? ((f.get? sContentLength).getD []) with
    | none => finishBody dc w st f sc (closeLoop dc fuel c a0)
    | some n => finishBody dc w st f sc (lengthLoop dc fuel n c a0)
  | .close => finishBody dc w st f sc (closeLoop dc fuel c a0)

/-- One exchange: `Stream.read_response` then `Stream.read_body`, reading the peer's
bytes `w` under the schedule `σ`. -/
def decode {D} (dc : Decoder D) (cfg : StreamCfg) (req : ReqInfo) (σ : List Nat) (w : Wire) : Result :=
  let fuel := w.bytes.length + 2
  let c0 : Conn := { rest := w.bytes, eof := w.eof, sched := σ }
  match readHead fuel c0 [] 0 with
  | .exc e nt c => mkResult w (.exc e) true nt c
  | .stall nt c => mkResult w .stalled false nt c
  | .ok block nt c =>
    match parseResponse block with
    | .error e => mkResult w (.exc e) true nt c
    | .ok (st, f) =>
      if isNoBody req st then mkResult w (.ok st f []) false nt c
      else readBody dc cfg req fuel st f c nt w

/-- how the peer ends what it sends for an exchange -/
inductive Ending where
  /-- orderly close (FIN): reads return `b''` -/
  | closed
  /-- reset (RST, ECONNRESET / EPIPE): a read that needs more fails -/
  | reset
  /-- nothing: the connection stays open, a read that needs more waits -/
  | stillOpen
  deriving DecidableEq, Repr

/-- `decode` for every ending.  A reset is NOT an end of message: wherever the reader needs
more bytes than were delivered, `reader.read()` raises ConnectionResetError, which
`run_network_operation` turns into NetworkError (and closes the connection); a message that
was complete by its own framing before the reset is unaffected. -/
def decodeE {D} (dc : Decoder D) (cfg : StreamCfg) (req : ReqInfo) (σ : List Nat) (b : Bytes) (e : Ending) : Result :=
  match e with
  | .closed => decode dc cfg req σ { bytes := b, eof := true }
  | .stillOpen => decode dc cfg req σ { bytes := b, eof := false }
  | .reset =>
    let r := decode dc cfg req σ { bytes := b, eof := false }
    if r.outcome == .stalled then { r with outcome := .exc .NetworkError, closed := true } else r

/-- the decoder used when no content coding is modelled: it is never consulted for
responses without `Content-Encoding: gzip|deflate` -/
def idDecoder : Decoder Unit :=
  { init := fun _ => (), feed := fun _ d => .ok ((), d), flush := fun _ => .ok [] }

/-! ## a sequence of exchanges on a persistent connection (lock-step) -/

/-- state of the client's connection between two exchanges -/
structure Link where
  /-- number of connections opened so far (the current one is `index`) -/
  index : Nat
  /-- there is a current connection the client has not closed -/
  alive : Bool
  /-- unread bytes sitting in its buffer -/
  leftover : Bytes
  /-- the peer has closed it -/
  peerEof : Bool
  deriving DecidableEq, Repr

/-- `Stream.reconnect()` at the start of `Session.start` (repaired): a connection that
is closed, at EOF, or holds unread bytes is replaced by a new one. -/
def Link.reuse (l : Link) : Bool := l.alive && l.leftover.isEmpty && !l.peerEof

/-- Lock-step exchanges: the peer sends `w k` only after it has received request `k`.
Returns for each exchange the index of the connection it ran on and its result. -/
def session {D} (dc : Decoder D) (cfg : StreamCfg) :
    Link → List (ReqInfo × List Nat × Wire) → List (Nat × Result)
  | _, [] => []
  | l, (req, σ, w) :: rest =>
    let idx := if l.reuse then l.index else l.index + 1
    -- bytes the reader meets first: what is still buffered on a reused connection, then `w`
    let pre := if l.reuse then l.leftover else []
    let r := decode dc cfg req σ { w with bytes := pre ++ w.bytes }
    let l' : Link := { index := idx, alive := !r.closed && r.outcome != .stalled,
                       leftover := r.rest, peerEof := w.eof }
    (idx, r) :: session dc cfg l' rest

/-- how the caller leaves its `with client.session()` block -/
inductive Leave where
  /-- `start()` and `download()` completed -/
  | downloaded
  /-- only `start()` was called (the header was enough), the block is left normally -/
  | headerOnly
  /-- an exception leaves the block after `start()` -/
  | raised
  /-- `session.abort()` was called after `start()` -/
  | aborted
  deriving DecidableEq, Repr

/-- `Session.start` without `download`: the header block is read, nothing of the body -/
def decodeHead (σ : List Nat) (w : Wire) : Result :=
  let c0 : Conn := { rest := w.bytes, eof := w.eof, sched := σ }
  match readHead (w.bytes.length + 2) c0 [] 0 with
  | .exc e nt c => mkResult w (.exc e) true nt c
  | .stall nt c => mkResult w .stalled false nt c
  | .ok block nt c =>
    match parseResponse block with
    | .error e => mkResult w (.exc e) true nt c
    | .ok (st, f) => mkResult w (.ok st f []) false nt c

/-- `Session.recycle()` / `__exit__`: the connection as the pool gets it back.  A session that is
not done — header only, left by an exception, aborted — aborts first: it CLOSES every connection
it holds BEFORE they are returned (the unread body would otherwise be taken for the next
response). -/
def linkAfter (idx : Nat) (lv : Leave) (r : Result) (w : Wire) : Link :=
  match lv with
  | .downloaded => { index := idx, alive := !r.closed && r.outcome != .stalled, leftover := r.rest, peerEof := w.eof }
  | _ => { index := idx, alive := false, leftover := r.rest, peerEof := w.eof }

/-- `session` with the way each session is left -/
def sessionL {D} (dc : Decoder D) (cfg : StreamCfg) :
    Link → List (ReqInfo × List Nat × Wire × Leave) → List (Nat × Result)
  | _, [] => []
  | l, (req, σ, w, lv) :: rest =>
    let idx := if l.reuse then l.index else l.index + 1
    let pre := if l.reuse then l.leftover else []
    let w' : Wire := { w with bytes := pre ++ w.bytes }
    let r := match lv with
      | .downloaded => decode dc cfg req σ w'
      | _ => decodeHead σ w'
    (idx, r) :: sessionL dc cfg (linkAfter idx lv r w) rest

/-! ## the body file -/

/-- the file `Session.download(file)` writes the body into: contents and position -/
structure FileSt where
  data : Bytes
  pos : Nat
  deriving DecidableEq, Repr

/-- `file.write(d)` at the current position -/
def FileSt.write (f : FileSt) (d : Bytes) : FileSt :=
  { data := f.data.take f.pos ++ d ++ f.data.drop (f.pos + d.length), pos := f.pos + d.length }

/-- what a caller reads from the current position (`Body.content()`) -/
def FileSt.content (f : FileSt) : Bytes := f.data.drop f.pos

/-- `Session.download(file, rewind=True)`: the decoded body is written at the position the
file has, then the file is put back to THAT position (not to 0): with `-O`, `--save-headers`
or `--continue` the file already holds other bytes -/
def downloadInto (f : FileSt) (body : Bytes) : FileSt := { (f.write body) with pos := f.pos }

/-! ## request side (C04) -/

/-- `RawRequest.to_bytes()`: request line, fields (already serialised), blank line -/
def requestBytes (method path version : Str) (fieldLines : List (Str × Str)) : Bytes :=
  method ++ [32] ++ path ++ [32] ++ version ++ [13, 10] ++
  (fieldLines.flatMap (fun (n, v) => if v.isEmpty then n ++ [58, 13, 10] else n ++ [58, 32] ++ v ++ [13, 10]))
  ++ [13, 10]

/-- events the session emits for one exchange, as the WARC recorder session sees them -/
inductive Ev where
  | beginRequest | requestData (d : Bytes) | endRequest
  | beginResponse | responseData (d : Bytes) | endResponse
  deriving DecidableEq, Repr

/-- `Session.start` + `download` event wiring for an exchange whose request is `reqData`
(one `write_request`, optional body pieces) and whose response reading produced `r`. -/
def exchangeEvents (reqData : List Bytes) (r : Result) (headNotified : Bytes) : List Ev :=
  [.beginRequest] ++ reqData.map .requestData ++ [.endRequest] ++
  match r.outcome with
  | .ok _ _ _ => [.responseData headNotified, .beginResponse, .responseData (r.notified.drop headNotified.length), .endResponse]
  | _ => [.responseData r.notified]

/-- `HTTPWARCRecorderSession`: blocks of the records written for an event list -/
structure Blocks where
  request : List Bytes := []
  response : List Bytes := []
  curReq : Bytes := []
  curResp : Bytes := []
  deriving DecidableEq, Repr

def recordStep (b : Blocks) : Ev → Blocks
  | .beginRequest => { b with curReq := [], curResp := [] }   -- a new recorder session per HTTP session
  | .requestData d => { b with curReq := b.curReq ++ d }
  | .endRequest => { b with request := b.request ++ [b.curReq] }
  | .beginResponse => b
  | .responseData d => { b with curResp := b.curResp ++ d }
  | .endResponse => { b with response := b.response ++ [b.curResp] }

def record (evs : List Ev) : Blocks := evs.foldl recordStep {}

/-- `HTTPWARCRecorderSession._find_payload_offset`: length of the header block as recorded
(lines up to and including the first empty line `\\r\\n` / `\\n`) -/
def payloadOffset (b : Bytes) : Nat :=
  go (b.length + 1) b 0
where
  go : Nat → Bytes → Nat → Nat
    | 0, _, off => off
    | fuel + 1, r, off =>
      if r.isEmpty then off else
      let l := (splitLF r).1
      if l == [13, 10] || l == [10] then off + l.length
      else go fuel (splitLF r).2 (off + l.length)

/-- block of a revisit record: the recorded response cut down to its header block -/
def revisitBlock (recorded : Bytes) : Bytes := recorded.take (payloadOffset recorded)

/-! ### `--warc-dedup`: when is a capture a revisit? -/

/-- digest column of a CDX line (`_write_cdx_field`), which `WARCVisitsTask` loads verbatim into
the URL table: the base32 SHA-1 of the payload, or the placeholder `-` when the run that wrote
the index had digests off -/
def cdxDigest (d : Option Str) : Str := d.getD (lit "-")

/-- digest `_record_revisit` asks the table for: `WARC-Payload-Digest` without `SHA1:`, or `''`
when the current run has digests off -/
def lookupDigest (d : Option Str) : Str := d.getD []

/-- `WARCVisit.get_revisit_id(url, digest)` for a URL the index lists: string equality of the
stored and the current digest -/
def revisitHit (old new : Option Str) : Bool := cdxDigest old == lookupDigest new

/-! ## `asyncio.StreamReader` mirror (ties the schedule abstraction to segments) -/

/-- buffer of a `StreamReader` and whether `feed_eof` was called -/
structure SR where
  buf : Bytes := []
  eof : Bool := false
  deriving DecidableEq, Repr

inductive SROp where
  | feed (d : Bytes) | feedEof | read (n : Nat) | readline
  deriving DecidableEq, Repr

inductive SROut where
  | none | data (d : Bytes) | block | valueError
  deriving DecidableEq, Repr

/-- one operation on the real `StreamReader`: `read(n)` returns `min n |buf|` bytes as soon
as the buffer is non-empty -/
def SR.step (s : SR) : SROp → SR × SROut
  | .feed d => ({ s with buf := s.buf ++ d }, .none)
  | .feedEof => ({ s with eof := true }, .none)
  | .read n =>
    if s.buf.isEmpty then (s, if s.eof then .data [] else .block)
    else ({ s with buf := s.buf.drop n }, .data (s.buf.take n))
  | .readline =>
    match (Conn.readline { rest := s.buf, eof := s.eof, sched := [] }) with
    | .line l c => ({ s with buf := c.rest }, .data l)
    | .tooLong => (s, .valueError)
    | .stall => (s, .block)

end Wpull.HttpWire
