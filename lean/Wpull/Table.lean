/-
Model of the URL table that property C14 is anchored in:

* `wpull/database/sqlmodel.py`  schema: `url_strings` (unique strings, never deleted),
  `queued_urls` (autoincrement id, UNIQUE NOT NULL `url_string_id`, nullable parent/root string
  ids, status/try_count/level/priority NOT NULL with defaults, nullable rest), `warc_visits`
  (primary key url), `hostnames` (unique); `watch_urls_inserted`, `to_plain`
* `wpull/database/sqltable.py`  `add_many`, `check_out`, `check_in`, `update_one`, `release`,
  `remove_many`, `add_visits`, `get_revisit_id`, `count`, `get_all`, `get_one`,
  `get_hostnames`, `close` (+ constructing a new table on the same path = `reopen`)
* `wpull/database/base.py`  `contains` (via `get_one`)

Two machines with the same operation alphabet `Op` and the same outputs `Out`:

* the **concrete** machine `step` on `Table`: rows in id order referring to interned strings by
  id, `INSERT OR IGNORE` decided by the UNIQUE constraint on the *string id*, "which rows are
  new" decided by `id > max(id) before`, updates through the `SELECT id FROM url_strings`
  subquery, `check_out` mutating the loaded ORM object, every call one transaction (an
  exception rolls everything back);
* the **reference** machine `sstep` on `Spec`: a list of records keyed by the URL string.

`Proofs/C14.lean` proves that the first refines the second for all histories.

What the SQL engine / SQLAlchemy / sqlite3 binding do is mirrored, not derived:
a lone surrogate in any bound string raises `UnicodeEncodeError`, an integer ≥ 2^63
`OverflowError`, a batch in which no entry supplies `parent_url` (or `root_url`) fails with
`StatementError` (SQLAlchemy 2 under the compat shim), `update_one()` without columns is a
syntax error (`OperationalError`); a `None` for a NOT NULL column with a default gets the
default.  `URLInfo.parse(url).hostname` is a *parameter*: each batch entry carries the logged
result (`parse`: raises / hostname None / hostname).  Every added URL is parsed (a `ValueError`
rolls the batch back); only the hosts of added *start* entries go into `hostnames`.
-/
import Wpull.Py.Basic
namespace Wpull.Table
open Wpull

inductive Status
  | todo | in_progress | done | error | skipped
  deriving DecidableEq, Repr, Inhabited

inductive LinkType
  | html | css | javascript | media | sitemap | file | directory
  deriving DecidableEq, Repr, Inhabited

/-- exception classes the table calls can end in -/
inductive Exc
  | NotFound | UnicodeEncodeError | OverflowError | StatementError | ValueError | OperationalError
  deriving DecidableEq, Repr, Inhabited

/-- the columns of `queued_urls` that are not references into `url_strings` -/
structure Cols where
  status : Status
  tryCount : Nat
  level : Nat
  inlineLevel : Option Nat
  linkType : Option LinkType
  priority : Nat
  postData : Option Str
  statusCode : Option Nat
  filename : Option Str
  deriving DecidableEq, Repr

/-- a row of `queued_urls` -/
structure Row where
  id : Nat
  urlId : Nat
  parentId : Option Nat
  rootId : Option Nat
  cols : Cols
  deriving DecidableEq, Repr

/-- `URLRecord` (what `to_plain` builds) = a row of the reference table -/
structure Rec where
  url : Str
  parent : Option Str
  root : Option Str
  cols : Cols
  deriving DecidableEq, Repr

/-- a row of `warc_visits` -/
structure Visit where
  url : Str
  warcId : Str
  digest : Str
  deriving DecidableEq, Repr

/-- the database: `strings[i]` is the `url_strings` row with id `i` -/
structure Table where
  strings : List Str
  rows : List Row
  visits : List Visit
  hosts : List Str
  deriving DecidableEq, Repr

def Table.empty : Table := ⟨[], [], [], []⟩

/-- the reference: records keyed by URL in insertion order.  `emptyKnown` records whether the
empty string was ever interned (an empty `parent_url`/`root_url` is bound but not interned by
`add_many`, so it only resolves when some *URL* `''` was stored earlier). -/
structure Spec where
  rows : List Rec
  emptyKnown : Bool
  visits : List Visit
  hosts : List Str
  deriving DecidableEq, Repr

def Spec.empty : Spec := ⟨[], false, [], []⟩

/-! ### operations and their arguments -/

/-- `URLProperties` (every attribute may be `None`) -/
structure Props where
  parent : Option Str
  root : Option Str
  status : Option Status
  tryCount : Option Nat
  level : Option Nat
  inlineLevel : Option Nat
  linkType : Option LinkType
  priority : Option Nat
  deriving DecidableEq, Repr

/-- one `AddURLInfo(url, properties, data)`; `data = some pd` is a `URLData` with `post_data = pd`;
`parse` is the logged result of `URLInfo.parse(url)`: `none` raises `ValueError`,
`some h` gives hostname `h`. -/
structure Entry where
  url : Str
  props : Option Props
  data : Option (Option Str)
  parse : Option (Option Str)
  deriving DecidableEq, Repr

/-- one keyword argument of `update_one` -/
inductive Assign
  | status (s : Status) | tryCount (n : Nat) | level (n : Nat) | inlineLevel (n : Option Nat)
  | linkType (l : Option LinkType) | priority (n : Nat) | postData (s : Option Str)
  | statusCode (n : Option Nat) | filename (s : Option Str)
  deriving DecidableEq, Repr

/-- `URLResult` -/
structure Result where
  statusCode : Option Nat
  filename : Option Str
  deriving DecidableEq, Repr

inductive Op
  | addMany (batch : List Entry)
  | checkOut (st : Status) (level : Option Nat)
  | checkIn (url : Str) (st : Status) (inc : Bool) (res : Option Result)
  | updateOne (url : Str) (kw : List Assign)
  | release
  | removeMany (urls : List Str)
  | addVisits (vs : List Visit)
  | getRevisitId (url digest : Str)
  | count
  | getAll
  | getOne (url : Str)
  | contains (url : Str)
  | getHostnames
  /-- construct a new table object on the same path — after `close()`, or without it (the old
  handle of a killed run is still there): every committed call is in the new object's table -/
  | reopen
  deriving DecidableEq, Repr

inductive Out
  | none
  | urls (l : List Str)
  | record (r : Rec)
  | recs (l : List Rec)
  | nat (n : Nat)
  | bool (b : Bool)
  | optStr (o : Option Str)
  | strs (l : List Str)
  | exc (e : Exc)
  deriving DecidableEq, Repr

/-! ### what the binding layer refuses -/

def hasSurrogate (s : Str) : Bool := s.any (fun c => 0xD800 ≤ c && c ≤ 0xDFFF)
def tooBig (n : Nat) : Bool := 2 ^ 63 ≤ n

def optL {α : Type} : Option α → List α
  | none => []
  | some a => [a]

def Props.strs (p : Props) : List Str := optL p.parent ++ optL p.root
def Props.nats (p : Props) : List Nat :=
  optL p.tryCount ++ optL p.level ++ optL p.inlineLevel ++ optL p.priority

def Entry.strs (e : Entry) : List Str :=
  e.url :: ((optL e.props).flatMap Props.strs ++ (optL e.data).flatMap optL)
def Entry.nats (e : Entry) : List Nat := (optL e.props).flatMap Props.nats

def Assign.strs : Assign → List Str
  | .postData s => optL s
  | .filename s => optL s
  | _ => []
def Assign.nats : Assign → List Nat
  | .tryCount n => [n] | .level n => [n] | .priority n => [n]
  | .inlineLevel n => optL n | .statusCode n => optL n
  | _ => []

/-- every string / integer handed to the database by the call -/
def Op.strs : Op → List Str
  | .addMany b => b.flatMap Entry.strs
  | .checkIn u _ _ r => u :: (optL r).flatMap (fun r => optL r.filename)
  | .updateOne u kw => u :: kw.flatMap Assign.strs
  | .removeMany us => us
  | .addVisits vs => vs.flatMap (fun v => [v.url, v.warcId, v.digest])
  | .getRevisitId u d => [u, d]
  | .getOne u => [u]
  | .contains u => [u]
  | _ => []

def Op.nats : Op → List Nat
  | .addMany b => b.flatMap Entry.nats
  | .checkOut _ l => optL l
  | .checkIn _ _ _ r => (optL r).flatMap (fun r => optL r.statusCode)
  | .updateOne _ kw => kw.flatMap Assign.nats
  | _ => []

/-- the error that refuses a call before it touches a row (the transaction is rolled back):
`UPDATE queued_urls SET  WHERE …` (no column) is a syntax error, met before anything is bound;
otherwise the first value the binding layer cannot convert -/
def bindErr (op : Op) : Option Exc :=
  if (match op with
      | .updateOne _ kw => kw.isEmpty
      | _ => false) then some .OperationalError
  else if op.strs.any hasSurrogate then some .UnicodeEncodeError
  else if op.nats.any tooBig then some .OverflowError
  else none

/-! ### `url_strings` -/

/-- `SELECT id FROM url_strings WHERE url = s` -/
def idOf : List Str → Str → Option Nat
  | [], _ => none
  | a :: t, s => if a = s then some 0 else (idOf t s).map (· + 1)

/-- `INSERT OR IGNORE INTO url_strings` -/
def intern (ss : List Str) (s : Str) : List Str := if s ∈ ss then ss else ss ++ [s]

def internAll (ss : List Str) (l : List Str) : List Str := l.foldl intern ss

/-- the association proxies `url`, `parent_url`, `root_url` -/
def strOf (ss : List Str) (i : Nat) : Option Str := ss[i]?

/-- `QueuedURL.to_plain` -/
def res (ss : List Str) (r : Row) : Rec :=
  { url := (strOf ss r.urlId).getD [], parent := r.parentId.bind (strOf ss),
    root := r.rootId.bind (strOf ss), cols := r.cols }

/-! ### add_many -/

/-- the strings `add_many` hands to `URLString.add_urls` for one entry
(`if properties.parent_url:` — an empty string is skipped) -/
def Entry.urlStrings (e : Entry) : List Str :=
  e.url :: (match e.props with
    | none => []
    | some p => (optL p.parent).filter (· ≠ []) ++ (optL p.root).filter (· ≠ []))

/-- the value bound to `parent_url` -/
def Entry.parentParam (e : Entry) : Option Str :=
  match e.props with
  | none => some e.url
  | some p => p.parent

def Entry.rootParam (e : Entry) : Option Str :=
  match e.props with
  | none => some e.url
  | some p => p.root

/-- column values of a new row: given value, else the column default -/
def Entry.cols (e : Entry) : Cols :=
  { status := (e.props.bind (·.status)).getD .todo
    tryCount := (e.props.bind (·.tryCount)).getD 0
    level := (e.props.bind (·.level)).getD 0
    inlineLevel := e.props.bind (·.inlineLevel)
    linkType := e.props.bind (·.linkType)
    priority := (e.props.bind (·.priority)).getD 0
    postData := e.data.join
    statusCode := none
    filename := none }

/-- `session.query(func.max(QueuedURL.id)).scalar() or 0` -/
def maxId : List Row → Nat
  | [] => 0
  | r :: rest => max r.id (maxId rest)

/-- one row of the `INSERT OR IGNORE INTO queued_urls` executemany -/
def insertRow (ss : List Str) (rows : List Row) (e : Entry) : List Row :=
  match idOf ss e.url with
  | none => rows   -- url_string_id NOT NULL: ignored
  | some sid =>
    if rows.any (fun r => r.urlId == sid) then rows   -- UNIQUE(url_string_id): ignored
    else rows ++ [{ id := maxId rows + 1, urlId := sid
                    parentId := e.parentParam.bind (idOf ss)
                    rootId := e.rootParam.bind (idOf ss)
                    cols := e.cols }]

/-- `URLInfo.parse(url)` for an added URL: the result logged with its batch entry -/
def parseOf (batch : List Entry) (u : Str) : Option (Option Str) :=
  (batch.find? (fun e => e.url == u)).bind (·.parse)

/-- `INSERT OR IGNORE INTO hostnames` (a `None` hostname violates NOT NULL: ignored) -/
def addHosts (hosts : List Str) (hs : List (Option Str)) : List Str :=
  hs.foldl (fun acc h => match h with
    | none => acc
    | some h => if h ∈ acc then acc else acc ++ [h]) hosts

/-- `not (url_properties and url_properties.level)`: the entry is a start URL (no properties, or
level `None` / 0) -/
def Entry.isStart (e : Entry) : Bool :=
  match e.props with
  | none => true
  | some p => p.level.getD 0 == 0

/-- the hostnames `add_many` records (repaired code, `fixed:` C02 d5f1693): of the batch entries,
in batch order, those whose URL was added and that are start URLs — the test looks at the
*entry's* properties, so a later duplicate entry without properties also counts -/
def startHosts (batch : List Entry) (added : List Str) : List (Option Str) :=
  (batch.filter (fun e => added.contains e.url && e.isStart)).map
    (fun e => (parseOf batch e.url).join)

/-- a batch needs somebody to supply the `parent_url` and `root_url` bind parameters -/
def missingBind (batch : List Entry) : Bool :=
  !(batch.any (fun e => e.parentParam.isSome)) || !(batch.any (fun e => e.rootParam.isSome))

def addMany (t : Table) (batch : List Entry) : Table × Out :=
  if batch.isEmpty then (t, .urls [])
  else if missingBind batch then (t, .exc .StatementError)
  else
    let ss := internAll t.strings (batch.flatMap Entry.urlStrings)
    let last := maxId t.rows
    let rows := batch.foldl (insertRow ss) t.rows
    let added := (rows.filter (fun r => last < r.id)).filterMap (fun r => strOf ss r.urlId)
    match added.mapM (parseOf batch) with
    | none => (t, .exc .ValueError)
    | some _ =>
      ({ t with strings := ss, rows := rows, hosts := addHosts t.hosts (startHosts batch added) },
       .urls added)

/-- reference: keyed insert-if-absent -/
def known (ek : Bool) (p : Str) : Option Str := if p = [] ∧ ek = false then none else some p

def sInsert (ek : Bool) (recs : List Rec) (e : Entry) : List Rec :=
  if recs.any (fun r => r.url == e.url) then recs
  else recs ++ [{ url := e.url, parent := e.parentParam.bind (known ek)
                  root := e.rootParam.bind (known ek), cols := e.cols }]

def sAddMany (s : Spec) (batch : List Entry) : Spec × Out :=
  if batch.isEmpty then (s, .urls [])
  else if missingBind batch then (s, .exc .StatementError)
  else
    let ek := s.emptyKnown || batch.any (fun e => e.url == [])
    let recs := batch.foldl (sInsert ek) s.rows
    let added := (recs.drop s.rows.length).map (·.url)
    match added.mapM (parseOf batch) with
    | none => (s, .exc .ValueError)
    | some _ =>
      ({ s with rows := recs, emptyKnown := ek, hosts := addHosts s.hosts (startHosts batch added) },
       .urls added)

/-! ### check_out -/

/-- `status == filter_status [AND level < filter_level]` -/
def wanted (st : Status) (lv : Option Nat) (c : Cols) : Bool :=
  c.status == st && (match lv with
    | none => true
    | some l => decide (c.level < l))

def Cols.setStatus (c : Cols) (s : Status) : Cols := { c with status := s }

/-- `.first()` in id order, then `url_record.status = in_progress` on the loaded object -/
def checkOutRows (p : Cols → Bool) : List Row → Option (Row × List Row)
  | [] => none
  | r :: rest =>
    if p r.cols then
      let r' := { r with cols := r.cols.setStatus .in_progress }
      some (r', r' :: rest)
    else (checkOutRows p rest).map (fun x => (x.1, r :: x.2))

def checkOut (t : Table) (st : Status) (lv : Option Nat) : Table × Out :=
  match checkOutRows (wanted st lv) t.rows with
  | none => (t, .exc .NotFound)
  | some (r, rows) => ({ t with rows := rows }, .record (res t.strings r))

def sCheckOut (s : Spec) (st : Status) (lv : Option Nat) : Spec × Out :=
  match s.rows.find? (fun r => wanted st lv r.cols) with
  | none => (s, .exc .NotFound)
  | some r =>
    ({ s with rows := s.rows.map (fun x =>
        if x.url = r.url then { x with cols := x.cols.setStatus .in_progress } else x) },
     .record { r with cols := r.cols.setStatus .in_progress })

/-! ### check_in, update_one, release, remove_many -/

def Cols.checkIn (c : Cols) (st : Status) (inc : Bool) (res : Option Result) : Cols :=
  { c with
    status := st
    tryCount := if inc then c.tryCount + 1 else c.tryCount
    statusCode := match res.bind (·.statusCode) with
      | some v => some v
      | none => c.statusCode
    filename := match res.bind (·.filename) with
      | some v => some v
      | none => c.filename }

def Cols.assign (c : Cols) : Assign → Cols
  | .status s => { c with status := s }
  | .tryCount n => { c with tryCount := n }
  | .level n => { c with level := n }
  | .inlineLevel n => { c with inlineLevel := n }
  | .linkType l => { c with linkType := l }
  | .priority n => { c with priority := n }
  | .postData s => { c with postData := s }
  | .statusCode n => { c with statusCode := n }
  | .filename s => { c with filename := s }

/-- `UPDATE queued_urls SET … WHERE url_string_id = (SELECT id FROM url_strings WHERE url = ?)` -/
def updateWhere (t : Table) (url : Str) (f : Cols → Cols) : Table :=
  let sid := idOf t.strings url
  { t with rows := t.rows.map (fun r => if some r.urlId = sid then { r with cols := f r.cols } else r) }

def sUpdateWhere (s : Spec) (url : Str) (f : Cols → Cols) : Spec :=
  { s with rows := s.rows.map (fun r => if r.url = url then { r with cols := f r.cols } else r) }

def Cols.release (c : Cols) : Cols :=
  if c.status = .in_progress then { c with status := .todo } else c

/-- `DELETE FROM queued_urls WHERE url_string_id = <scalar of SELECT id …>` (NULL matches nothing) -/
def removeOne (ss : List Str) (rows : List Row) (u : Str) : List Row :=
  let sid := idOf ss u
  rows.filter (fun r => !(decide (some r.urlId = sid)))

def sRemoveOne (recs : List Rec) (u : Str) : List Rec :=
  recs.filter (fun r => !(decide (r.url = u)))

/-! ### warc_visits -/

/-- `INSERT OR IGNORE`, primary key `url` -/
def addVisit (vs : List Visit) (v : Visit) : List Visit :=
  if vs.any (fun x => x.url == v.url) then vs else vs ++ [v]

def revisitId (vs : List Visit) (u d : Str) : Option Str :=
  (vs.find? (fun v => v.url == u && v.digest == d)).map (·.warcId)

/-! ### the two machines -/

/-- One call on the concrete table.  `disk` = the table lives in a file (otherwise `:memory:`). -/
def step (disk : Bool) (t : Table) (op : Op) : Table × Out :=
  match bindErr op with
  | some e => (t, .exc e)
  | none =>
    match op with
    | .addMany b => addMany t b
    | .checkOut st lv => checkOut t st lv
    | .checkIn u st inc r => (updateWhere t u (fun c => c.checkIn st inc r), .none)
    | .updateOne u kw => (updateWhere t u (fun c => kw.foldl Cols.assign c), .none)
    | .release => ({ t with rows := t.rows.map (fun r => { r with cols := r.cols.release }) }, .none)
    | .removeMany us => ({ t with rows := us.foldl (removeOne t.strings) t.rows }, .none)
    | .addVisits vs => ({ t with visits := vs.foldl addVisit t.visits }, .none)
    | .getRevisitId u d => (t, .optStr (revisitId t.visits u d))
    | .count => (t, .nat t.rows.length)
    | .getAll => (t, .recs (t.rows.map (res t.strings)))
    | .getOne u =>
      match t.rows.find? (fun r => strOf t.strings r.urlId == some u) with
      | none => (t, .exc .NotFound)
      | some r => (t, .record (res t.strings r))
    | .contains u => (t, .bool (t.rows.find? (fun r => strOf t.strings r.urlId == some u)).isSome)
    | .getHostnames => (t, .strs t.hosts)
    | .reopen => (if disk then t else Table.empty, .none)

/-- One call on the reference. -/
def sstep (disk : Bool) (s : Spec) (op : Op) : Spec × Out :=
  match bindErr op with
  | some e => (s, .exc e)
  | none =>
    match op with
    | .addMany b => sAddMany s b
    | .checkOut st lv => sCheckOut s st lv
    | .checkIn u st inc r => (sUpdateWhere s u (fun c => c.checkIn st inc r), .none)
    | .updateOne u kw => (sUpdateWhere s u (fun c => kw.foldl Cols.assign c), .none)
    | .release => ({ s with rows := s.rows.map (fun r => { r with cols := r.cols.release }) }, .none)
    | .removeMany us => ({ s with rows := us.foldl sRemoveOne s.rows }, .none)
    | .addVisits vs => ({ s with visits := vs.foldl addVisit s.visits }, .none)
    | .getRevisitId u d => (s, .optStr (revisitId s.visits u d))
    | .count => (s, .nat s.rows.length)
    | .getAll => (s, .recs s.rows)
    | .getOne u =>
      match s.rows.find? (fun r => r.url == u) with
      | none => (s, .exc .NotFound)
      | some r => (s, .record r)
    | .contains u => (s, .bool (s.rows.find? (fun r => r.url == u)).isSome)
    | .getHostnames => (s, .strs s.hosts)
    | .reopen => (if disk then s else Spec.empty, .none)

/-- a history: final state and the outputs in order -/
def run (disk : Bool) : Table → List Op → Table × List Out
  | t, [] => (t, [])
  | t, op :: ops =>
    let (t', o) := step disk t op
    let (t'', os) := run disk t' ops
    (t'', o :: os)

def srun (disk : Bool) : Spec → List Op → Spec × List Out
  | s, [] => (s, [])
  | s, op :: ops =>
    let (s', o) := sstep disk s op
    let (s'', os) := srun disk s' ops
    (s'', o :: os)

/-! ### several table objects in one process

Table objects are independent values: a call on one of two live tables is `step` on that one and
leaves the other as it is (no shared session factory, engine or cache). -/

inductive Side
  | left | right
  deriving DecidableEq, Repr

def step2 (d1 d2 : Bool) (p : Table × Table) (s : Side) (op : Op) : (Table × Table) × Out :=
  match s with
  | .left => (((step d1 p.1 op).1, p.2), (step d1 p.1 op).2)
  | .right => ((p.1, (step d2 p.2 op).1), (step d2 p.2 op).2)

/-- an interleaved history over two live tables -/
def run2 (d1 d2 : Bool) : Table × Table → List (Side × Op) → (Table × Table) × List (Side × Out)
  | p, [] => (p, [])
  | p, (s, op) :: rest =>
    ((run2 d1 d2 (step2 d1 d2 p s op).1 rest).1,
     (s, (step2 d1 d2 p s op).2) :: (run2 d1 d2 (step2 d1 d2 p s op).1 rest).2)

/-- the calls (or outputs) of one side, in order -/
def proj {α : Type} (s : Side) (h : List (Side × α)) : List α :=
  h.filterMap (fun x => if x.1 = s then some x.2 else none)

/-- the abstraction map: what `get_all()` shows (+ the tables that are stored as they are) -/
def abs (t : Table) : Spec :=
  { rows := t.rows.map (res t.strings), emptyKnown := decide ([] ∈ t.strings)
    visits := t.visits, hosts := t.hosts }

end Wpull.Table
