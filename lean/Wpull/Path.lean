/-
Model of the file-naming code that property C15 is anchored in:

* `wpull/path.py`    `PercentEncoder`, `safe_filename`, `url_to_dir_parts`,
                     `url_to_filename`, `PathNamer.get_filename`,
                     `parse_content_disposition`
* `wpull/writer.py`  `BaseFileWriterSession._rename_with_content_disposition`
* the interpreter's `urllib.parse.urlsplit` (+ `.hostname`, `.port`),
  `urllib.parse.unquote` (UTF-8, errors='replace'), `posixpath.join`,
  `posixpath.dirname`  — mirrored; each has its own differential stream.

Parameters (results logged from the real run and passed in; the theorems are
stated for every value unless a hypothesis names them):
  `tbl`     Unicode case mapping of one non-ASCII code point (`chr(c).lower()` / `.upper()`)
  `sha`     `hashlib.sha1(x.encode('utf8')).hexdigest()` as a function of the name `x` that is truncated
  `Ext`     verdicts of `urllib.parse._check_bracketed_host` / `_checknetloc`
  `m1 m2`   the two regular-expression matches of `parse_content_disposition`

Strings are lists of code points.
-/
import Wpull.Py.Basic
namespace Wpull.Path
open Wpull

/-! ### configuration -/

/-- `os_type`: the two strings the code looks for, and anything else. -/
inductive OsType | unix | windows | other
  deriving DecidableEq, Repr

inductive CaseMode | none | lower | upper
  deriving DecidableEq, Repr

/-- keyword arguments of `safe_filename` -/
structure SafeCfg where
  os : OsType
  noControl : Bool
  asciiOnly : Bool
  case : CaseMode
  /-- `max_length`; `None` is rendered as 0 (both are falsy) -/
  maxLen : Int
  deriving Repr

/-- constructor arguments of `PathNamer` -/
structure NamerCfg where
  safe : SafeCfg
  root : Str
  index : Str
  useDir : Bool
  /-- `range(self._cut or 0)` iterations (negative and `None` give 0) -/
  cut : Nat
  protocol : Bool
  hostname : Bool
  deriving Repr

/-! ### PercentEncoder -/

/-- `b'%' + base64.b16encode(bytes([b]))` -/
def pct (b : Nat) : Str := [37, hexChar (b / 16), hexChar (b % 16)]

/-- the bytes of `br'\|/:?"*<>'` -/
def winChars : List Nat := [92, 124, 47, 58, 63, 34, 42, 60, 62]

/-- the condition of `PercentEncoder.__missing__` for one byte -/
def escapes (cfg : SafeCfg) (b : Nat) : Bool :=
  (cfg.os == .unix && b == 47)
  || (cfg.noControl && (b ≤ 31 || (cfg.asciiOnly && 128 ≤ b && b ≤ 159)))
  || (cfg.os == .windows && winChars.contains b)
  || (cfg.asciiOnly && b > 127)

/-- `chr(c).encode('utf8')` for a non-surrogate code point -/
def utf8 (c : Nat) : Bytes :=
  if c < 0x80 then [c]
  else if c < 0x800 then [0xC0 + c / 64, 0x80 + c % 64]
  else if c < 0x10000 then [0xE0 + c / 4096 % 16, 0x80 + c / 64 % 64, 0x80 + c % 64]
  else [0xF0 + c / 262144 % 8, 0x80 + c / 4096 % 64, 0x80 + c / 64 % 64, 0x80 + c % 64]

/-- `encoder.quote(chr(c).encode('utf8')).decode('utf8')`: what one code point
of the name becomes.  ASCII: escaped or kept.  Non-ASCII: every UTF-8 byte is
> 127, so with `ascii` all of them are escaped and without it none is (the
`128..159` control clause needs `ascii` too), and decoding gives the code point
back. -/
def encChar (cfg : SafeCfg) (c : Nat) : Str :=
  if c < 128 then (if escapes cfg c then pct c else [c])
  else if cfg.asciiOnly then (utf8 c).flatMap pct
  else [c]

def isSurrogate (c : Nat) : Bool := 0xD800 ≤ c && c ≤ 0xDFFF

def dot : Str := [46]
def dotdot : Str := [46, 46]

/-- first part of `safe_filename`: dot names, else encode / quote / decode -/
def quoteName (cfg : SafeCfg) (name : Str) : Except PyExc Str :=
  if name = dot then .ok (lit "%2E")
  else if name = dotdot then .ok (lit "%2E%2E")
  else if name.any isSurrogate then .error .UnicodeEncodeError
  else .ok (name.flatMap (encChar cfg))

/-- `if os_type == 'windows': if new_filename and new_filename[-1] in ' .':
'{0}%{1:02X}'.format(new_filename[:-1], ord(new_filename[-1]))` — the repaired code
(KNOWN_FINDINGS.txt, `fixed:` C15): a trailing blank / dot becomes `%20` / `%2E`; the
empty name is left alone.  (Before the repair the format call raised `ValueError`
for every such name and `[-1]` raised `IndexError` for the empty one.) -/
def winTrailing (cfg : SafeCfg) (s : Str) : Str :=
  if cfg.os == .windows then
    match s.getLast? with
    | none => s
    | some c => if c == 32 || c == 46 then s.dropLast ++ pct c else s
  else s

/-- `if max_length and len(new) > max_length: new[:max(0, max_length - 8)] + sha1hex[:8]` -/
def truncate (cfg : SafeCfg) (sha : Str → Str) (s : Str) : Str :=
  if cfg.maxLen ≠ 0 ∧ (s.length : Int) > cfg.maxLen then
    s.take (cfg.maxLen - 8).toNat ++ (sha s).take 8
  else s

/-- `str.lower` / `str.upper` of one code point; non-ASCII through the table -/
def foldChar (tbl : Nat → Str) (m : CaseMode) (c : Nat) : Str :=
  match m with
  | .none => [c]
  | .lower => if c < 128 then [asciiLower c] else tbl c
  | .upper => if c < 128 then [asciiUpper c] else tbl c

def foldStr (tbl : Nat → Str) (m : CaseMode) (s : Str) : Str := s.flatMap (foldChar tbl m)

/-- `wpull.path.safe_filename` -/
def safeFilename (cfg : SafeCfg) (tbl : Nat → Str) (sha : Str → Str) (name : Str) : Except PyExc Str :=
  match quoteName cfg name with
  | .error e => .error e
  | .ok q => .ok (foldStr tbl cfg.case (truncate cfg sha (winTrailing cfg q)))

/-- the name whose SHA-1 `safe_filename` would take (used by the driver to key the logged digests) -/
def preTrunc (cfg : SafeCfg) (name : Str) : Option Str :=
  match quoteName cfg name with
  | .error _ => none
  | .ok q => some (winTrailing cfg q)

/-! ### urllib.parse.urlsplit, `.hostname`, `.port` -/

/-- verdicts of the two library checks the model does not contain -/
structure Ext where
  /-- `_check_bracketed_host` accepts the text between `[` and `]` -/
  bracketOk : Bool
  /-- `_checknetloc` accepts a non-ASCII netloc (NFKC test) -/
  netlocOk : Bool
  deriving Repr

structure Split where
  scheme : Str
  netloc : Str
  path : Str
  query : Str
  deriving Repr, DecidableEq

def isAsciiAlpha (c : Nat) : Bool := isAsciiUpper c || isAsciiLower c

/-- `scheme_chars` -/
def isSchemeChar (c : Nat) : Bool := isAsciiAlpha c || isAsciiDigit c || c == 43 || c == 45 || c == 46

/-- longest prefix satisfying `p`, and the rest -/
def spanP (p : Nat → Bool) : Str → Str × Str
  | [] => ([], [])
  | c :: t => if p c then ((c :: (spanP p t).1), (spanP p t).2) else ([], c :: t)

/-- `(before, found, after)` of the first `sep` -/
def cut1 (s : Str) (sep : Nat) : Str × Bool × Str :=
  match spanP (· != sep) s with
  | (a, []) => (a, false, [])
  | (a, _ :: b) => (a, true, b)

/-- the scheme step of `urlsplit` -/
def splitScheme (url : Str) : Str × Str :=
  match cut1 url 58 with
  | (pre, true, rest) =>
    match pre with
    | [] => ([], url)
    | c :: _ => if isAsciiAlpha c && pre.all isSchemeChar then (pre.map asciiLower, rest) else ([], url)
  | _ => ([], url)

/-- `url.lstrip(C0 and space)`, then tab / CR / LF removed -/
def cleanUrl (url : Str) : Str :=
  (url.dropWhile (· ≤ 32)).filter (fun c => c != 9 && c != 10 && c != 13)

/-- `urlsplit` after the scheme has been cut off: netloc, path, query -/
def urlsplitCore (ext : Ext) (url : Str) : Except PyExc (Str × Str × Str) :=
  let nu : Str × Str :=
    match url with
    | 47 :: 47 :: body => spanP (fun c => c != 47 && c != 63 && c != 35) body
    | _ => ([], url)
  let netloc := nu.1
  let ob := netloc.contains 91
  let cb := netloc.contains 93
  if ob != cb then .error .ValueError
  else if ob && cb && !ext.bracketOk then .error .ValueError
  else
    let url := (cut1 nu.2 35).1
    let pq := cut1 url 63
    if !netloc.isEmpty && !netloc.all (· < 128) && !ext.netlocOk then .error .ValueError
    else .ok (netloc, pq.1, pq.2.2)

def urlsplitRest (ext : Ext) (scheme url : Str) : Except PyExc Split :=
  match urlsplitCore ext url with
  | .error e => .error e
  | .ok r => .ok ⟨scheme, r.1, r.2.1, r.2.2⟩

def urlsplit (ext : Ext) (url0 : Str) : Except PyExc Split :=
  let ss := splitScheme (cleanUrl url0)
  urlsplitRest ext ss.1 ss.2

/-- the text after the last `sep` (all of `s` if there is none): `s.rpartition(sep)[2]` -/
def afterLast (s : Str) (sep : Nat) : Str := ((splitOn1 s sep).getLast?).getD []

/-- `_hostinfo` -/
def hostinfo (netloc : Str) : Str × Str :=
  let hi := afterLast netloc 64
  let br := cut1 hi 91
  if br.2.1 then
    let hp := cut1 br.2.2 93
    (hp.1, (cut1 hp.2.2 58).2.2)
  else
    let hp := cut1 hi 58
    (hp.1, hp.2.2)

/-- `.hostname` (`none` = Python `None`); lower-casing is ASCII only -/
def hostnameOf (netloc : Str) : Option Str :=
  let h := (hostinfo netloc).1
  if h.isEmpty then none
  else
    let c := cut1 h 37
    some (c.1.map asciiLower ++ (if c.2.1 then [37] else []) ++ c.2.2)

def digitsVal (s : Str) : Nat := s.foldl (fun a c => a * 10 + (c - 48)) 0

/-- `.port` -/
def portOf (netloc : Str) : Except PyExc (Option Nat) :=
  let p := (hostinfo netloc).2
  if p.isEmpty then .ok none
  else if p.all isAsciiDigit then
    (if digitsVal p ≤ 65535 then .ok (some (digitsVal p)) else .error .ValueError)
  else .error .ValueError

/-- `str(n)` -/
def decimal (n : Nat) : Str := lit (toString n)

/-! ### url_to_dir_parts, url_to_filename -/

/-- `url_to_dir_parts`; an entry `none` is Python's `None` (URL without host). -/
def urlToDirParts (ext : Ext) (url : Str) (protocol hostname alt : Bool) : Except PyExc (List (Option Str)) :=
  match urlsplit ext url with
  | .error e => .error e
  | .ok sp =>
    let p1 : List (Option Str) := if protocol then [some sp.scheme] else []
    let p2 : Except PyExc (List (Option Str)) :=
      if hostname then
        match portOf sp.netloc with
        | .error e => .error e
        | .ok (some (n + 1)) =>
          .ok [some ((hostnameOf sp.netloc).getD (lit "None") ++ [if alt then 43 else 58] ++ decimal (n + 1))]
        | .ok _ => .ok [hostnameOf sp.netloc]
      else .ok []
    match p2 with
    | .error e => .error e
    | .ok p2 =>
      let parts := p1 ++ p2 ++ ((splitOn1 sp.path 47).filter (fun x => !x.isEmpty)).map some
      .ok (if url.getLast? != some 47 && !parts.isEmpty then parts.dropLast else parts)

/-- `url_to_filename` -/
def urlToFilename (ext : Ext) (url index : Str) (alt : Bool) : Except PyExc Str :=
  match urlsplit ext url with
  | .error e => .error e
  | .ok sp =>
    let f := ((splitOn1 sp.path 47).getLast?).getD []
    let f := if f.isEmpty then index else f
    .ok (if sp.query.isEmpty then f else f ++ [if alt then 64 else 63] ++ sp.query)

/-! ### urllib.parse.unquote (encoding utf-8, errors 'replace') -/

/-- after `%XX` decoding: a byte of an ASCII run, or a non-ASCII character of the
text (which ends the run) -/
inductive Item | byte (b : Nat) | char (c : Nat)
  deriving DecidableEq, Repr

def item (c : Nat) : Item := if c < 128 then .byte c else .char c

inductive PSt | n | p | ph (a : Nat)

/-- `_unquote_impl`: `%` + two hex digits is a byte, any other `%` stays -/
def pctGo : PSt → Str → List Item
  | .n, [] => []
  | .p, [] => [.byte 37]
  | .ph a, [] => [.byte 37, item a]
  | .n, c :: t => if c == 37 then pctGo .p t else item c :: pctGo .n t
  | .p, c :: t =>
    if isHexDigit c then pctGo (.ph c) t
    else .byte 37 :: (if c == 37 then pctGo .p t else item c :: pctGo .n t)
  | .ph a, c :: t =>
    if isHexDigit c then .byte (hexVal a * 16 + hexVal c) :: pctGo .n t
    else .byte 37 :: item a :: (if c == 37 then pctGo .p t else item c :: pctGo .n t)

/-- a started multi-byte sequence: `need` more bytes, the next one in `[lo, hi]` -/
structure Pend where
  need : Nat
  lo : Nat
  hi : Nat
  acc : Nat

/-- first byte of a UTF-8 sequence: a finished character (ASCII, or U+FFFD for an
invalid lead byte) or a pending sequence -/
def startByte (b : Nat) : Nat ⊕ Pend :=
  if b < 0x80 then .inl b
  else if 0xC2 ≤ b && b ≤ 0xDF then .inr ⟨1, 0x80, 0xBF, b - 0xC0⟩
  else if b == 0xE0 then .inr ⟨2, 0xA0, 0xBF, 0⟩
  else if b == 0xED then .inr ⟨2, 0x80, 0x9F, 0xD⟩
  else if 0xE1 ≤ b && b ≤ 0xEF then .inr ⟨2, 0x80, 0xBF, b - 0xE0⟩
  else if b == 0xF0 then .inr ⟨3, 0x90, 0xBF, 0⟩
  else if b == 0xF4 then .inr ⟨3, 0x80, 0x8F, 4⟩
  else if 0xF1 ≤ b && b ≤ 0xF3 then .inr ⟨3, 0x80, 0xBF, b - 0xF0⟩
  else .inl 0xFFFD

/-- `bytes.decode('utf-8', 'replace')` per ASCII run (CPython replaces every
maximal invalid subpart by one U+FFFD) -/
def decode : Option Pend → List Item → Str
  | none, [] => []
  | some _, [] => [0xFFFD]
  | none, .char c :: t => c :: decode none t
  | some _, .char c :: t => 0xFFFD :: c :: decode none t
  | none, .byte b :: t =>
    match startByte b with
    | .inl c => c :: decode none t
    | .inr p => decode (some p) t
  | some p, .byte b :: t =>
    if p.lo ≤ b && b ≤ p.hi then
      (if p.need ≤ 1 then (p.acc * 64 + (b - 0x80)) :: decode none t
       else decode (some ⟨p.need - 1, 0x80, 0xBF, p.acc * 64 + (b - 0x80)⟩) t)
    else
      0xFFFD :: (match startByte b with
        | .inl c => c :: decode none t
        | .inr q => decode (some q) t)

/-- `urllib.parse.unquote(s)` -/
def unquote (s : Str) : Str :=
  if s.contains 37 then decode none (pctGo .n s) else s

/-! ### posixpath.join / dirname -/

/-- one step of `posixpath.join` -/
def joinOne (path b : Str) : Str :=
  if b.head? == some 47 then b
  else if path.isEmpty || path.getLast? == some 47 then path ++ b
  else path ++ [47] ++ b

/-- `os.path.join(root, *parts)` -/
def posixJoin (root : Str) (parts : List Str) : Str := parts.foldl joinOne root

/-- `s.rstrip('/')` -/
def rstripSlash (s : Str) : Str := (s.reverse.dropWhile (· == 47)).reverse

/-- `posixpath.dirname` -/
def dirname (p : Str) : Str :=
  let last := ((splitOn1 p 47).getLast?).getD []
  let head := p.take (p.length - last.length)
  if head.all (· == 47) then head else rstripSlash head

/-! ### PathNamer.get_filename -/

/-- `[self.safe_filename(part) for part in parts]`;
`safe_filename(None)` fails its `assert isinstance(filename, str)`. -/
def safeAll (cfg : SafeCfg) (tbl : Nat → Str) (sha : Str → Str) : List (Option Str) → Except PyExc (List Str)
  | [] => .ok []
  | none :: _ => .error .AssertionError
  | some p :: rest =>
    match safeFilename cfg tbl sha p with
    | .error e => .error e
    | .ok r =>
      match safeAll cfg tbl sha rest with
      | .error e => .error e
      | .ok rs => .ok (r :: rs)

/-- `[urllib.parse.unquote(part) for part in parts]`; `unquote(None)` raises `TypeError` -/
def unquoteAll : List (Option Str) → Except PyExc (List (Option Str))
  | [] => .ok []
  | none :: _ => .error .TypeError
  | some p :: rest =>
    match unquoteAll rest with
    | .error e => .error e
    | .ok rs => .ok (some (unquote p) :: rs)

def listingName : Str := lit ".listing"

/-- the raw (unsanitised) parts `get_filename` builds -/
def rawParts (cfg : NamerCfg) (ext : Ext) (isFtp : Bool) (url : Str) : Except PyExc (List (Option Str)) :=
  let alt := cfg.safe.os == .windows
  let dirs : Except PyExc (List (Option Str)) :=
    if cfg.useDir then
      match urlToDirParts ext url cfg.protocol cfg.hostname alt with
      | .error e => .error e
      | .ok d => .ok (d.drop cfg.cut)
    else .ok []
  match dirs with
  | .error e => .error e
  | .ok dirs =>
    match urlToFilename ext url (if isFtp then listingName else cfg.index) alt with
    | .error e => .error e
    | .ok f =>
      let parts := dirs ++ [some f]
      if isFtp then unquoteAll parts else .ok parts

/-- the sanitised components of `get_filename` -/
def components (cfg : NamerCfg) (tbl : Nat → Str) (sha : Str → Str) (ext : Ext) (isFtp : Bool)
    (url : Str) : Except PyExc (List Str) :=
  match rawParts cfg ext isFtp url with
  | .error e => .error e
  | .ok parts => safeAll cfg.safe tbl sha parts

/-- `PathNamer.get_filename(url_info)` with `url = url_info.url`,
`isFtp = (url_info.scheme == 'ftp')` -/
def getFilename (cfg : NamerCfg) (tbl : Nat → Str) (sha : Str → Str) (ext : Ext) (isFtp : Bool)
    (url : Str) : Except PyExc Str :=
  match components cfg tbl sha ext isFtp url with
  | .error e => .error e
  | .ok comps => .ok (posixJoin cfg.root comps)

/-! ### Content-Disposition -/

/-- `str.isspace()` of one code point -/
def isSpace (c : Nat) : Bool :=
  (9 ≤ c && c ≤ 13) || (28 ≤ c && c ≤ 32) || c == 0x85 || c == 0xA0 || c == 0x1680
  || (0x2000 ≤ c && c ≤ 0x200A) || c == 0x2028 || c == 0x2029 || c == 0x202F || c == 0x205F || c == 0x3000

/-- `s.strip()` -/
def strip (s : Str) : Str := ((s.dropWhile isSpace).reverse.dropWhile isSpace).reverse

/-- `s.replace('\\"', '"')` -/
def unescapeQuote : Str → Str
  | 92 :: 34 :: t => 34 :: unescapeQuote t
  | c :: t => c :: unescapeQuote t
  | [] => []

/-- `parse_content_disposition` after its two regular expressions:
`m1` = group 1 of `filename\s*=\s*(.+)` (search, IGNORECASE), `m2` = group 2 of
`(.)(.+)(?!\\)\1` matched on `m1`. -/
def cdName (m1 m2 : Option Str) : Option Str :=
  match m1 with
  | none => none
  | some f =>
    match f with
    | [] => none
    | c :: _ =>
      if c == 34 || c == 39 then m2.map unescapeQuote
      else some (strip (cut1 f 59).1)

/-- `_rename_with_content_disposition`: the new value of `self._filename`.
`cur` = current `self._filename`, `isHttp` = scheme in (http, https),
`hasHeader` = the header value is truthy. -/
def renameCD (cfg : SafeCfg) (tbl : Nat → Str) (sha : Str → Str) (cur : Str) (isHttp hasHeader : Bool)
    (m1 m2 : Option Str) : Except PyExc Str :=
  if cur.isEmpty || !isHttp || !hasHeader then .ok cur
  else
    match cdName m1 m2 with
    | none => .ok cur
    | some f =>
      if f.isEmpty then .ok cur
      else
        match safeFilename cfg tbl sha f with
        | .error e => .error e
        | .ok n => .ok (joinOne (dirname cur) n)

/-! ### FileWriterSetupTask._build_file_writer: from the option list to the namer -/

/-- the choices of `--restrict-file-names` -/
inductive Mode | windows | unix | lower | upper | ascii | nocontrol
  deriving DecidableEq, Repr

/-- `--no-directories` / `--force-directories` / neither (`args.use_directories`) -/
inductive DirOpt | unset | force | no
  deriving DecidableEq, Repr

/-- `os_type`, `no_control`, `ascii_only`, `case` as the setup task derives them from
`args.restrict_file_names` (a set of modes; `maxLen` = `args.max_filename_length`) -/
def optionsToCfg (modes : List Mode) (maxLen : Int) : SafeCfg :=
  { os := if modes.contains .windows then .windows else .unix
    noControl := !modes.contains .nocontrol
    asciiOnly := modes.contains .ascii
    case := if modes.contains .lower then .lower else if modes.contains .upper then .upper else .none
    maxLen := maxLen }

/-- `use_dir` of the setup task -/
def useDirOf (nUrls : Nat) (pageRequisites recursive : Bool) (d : DirOpt) : Bool :=
  match d with
  | .force => true
  | .no => false
  | .unset => nUrls != 1 || pageRequisites || recursive

/-- the `PathNamer` the setup task builds -/
def namerOfArgs (modes : List Mode) (maxLen : Int) (root index : Str) (nUrls : Nat)
    (pageRequisites recursive : Bool) (d : DirOpt) (cut : Nat) (protocol hostname : Bool) : NamerCfg :=
  ⟨optionsToCfg modes maxLen, root, index, useDirOf nUrls pageRequisites recursive d, cut, protocol, hostname⟩

end Wpull.Path
