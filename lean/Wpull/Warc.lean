/-
Model of the WARC / CDX writing code that properties C05 and C07 are anchored in
(the *repaired* code, see KNOWN_FINDINGS.txt `fixed:` C05 / C07):

* `wpull/namevalue.py`     `NameValueRecord` (`__setitem__`, `add`, `get`, `to_str`),
                           `normalize_name`, `unfold_lines`, `parse(strict=False)`
* `wpull/warc/format.py`   `WARCRecord.set_common_fields`, `set_content_length`,
                           `compute_checksum`, `__iter__`, `get_http_header`
* `wpull/warc/recorder.py` `WARCRecorder.__init__`, `_start_new_warc_file`,
                           `_generate_warc_filename`, `_populate_warcinfo`, `flush_session`,
                           `write_record` (Warcinfo-ID stamping, offsets, CDX call; *not* the
                           journal / rollback logic, that is C06), `close`, `_write_cdx_field`,
                           `parse_mimetype`, `HTTPWARCRecorderSession`, `FTPWARCRecorderSession`
* `wpull/protocol/http/request.py`  `Response.parse_status_line`

Parameters (not modelled, values observed by the harness are passed in):
`H` = `base32 ∘ sha1`, `member` = the gzip member written for a record, the uuid and
date supplies, `ts` = `parse_iso8601_str`, `textwrap.wrap` output of warcinfo fields.
Strings are lists of code points, byte strings lists of naturals < 256.
-/
import Wpull.Py.Basic
namespace Wpull.Warc
open Wpull

def crlf : List Nat := [13, 10]

/-! ### `str(int)` and `'{:05d}'.format` -/

def decAux : Nat → Nat → List Nat → List Nat
  | 0, _, acc => acc
  | f + 1, n, acc => if n < 10 then (48 + n) :: acc else decAux f (n / 10) ((48 + n % 10) :: acc)

/-- `str(n)` -/
def decimal (n : Nat) : Str := decAux (n + 1) n []

/-- `'{0:05d}'.format(n)` -/
def pad5 (n : Nat) : Str :=
  let d := decimal n
  List.replicate (5 - d.length) 48 ++ d

/-- value of a decimal digit string (`int(s)` for an ASCII digit string) -/
def parseDec? (s : List Nat) : Option Nat :=
  if s ≠ [] ∧ s.all isAsciiDigit then some (s.foldl (fun v d => v * 10 + (d - 48)) 0) else none

/-! ### `str.encode('utf-8')` -/

def isSurrogate (c : Nat) : Bool := 0xD800 ≤ c && c ≤ 0xDFFF

def utf8c (c : Nat) : Bytes :=
  if c < 0x80 then [c]
  else if c < 0x800 then [0xC0 + c / 64, 0x80 + c % 64]
  else if c < 0x10000 then [0xE0 + c / 4096, 0x80 + c / 64 % 64, 0x80 + c % 64]
  else [0xF0 + c / 262144 % 8, 0x80 + c / 4096 % 64, 0x80 + c / 64 % 64, 0x80 + c % 64]

/-- `s.encode('utf-8')` for a string without lone surrogates (`encodable`);
the driver reports `UnicodeEncodeError` otherwise. -/
def utf8 (s : Str) : Bytes := s.flatMap utf8c

def encodable (s : Str) : Bool := s.all (fun c => !isSurrogate c)

/-! ### `NameValueRecord` -/

/-- `str.title()` on ASCII (non-ASCII characters are treated as uncased; the
recorder only uses ASCII field names). -/
def asciiTitle (s : Str) : Str := go false s
where
  go : Bool → Str → Str
    | _, [] => []
    | prev, c :: t =>
      let cased := isAsciiUpper c || isAsciiLower c
      (if prev then asciiLower c else asciiUpper c) :: go cased t

/-- `normalize_name(name, overrides)` -/
def normalizeName (overrides : List Str) (name : Str) : Str :=
  let t := asciiTitle name
  match overrides.find? (fun o => asciiTitle o == t) with
  | some o => o
  | none => t

/-- the ordered `name ↦ [values]` map of a `NameValueRecord` -/
abbrev NVMap := List (Str × List Str)

/-- `self._map[k][:] = (v,)` -/
def NVMap.setItem : NVMap → Str → Str → NVMap
  | [], k, v => [(k, [v])]
  | (k', vs) :: t, k, v => if k' = k then (k', [v]) :: t else (k', vs) :: NVMap.setItem t k v

/-- `self._map[k].append(v)` -/
def NVMap.addItem : NVMap → Str → Str → NVMap
  | [], k, v => [(k, [v])]
  | (k', vs) :: t, k, v => if k' = k then (k', vs ++ [v]) :: t else (k', vs) :: NVMap.addItem t k v

/-- `self._map[k][0]` if present -/
def NVMap.get? : NVMap → Str → Option Str
  | [], _ => none
  | (k', vs) :: t, k => if k' = k then vs.head? else NVMap.get? t k

/-- `get_all()` -/
def NVMap.getAll (m : NVMap) : List (Str × Str) :=
  m.flatMap (fun p => p.2.map (fun v => (p.1, v)))

/-- one `name: value` line of `to_str()` without `wrap_width` -/
def fieldLine (p : Str × Str) : Str :=
  if p.2 = [] then p.1 ++ [58] else p.1 ++ [58, 32] ++ p.2

/-- `to_str()` without `wrap_width`: every pair on its own CRLF-terminated line -/
def pairsToStr (ps : List (Str × Str)) : Str :=
  ps.flatMap (fun p => fieldLine p ++ crlf)

def NVMap.toStr (m : NVMap) : Str := pairsToStr m.getAll

/-- one line (possibly folded) of `to_str()` with `wrap_width`: `wrapped` is the
logged result of `textwrap.wrap(value, width, drop_whitespace=False,
initial_indent=' ', subsequent_indent=' ')` -/
def wrappedLine (name value : Str) (wrapped : List Str) : Str :=
  if value = [] then name ++ [58] else name ++ [58] ++ joinWith crlf wrapped

/-! ### `WARCRecord` -/

def nameOverrides : List Str := [
  lit "WARC-Date", lit "WARC-Type", lit "WARC-Record-ID", lit "WARC-Concurrent-To",
  lit "WARC-Refers-To", lit "Content-Length", lit "Content-Type", lit "WARC-Target-URI",
  lit "WARC-Block-Digest", lit "WARC-IP-Address", lit "WARC-Filename", lit "WARC-Warcinfo-ID",
  lit "WARC-Payload-Digest", lit "WARC-Truncated", lit "WARC-Profile",
  lit "WARC-Identified-Payload-Type", lit "WARC-Segment-Origin-ID", lit "WARC-Segment-Number",
  lit "WARC-Segment-Total-Length"]

structure Record where
  /-- creation index (which uuid / date / gzip member belongs to it); not serialised -/
  idx : Nat
  fields : NVMap
  block : Bytes
  deriving DecidableEq, Repr

def kType := lit "WARC-Type"
def kCType := lit "Content-Type"
def kDate := lit "WARC-Date"
def kId := lit "WARC-Record-ID"
def kLen := lit "Content-Length"
def kBlockDigest := lit "WARC-Block-Digest"
def kPayloadDigest := lit "WARC-Payload-Digest"
def kWarcinfoId := lit "WARC-Warcinfo-ID"
def kUri := lit "WARC-Target-URI"
def kIp := lit "WARC-IP-Address"
def kConcurrent := lit "WARC-Concurrent-To"
def kRefersTo := lit "WARC-Refers-To"
def kProfile := lit "WARC-Profile"
def kTruncated := lit "WARC-Truncated"

/-- `record.fields[name] = value` -/
def Record.set (r : Record) (name value : Str) : Record :=
  { r with fields := r.fields.setItem (normalizeName nameOverrides name) value }

/-- `record.fields.get(name)` -/
def Record.get? (r : Record) (name : Str) : Option Str :=
  r.fields.get? (normalizeName nameOverrides name)

/-- `'<{0}>'.format(uuid.uuid4().urn)` -/
def recordIdOf (uuid : Str) : Str := lit "<urn:uuid:" ++ uuid ++ lit ">"

/-- `WARCRecord()` + `set_common_fields(warc_type, content_type)` -/
def commonFields (idx : Nat) (warcType contentType date uuid : Str) : Record :=
  (((({ idx := idx, fields := [], block := [] } : Record).set kType warcType).set kCType contentType).set
    kDate date).set kId (recordIdOf uuid)

/-- `set_content_length()` (a block file is always present in the recorder) -/
def setContentLength (r : Record) : Record := r.set kLen (decimal r.block.length)

def sha1Prefix : Str := lit "sha1:"

/-- `compute_checksum(payload_offset)`; `H = base32 ∘ sha1` -/
def computeChecksum (H : Bytes → Str) (r : Record) (off : Option Nat) : Record :=
  let r := r.set kBlockDigest (sha1Prefix ++ H r.block)
  let r := match off with
    | some o => r.set kPayloadDigest (sha1Prefix ++ H (r.block.drop o))
    | none => r
  r.set kLen (decimal r.block.length)

/-- `set_length_and_maybe_checksums` -/
def setLenChk (digests : Bool) (H : Bytes → Str) (r : Record) (off : Option Nat) : Record :=
  if digests then computeChecksum H r off else setContentLength r

def versionLine : Bytes := lit "WARC/1.0"

/-- the serialisation of a list of field pairs and a block -/
def serializePairs (ps : List (Str × Str)) (block : Bytes) : Bytes :=
  versionLine ++ crlf ++ utf8 (pairsToStr ps) ++ crlf ++ block ++ crlf ++ crlf

/-- `bytes(record)` -/
def serialize (r : Record) : Bytes := serializePairs r.fields.getAll r.block

/-! ### the end of the HTTP header block -/

/-- Scan lines (split at LF): the length of the prefix up to and including the
first line that is exactly `LF` or `CRLF`.  `start`: the scan position is at the
start of a line that may itself be the blank line. -/
def scanOpt : Bool → Bytes → Option Nat
  | _, [] => none
  | start, c :: t =>
    if c = 10 then (if start then some 1 else (scanOpt true t).map (· + 1))
    else if start && c == 13 && t.head? == some 10 then some 2
    else (scanOpt false t).map (· + 1)

/-- `HTTPWARCRecorderSession._find_payload_offset`: read lines until the first
empty one; everything when there is none. -/
def payloadOffset (b : Bytes) : Nat := (scanOpt true b).getD b.length

/-- `re.match(br'(.*?\r?\n\r?\n)', data, re.DOTALL)`: end of group 1 (own
differential stream `re-header`). -/
def reHeaderEnd (data : Bytes) : Option Nat := scanOpt false data

/-- the bytes `get_http_header` parses: the lines up to the first empty one, cut
by the regular expression -/
def httpHeaderBytes (block : Bytes) : Option Bytes :=
  let data := block.take (payloadOffset block)
  (reHeaderEnd data).map data.take

/-! ### `Response.parse_status_line` -/

def isWs (c : Nat) : Bool := c == 32 || c == 9

/-- `re.match(br'(HTTP/\d+\.\d+)[ \t]+([0-9]{1,3})[ \t]*([^\r\n]*)', line)`: the status code -/
def parseStatusLine (line : Bytes) : Option Nat :=
  if !startsWith line (lit "HTTP/") then none else
  let r := line.drop 5
  let d1 := r.takeWhile isAsciiDigit
  if d1 = [] then none else
  match r.drop d1.length with
  | 46 :: r2 =>
    let d2 := r2.takeWhile isAsciiDigit
    if d2 = [] then none else
    let r3 := r2.drop d2.length
    let ws := r3.takeWhile isWs
    if ws = [] then none else
    let r4 := r3.drop ws.length
    let code := (r4.takeWhile isAsciiDigit).take 3
    parseDec? code
  | _ => none

/-! ### `NameValueRecord.parse(strict=False)` of the header fields (latin-1) -/

/-- line boundaries of `str.splitlines()` -/
def isLineSep (c : Nat) : Bool :=
  c == 10 || c == 13 || c == 11 || c == 12 || c == 28 || c == 29 || c == 30 || c == 0x85 ||
  c == 0x2028 || c == 0x2029

/-- `str.splitlines()` -/
def splitlines : Str → List Str := go []
where
  go (cur : Str) : Str → List Str
    | [] => if cur.isEmpty then [] else [cur.reverse]
    | 13 :: 10 :: t => cur.reverse :: go [] t
    | c :: t => if isLineSep c then cur.reverse :: go [] t else go (c :: cur) t

/-- `str.isspace()` for the characters that can occur (latin-1 + the Unicode spaces) -/
def isSpace (c : Nat) : Bool :=
  (9 ≤ c && c ≤ 13) || (28 ≤ c && c ≤ 32) || c == 0x85 || c == 0xA0 || c == 0x1680 ||
  (0x2000 ≤ c && c ≤ 0x200A) || c == 0x2028 || c == 0x2029 || c == 0x202F || c == 0x205F || c == 0x3000

def lstrip (s : Str) : Str := s.dropWhile isSpace
def strip (s : Str) : Str := (lstrip (lstrip s).reverse).reverse

/-- `unfold_lines(string)` -/
def unfoldLines (s : Str) : Str :=
  go true (splitlines s) ++ crlf
where
  go : Bool → List Str → Str
    | _, [] => []
    | first, l :: t =>
      (if l.head? == some 32 || l.head? == some 9 then [32]
       else if first then [] else crlf) ++ strip l ++ go false t

/-- one data line of `read_cdx` (`wpull/warc/format.py`): `line.strip().split(separator)`; the
line still carries its terminator (LF, CRLF, or none at the end of the file) -/
def readCdxLine (sep : Nat) (line : Str) : List Str := splitOn1 (strip line) sep

/-- the `(name, value)` pairs `parse(strict=False)` adds, names not yet normalised -/
def parseFieldLines (s : Str) : List (Str × Str) :=
  (splitlines (unfoldLines s)).filterMap fun line =>
    if line = [] then none
    else match findSub line [58] with
      | none => none
      | some i => some (strip (line.take i), strip (line.drop (i + 1)))

def contentTypeName : Str := lit "Content-Type"

/-- `fields.get('Content-Type', '')` after `parse` -/
def contentTypeOf (pairs : List (Str × Str)) : Str :=
  match pairs.find? (fun p => asciiTitle p.1 == contentTypeName) with
  | some p => p.2
  | none => []

/-- RFC 7230 `tchar` (the character class of the repaired `parse_mimetype`) -/
def isTokenChar (c : Nat) : Bool :=
  isAsciiDigit c || isAsciiUpper c || isAsciiLower c ||
  c == 33 || (35 ≤ c && c ≤ 39) || c == 42 || c == 43 || c == 45 || c == 46 ||
  c == 94 || c == 95 || c == 96 || c == 124 || c == 126

/-- `parse_mimetype(value) or '-'` -/
def mimeOf (value : Str) : Str :=
  let a := value.takeWhile isTokenChar
  if a = [] then [45] else
  match value.drop a.length with
  | 47 :: r =>
    let b := r.takeWhile isTokenChar
    if b = [] then [45] else a ++ [47] ++ b
  | _ => [45]

/-- `get_http_header()`: `(status_code, Content-Type value)` or `None` -/
def getHttpHeader (block : Bytes) : Option (Nat × Str) :=
  match httpHeaderBytes block with
  | none => none
  | some hdr =>
    let (statusLine, _, fieldStr) := partition hdr [10]
    match parseStatusLine statusLine with
    | none => none
    | some code => some (code, contentTypeOf (parseFieldLines fieldStr))

/-- the `m` and `s` columns of the CDX line -/
def cdxMimeStatus (block : Bytes) : Str × Str :=
  match getHttpHeader block with
  | some (code, ct) => (mimeOf ct, decimal code)
  | none => ([45], [45])

/-! ### the recorder -/

inductive FName
  | main
  | numbered (n : Nat)
  | metaF
  deriving DecidableEq, Repr

structure Cfg where
  compress : Bool
  digests : Bool
  cdx : Bool
  appending : Bool
  maxSize : Option Nat
  /-- `url_table is not None` -/
  revisit : Bool
  /-- basename of the file name prefix -/
  pfx : Str
  /-- value of the `Software` warcinfo field -/
  software : Str
  /-- extra warcinfo fields: name, value, logged `textwrap.wrap` result -/
  extra : List (Str × Str × List Str)
  /-- the three built-in warcinfo fields' logged `textwrap.wrap` results -/
  wrapBuiltin : List (List Str)

/-- the run-time parameters -/
structure Env where
  H : Bytes → Str
  /-- bytes appended for record number `idx` with serialisation `raw` when compressing -/
  member : Nat → Bytes → Bytes
  uuid : Nat → Str
  date : Nat → Str
  /-- `str(int(parse_iso8601_str(date)))` -/
  ts : Str → Str

/-- `_generate_warc_filename` relative to the directory -/
def render (c : Cfg) (f : FName) : Str :=
  c.pfx ++ (match f with
    | .main => []
    | .numbered n => [45] ++ pad5 n
    | .metaF => lit "-meta") ++ (if c.compress then lit ".warc.gz" else lit ".warc")

structure Entry where
  file : FName
  offset : Nat
  size : Nat
  /-- the record as stamped and serialised -/
  record : Record
  deriving DecidableEq

structure Slot where
  url : Str
  ip : Str
  /-- request / control record -/
  first : Option Record
  /-- response / resource record -/
  second : Option Record

structure St where
  fs : List (FName × Bytes)
  cur : FName
  seq : Nat
  winfoId : Str
  /-- creation counter -/
  next : Nat
  /-- CDX lines appended (without the newline) -/
  cdxLines : List Str
  /-- ghost: everything `write_record` appended, in order -/
  log : List Entry
  slots : List (Nat × Slot)

def fsGet (fs : List (FName × Bytes)) (f : FName) : Option Bytes :=
  match fs with
  | [] => none
  | (g, b) :: t => if g = f then some b else fsGet t f

def fsSet (fs : List (FName × Bytes)) (f : FName) (b : Bytes) : List (FName × Bytes) :=
  match fs with
  | [] => [(f, b)]
  | (g, x) :: t => if g = f then (g, b) :: t else (g, x) :: fsSet t f b

def fsSize (fs : List (FName × Bytes)) (f : FName) : Nat := ((fsGet fs f).map List.length).getD 0

/-- `re.match(r'application/http; *msgtype *= *response', value)` -/
def isHttpResponseType (v : Str) : Bool :=
  let p1 := lit "application/http;"
  if !startsWith v p1 then false else
  let r := (v.drop p1.length).dropWhile (· == 32)
  let p2 := lit "msgtype"
  if !startsWith r p2 then false else
  let r := (r.drop p2.length).dropWhile (· == 32)
  match r with
  | 61 :: r => startsWith (r.dropWhile (· == 32)) (lit "response")
  | _ => false

def typeResponse := lit "response"
def ctRequest := lit "application/http;msgtype=request"
def ctResponse := lit "application/http;msgtype=response"

/-- does `_write_cdx_field` write a line for this record? -/
def wantsCdx (r : Record) : Bool :=
  r.get? kType == some typeResponse && ((r.get? kCType).map isHttpResponseType).getD false

/-- the CDX line of `_write_cdx_field` (without the newline) -/
def cdxLine (c : Cfg) (e : Env) (file : FName) (r : Record) (size offset : Nat) : Str :=
  let (mime, status) := cdxMimeStatus r.block
  let digest := (r.get? kPayloadDigest).getD []
  let checksum := if startsWith digest sha1Prefix then digest.drop sha1Prefix.length else [45]
  joinWith [32] [(r.get? kUri).getD [], e.ts ((r.get? kDate).getD []), mime, status, checksum,
    decimal size, decimal offset, render c file, (r.get? kId).getD []]

/-- `write_record(record)` without the journal -/
def writeRecord (c : Cfg) (e : Env) (s : St) (r : Record) : St :=
  let r := r.set kWarcinfoId s.winfoId
  let before := fsSize s.fs s.cur
  let raw := serialize r
  let data := if c.compress then e.member r.idx raw else raw
  let fs := fsSet s.fs s.cur (((fsGet s.fs s.cur).getD []) ++ data)
  let size := fsSize fs s.cur - before
  { s with
    fs := fs
    log := s.log ++ [{ file := s.cur, offset := before, size := size, record := r }]
    cdxLines := if c.cdx && wantsCdx r then s.cdxLines ++ [cdxLine c e s.cur r size before]
                else s.cdxLines }

/-- the block of the warcinfo record: `bytes(info_fields) + b'\r\n'` with `wrap_width=1024` -/
def warcinfoBlock (c : Cfg) : Bytes :=
  let builtin : List (Str × Str) := [
    (lit "Software", c.software), (lit "format", lit "WARC File Format 1.0"),
    (lit "conformsTo", lit "http://bibnum.bnf.fr/WARC/WARC_ISO_28500_version1_latestdraft.pdf")]
  -- an ordered multimap keyed by the title-cased name
  let m0 : List (Str × List (Str × List Str)) := []
  let add (m : List (Str × List (Str × List Str))) (n v : Str) (w : List Str) :=
    let k := asciiTitle n
    if m.any (·.1 == k) then m.map (fun p => if p.1 == k then (p.1, p.2 ++ [(v, w)]) else p)
    else m ++ [(k, [(v, w)])]
  let set (m : List (Str × List (Str × List Str))) (n v : Str) (w : List Str) :=
    let k := asciiTitle n
    if m.any (·.1 == k) then m.map (fun p => if p.1 == k then (p.1, [(v, w)]) else p)
    else m ++ [(k, [(v, w)])]
  let m1 := (builtin.zip c.wrapBuiltin).foldl (fun m p => set m p.1.1 p.1.2 p.2) m0
  let m2 := c.extra.foldl (fun m p => add m p.1 p.2.1 p.2.2) m1
  utf8 (m2.flatMap (fun p => p.2.flatMap (fun vw => wrappedLine p.1 vw.1 vw.2 ++ crlf))) ++ crlf

def fnameOf (c : Cfg) (isMeta : Bool) (seq : Nat) : FName :=
  match c.maxSize with
  | none => .main
  | some _ => if isMeta then .metaF else .numbered seq

/-- the `while os.path.exists(...)` loop of `_start_new_warc_file` -/
def skipExisting (fs : List (FName × Bytes)) : Nat → Nat → Nat
  | 0, seq => seq
  | f + 1, seq => if (fsGet fs (.numbered seq)).isSome then skipExisting fs f (seq + 1) else seq

/-- the sequence number `_start_new_warc_file(meta)` settles on -/
def startSeq (c : Cfg) (s : St) (isMeta : Bool) : Nat :=
  if c.maxSize.any (· != 0) && !isMeta && c.appending then skipExisting s.fs (s.fs.length + 1) s.seq
  else s.seq

/-- `WARCRecord()` + `_populate_warcinfo` for creation index `n` (always with checksum) -/
def warcinfoRecord (c : Cfg) (e : Env) (n : Nat) : Record :=
  let w := commonFields n (lit "warcinfo") (lit "application/warc-fields") (e.date n) (e.uuid n)
  computeChecksum e.H { w with block := warcinfoBlock c } none

/-- `_start_new_warc_file(meta)` up to (not including) `write_record(warcinfo)` -/
def startPre (c : Cfg) (e : Env) (s : St) (isMeta : Bool) : St :=
  let seq := startSeq c s isMeta
  let cur := fnameOf c isMeta seq
  { s with fs := if c.appending then s.fs else fsSet s.fs cur [], cur := cur, seq := seq,
           next := s.next + 1, winfoId := recordIdOf (e.uuid s.next) }

/-- `_start_new_warc_file(meta)` -/
def startFile (c : Cfg) (e : Env) (s : St) (isMeta : Bool) : St :=
  writeRecord c e (startPre c e s isMeta) (warcinfoRecord c e s.next)

/-- the state before `__init__` has started a file -/
def st0 (existing : List (FName × Bytes)) : St :=
  { fs := existing, cur := .main, seq := 0, winfoId := [], next := 0, cdxLines := [], log := [], slots := [] }

/-- `WARCRecorder(filename, params)`: `existing` = files already present -/
def initSt (c : Cfg) (e : Env) (existing : List (FName × Bytes)) : St :=
  startFile c e (st0 existing) false

/-- `flush_session()` -/
def flushSession (c : Cfg) (e : Env) (s : St) : St :=
  match c.maxSize with
  | none => s
  | some m => if fsSize s.fs s.cur > m then startFile c e { s with seq := s.seq + 1 } false else s

def slotGet (s : St) (k : Nat) : Option Slot := (s.slots.find? (·.1 == k)).map (·.2)
def slotSet (s : St) (k : Nat) (x : Slot) : St :=
  { s with slots := (k, x) :: s.slots.filter (·.1 != k) }

inductive Op
  /-- `begin_request`: slot, URL, IP address -/
  | beginRequest (k : Nat) (url ip : Str)
  /-- `end_request`: all `request_data`, `len(request.to_bytes())` -/
  | endRequest (k : Nat) (block : Bytes) (off : Nat)
  | beginResponse (k : Nat)
  /-- `end_response`: all `response_data`, the id returned by `get_revisit_id` -/
  | endResponse (k : Nat) (block : Bytes) (revisit : Option Str)
  /-- session `close()` -/
  | closeSession
  | beginControl (k : Nat) (url ip : Str)
  | beginTransfer (k : Nat)
  | endTransfer (k : Nat) (block : Bytes)
  | endControl (k : Nat) (block : Bytes)

def revisitProfile := lit "http://netpreserve.org/warc/1.0/revisit/identical-payload-digest"

/-- the response record as `end_response` leaves it before `write_record` -/
def finishResponse (c : Cfg) (e : Env) (r : Record) (block : Bytes) (revisit : Option Str) : Record :=
  let off := payloadOffset block
  let r := setLenChk c.digests e.H { r with block := block } (some off)
  match (if c.revisit then revisit else none) with
  | some ref =>
    if ref = [] then r else
    let r := setLenChk c.digests e.H { r with block := block.take off } none
    (((r.set kType (lit "revisit")).set kRefersTo ref).set kProfile revisitProfile).set kTruncated (lit "length")
  | none => r

def step (c : Cfg) (e : Env) (s : St) : Op → St
  | .beginRequest k url ip =>
    let r := ((commonFields s.next (lit "request") ctRequest (e.date s.next) (e.uuid s.next)).set kUri url).set kIp ip
    slotSet { s with next := s.next + 1 } k { url := url, ip := ip, first := some r, second := none }
  | .endRequest k block off =>
    match slotGet s k with
    | some { url, ip, first := some r, second } =>
      let r := setLenChk c.digests e.H { r with block := block } (some off)
      slotSet (writeRecord c e s r) k { url, ip, first := some r, second }
    | _ => s
  | .beginResponse k =>
    match slotGet s k with
    | some { url, ip, first := some q, second := _ } =>
      let r := (((commonFields s.next typeResponse ctResponse (e.date s.next) (e.uuid s.next)).set kUri url).set kIp ip).set
        kConcurrent ((q.get? kId).getD [])
      slotSet { s with next := s.next + 1 } k { url, ip, first := some q, second := some r }
    | _ => s
  | .endResponse k block revisit =>
    match slotGet s k with
    | some { url := _, ip := _, first := _, second := some r } =>
      writeRecord c e s (finishResponse c e r block revisit)
    | _ => s
  | .closeSession => flushSession c e s
  | .beginControl k url ip =>
    let r := ((commonFields s.next (lit "metadata") (lit "text/x-ftp-control-conversation") (e.date s.next)
      (e.uuid s.next)).set kUri url).set kIp ip
    slotSet { s with next := s.next + 1 } k { url := url, ip := ip, first := some r, second := none }
  | .beginTransfer k =>
    match slotGet s k with
    | some { url, ip, first := some q, second := _ } =>
      let r := (((commonFields s.next (lit "resource") (lit "application/octet-stream") (e.date s.next)
        (e.uuid s.next)).set kUri url).set kIp ip).set kConcurrent ((q.get? kId).getD [])
      slotSet { s with next := s.next + 1 } k { url, ip, first := some q, second := some r }
    | _ => s
  | .endTransfer k block =>
    match slotGet s k with
    | some { url := _, ip := _, first := _, second := some r } =>
      writeRecord c e s (setLenChk c.digests e.H { r with block := block } none)
    | _ => s
  | .endControl k block =>
    match slotGet s k with
    | some { url := _, ip := _, first := some r, second := _ } =>
      writeRecord c e s (setLenChk c.digests e.H { r with block := block } none)
    | _ => s

def run (c : Cfg) (e : Env) (s : St) (ops : List Op) : St := ops.foldl (step c e) s

/-- `WARCRecorder.close()`: `logBlock` = the decompressed log when `log=True` -/
def closeRecorder (c : Cfg) (e : Env) (s : St) (logBlock : Option Bytes) : St :=
  match logBlock with
  | none => s
  | some lb =>
    let r := (commonFields s.next (lit "resource") (lit "text/plain") (e.date s.next) (e.uuid s.next)).set kUri
      (lit "urn:X-wpull:log")
    let s := { s with next := s.next + 1 }
    let s := if c.maxSize.isSome then startFile c e s true else s
    writeRecord c e s (setLenChk c.digests e.H { r with block := lb } none)

/-- a whole life of a recorder -/
def life (c : Cfg) (e : Env) (existing : List (FName × Bytes)) (ops : List Op) (logBlock : Option Bytes) : St :=
  closeRecorder c e (run c e (initSt c e existing) ops) logBlock

/-- `_start_new_cdx_file`: is the header line written? -/
def cdxHeaderWritten (c : Cfg) (cdxExists : Bool) : Bool := c.cdx && (!c.appending || !cdxExists)

def cdxHeader : Str := lit " CDX a b m s k S V g u"

/-- the lines of `PREFIX.cdx` after a life; `old` = the lines the file held before (`none`: no
file).  `_start_new_cdx_file`: without `appending` the file is truncated and gets a header, with
`appending` it is kept and gets a header only when it did not exist. -/
def cdxFile (c : Cfg) (old : Option (List Str)) (s : St) : List Str :=
  (if c.appending then old.getD [] else []) ++
  (if cdxHeaderWritten c old.isSome then [cdxHeader] else []) ++ s.cdxLines

end Wpull.Warc
